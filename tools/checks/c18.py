"""C18 — growing a shared memory from several threads is linearizable and race-free.

Obligations: theorems of Props/C18.lean — `grow_linearizable`, `grow_bounds`, `grow_race_free_partial` for ANY
step lists passing the lock-discipline check, their instantiation on the proposed repair, and the verdict on the
REGENERATED `Gen.growSteps` (wasmMemoryGrow of the current w2c2_base.h flattened in source order).
Tie: regeneration (Gen/MemFuncs.lean) + `sched-trace`: the real header function (gcc, -DWASM_THREADS_PTHREADS)
under the deterministic scheduler of tools/harness/grow_sched.c vs Model.Grow on the same schedule strings,
+ sequential grows incl. wrap-around deltas, + wasmMemoryAllocate's size, + TSan/ASan runs as supporting tests.
On break / when the model says the property fails: the property itself is evaluated on the REAL outputs
(brute-force linearizability oracle over the observed return values and final size).
"""
import itertools
import json
import os
import re

import vlib
import grow_sched as gs
import gen_memfuncs
from common import prove, leanchecker
from vlib import log

PROP = "C18"
MODULES = ["W2c2Verif.Props.C18", "W2c2Verif.Props.C05Grow"]
GROW_CONTENT_MODULES = ["W2c2Verif.Props.C05Grow"]      # what C05 must build besides its own modules (GENS: MemFuncs)
GENS = [("MemFuncs", "gen_memfuncs")]
CONCDRIVER = os.path.join(vlib.LEAN, ".lake", "build", "bin", "concdriver")
FAIL = 0xFFFFFFFF


# ----------------------------------------------------------------------------- specification oracle (Python twin of specGrow)

def spec_grow(pages, delta, maxp):
    if pages + delta <= maxp:
        return pages, pages + delta
    return FAIL, pages


def linearizable(init, maxp, ops, rets, final_pages, schedule):
    """Is there an order of the completed operations (grows AND size queries), consistent with real time as far as the schedule shows it
    (an op whose last segment precedes another's first segment comes first), that explains every return value
    and the final page count?  ops: list of ('g', delta) | ('s', 0); rets: list of int|None."""
    ops = [("g", d) if k == "g" else ("g", 0) for k, d in ops]     # memory.size = "grow by 0": returns the size, changes nothing
    grows = [i for i, (k, _) in enumerate(ops) if rets[i] is not None]
    pending = [i for i, (k, _) in enumerate(ops) if rets[i] is None]
    first = {}
    last = {}
    for pos, c in enumerate(schedule):
        t = int(c)
        first.setdefault(t, pos)
        last[t] = pos
    for extra in range(len(pending) + 1):
        for pend in itertools.combinations(pending, extra):       # pending grows may or may not have taken effect
            for order in itertools.permutations(grows + list(pend)):
                ok = True
                for i, a in enumerate(order):
                    for b in order[:i]:
                        # b is before a in the order: a must not have completed before b started
                        if rets[a] is not None and last.get(a, 0) < first.get(b, 0):
                            ok = False
                if not ok:
                    continue
                p = init
                for t in order:
                    r, p2 = spec_grow(p, ops[t][1], maxp)
                    if rets[t] is not None and rets[t] != r:
                        ok = False
                        break
                    p = p2
                if ok and p == final_pages:
                    return True
    return False


def op_args(ops):
    return [("%s%d" % (k, d)) if k in ("g", "o") else "s" for k, d in ops]


def interleavings(segs):
    """all distinct interleavings of segs[t] segments of thread t, as digit strings"""
    base = []
    for t, n in enumerate(segs):
        base += [str(t)] * n
    return sorted(set("".join(p) for p in itertools.permutations(base)))


def observer_part(chk, exe, have_driver, tier, broken, hist):
    """Histories grower ∥ observer on a shared memory: the observer executes memory.size and, as soon as it sees the grown
    size, stores a marker byte into the newest page, lets the others run and reads the marker back.  A page that
    memory.size has made visible belongs to the program: the marker must survive (a zero-fill that runs after the new
    size has been published — outside the critical section — erases it)."""
    cases = []
    for init, maxp, dl in [(1, 4, 1), (2, 5, 2)]:
        for s in interleavings([3, 4]):
            cases.append((init, maxp, 1, s, [("g", dl), ("o", init)]))
    for _ in range(30 if tier == "quick" else 600):
        base = list("000111") + ["2"] * 4
        chk.rng.shuffle(base)
        cases.append((1, 5, 1, "".join(base), [("g", 1), ("g", 1), ("o", 1)]))
    lines = ["gsched gen %d %d %d %s %s" % (i, m, sh, s, " ".join("s" if k == "o" else a for (k, _), a in zip(ops, op_args(ops))))
             for i, m, sh, s, ops in cases]
    model = driver_lines(lines) if have_driver else None
    lost = None
    hist.update({"observer_histories": 0, "observer_marker_intact": 0, "observer_not_grown_yet": 0, "observer_marker_lost": 0})
    for idx, (init, maxp, sh, sched, ops) in enumerate(cases):
        rc, out, err = gs.run(exe, ["sched", init, maxp, sh, sched] + op_args(ops))
        hist["observer_histories"] += 1
        chk.count_case(("observer", init, maxp, sched, tuple(ops)), True,
                       {"case": f"sched {init} {maxp} {sh} {sched} {' '.join(op_args(ops))}", "real": out} if idx % 40 == 0 else None)
        if rc != 0 or not out.startswith("ret"):
            broken.append({"kind": "harness", "msg": f"observer history {sched}: exit {rc} {out[:100]} {err[-100:]}"})
            continue
        r = gs.parse_result(out)
        if model:
            mr = gs.parse_result(model[idx])
            same = all(a == b for (k, _), a, b in zip(ops, r["rets"], mr["rets"]) if k != "o") \
                and (r["pages"], r["size"]) == (mr["pages"], mr["size"])
            if not same:
                broken.append({"kind": "correspondence", "msg": f"observer history {init} {maxp} {sched} {op_args(ops)}: real `{out}` model `{model[idx]}`"})
        for (k, _), v in zip(ops, r["rets"]):
            if k != "o" or v is None:
                continue
            if v == 0:
                hist["observer_not_grown_yet"] += 1
            elif v == 0x100 + 0x5a:
                hist["observer_marker_intact"] += 1
            else:
                hist["observer_marker_lost"] += 1
                if lost is None or len(ops) < len(lost[4]):
                    lost = (init, maxp, sh, sched, ops, out, v)
    if lost:
        init, maxp, sh, sched, ops, out, v = lost
        chk.violation(
            "grow-zero-fill-after-publishing-size",
            f"shared memory ({init} pages, max {maxp}), schedule {sched} of {op_args(ops)}: the observer saw the grown size through "
            f"memory.size, stored the marker 0x5a into the newest page and later reads {v - 0x100:#x} — the store was erased: "
            "wasmMemoryGrow zero-fills the new pages AFTER unlocking the mutex that publishes the new size "
            f"(real header: `{out}`; model obligation: grow_zero_fill_inside_critical_section)",
            {"harness": "tools/harness/grow_sched.c", "args": ["sched", init, maxp, sh, sched] + op_args(ops), "observed": out,
             "lost_marker": True, "replay_cmd": "python3 tools/check.py C18 --replay <this file>"}, True)


# ----------------------------------------------------------------------------- case generation

def sched_cases(rng, tier):
    cases = []
    two = list(gs.schedules(2, 3))                      # all 20 interleavings of 2 grows
    for init, maxp, d0, d1 in [(1, 10, 1, 1), (1, 3, 1, 2), (0, 2, 1, 1), (2, 2, 0, 1), (1, 65535, 3, 65534),
                               (5, 10, 0, 0), (1, 10, 4294967295, 1), (9, 10, 1, 1)]:
        for s in two:
            cases.append((init, maxp, 1, s, [("g", d0), ("g", d1)]))
    for s in two:                                       # a grow next to a memory.size
        cases.append((1, 10, 1, s, [("g", 2), ("s", 0)]))
    for s in two:                                       # a failing (wrapping / too large) grow followed by other operations
        cases.append((1, 10, 1, s, [("g", 4294967295), ("s", 0)]))
        cases.append((2, 4, 1, s, [("g", 4294967294), ("g", 1)]))
        cases.append((1, 2, 1, s, [("g", 5), ("s", 0)]))
    n3 = 60 if tier == "quick" else 1500
    for _ in range(n3):                                 # three / four operations, seeded schedules (incl. partial ones)
        n = rng.choice([3, 3, 4])
        ops = [("g", rng.choice([0, 1, 1, 2, 3, 7, 4294967295])) if rng.random() < 0.85 else ("s", 0) for _ in range(n)]
        base = []
        for t in range(n):
            base += [str(t)] * 3
        rng.shuffle(base)
        if rng.random() < 0.25:
            base = base[:rng.randrange(1, len(base))]
        init = rng.choice([0, 1, 1, 2, 5])
        maxp = init + rng.choice([0, 1, 2, 3, 8])
        cases.append((init, maxp, 1, "".join(base), ops))
    return cases


def seq_cases(rng, tier):
    cases = []
    for shared in (1, 0):
        for init, maxp in [(1, 10), (0, 4), (3, 3), (1, 65535), (0, 0)]:
            for ds in [[1, 2, 3], [0, 0, 1], [4294967295], [4294967296 - init if init else 0], [maxp - init, 1],
                       [maxp + 1], [2147483648, 2147483648], [65536, 1]]:
                if shared == 0 and maxp > 100:
                    continue                      # keep real allocations small for the non-shared path
                cases.append((init, maxp, shared, [d % (1 << 32) for d in ds]))
    for init, maxp, ds in [(1, 10, [4294967295, 1]), (1, 10, [4294967295, "s"]), (2, 4, [4294967294, 1, "s"]),
                           (1, 3, [5, "s", 1]), (1, 3, [0, "s", 2, "s", 1, "s"]), (3, 3, [1, "s", 0])]:
        cases.append((init, maxp, 1, ds))               # shared: every operation must leave the mutex unlocked
    for _ in range(40 if tier == "quick" else 2000):
        init = rng.choice([0, 1, 2, 7])
        maxp = init + rng.choice([0, 1, 5, 20])
        ds = [rng.choice([0, 1, 2, 5, 21, 4294967295, 4294967295 - init, 4294967296 - init, 2147483648]) % (1 << 32)
              for _ in range(rng.randrange(1, 6))]
        ds = [("s" if rng.random() < 0.15 else x) for x in ds]
        cases.append((init, maxp, rng.choice([0, 1]), ds))
    return cases



def MEMORY_MODULE(max_pages):
    """`(module (memory 1 <max> shared))` as bytes"""
    def leb(n):
        out = bytearray()
        while True:
            b7 = n & 0x7f
            n >>= 7
            out.append(b7 | (0x80 if n else 0))
            if not n:
                return bytes(out)
    body = b"\x01\x03\x01" + leb(max_pages)
    return b"\x00asm\x01\x00\x00\x00\x05" + leb(len(body)) + body


def translator_max(repo, d):
    """{declared max: (allocation call text in the generated C, max passed)} for shared memories, via the real w2c2."""
    import opmods
    res = {}
    try:
        w2c2 = get_w2c2(repo, d)
    except Exception as e:
        return {"build": (str(e)[-200:], None)}
    for mx in (65535, 65536):
        wd = os.path.join(d, f"mm{mx}")
        os.makedirs(wd, exist_ok=True)
        with open(os.path.join(wd, "m.wasm"), "wb") as f:
            f.write(MEMORY_MODULE(mx))
        p = vlib.run([w2c2, "m.wasm", "m.c"], cwd=wd, timeout=60)
        text = open(os.path.join(wd, "m.c")).read() if os.path.exists(os.path.join(wd, "m.c")) else ""
        m = re.search(r"(WASM_MEMORY_ALLOCATE_SHARED|wasmMemoryAllocate)\s*\(([^;]*)\)\s*;", text)
        if not m:
            res[mx] = (f"w2c2 exit {p.returncode}: {(p.stderr or '')[-120:]}", None)
            continue
        args = [a.strip() for a in m.group(2).split(",")]
        try:
            passed = int(args[1].rstrip("uUlL"), 0)
        except Exception:
            passed = None
        res[mx] = (m.group(0), passed)
    return res


# ----------------------------------------------------------------------------- contents of grown memory (C05 + C18)

def content_cases(rng, tier):
    # (initial pages, max, reallocFails: 0 never / 1 always / k>=2: the (k-1)-th realloc call fails, deltas)
    cases = [(1, 10, 0, [2, 0, 1, 20, 3]), (0, 4, 0, [1, 1, 2, 1]), (2, 2, 0, [1, 0]), (1, 6, 0, [5, 1]),
             (1, 10, 1, [2, 1]), (3, 8, 0, [4294967295, 1, 4294967293, 4]), (0, 3, 0, [3]), (1, 3, 0, [1, 1, 1]),
             (1, 10, 2, [2, 1, 1]), (1, 10, 3, [2, 1, 1]), (2, 6, 4, [1, 0, 1, 1, 1]), (1, 4, 2, [1]), (1, 4, 1, [1, 0, 3])]
    for _ in range(12 if tier == "quick" else 300):
        init = rng.choice([0, 1, 1, 2, 3])
        maxp = init + rng.choice([0, 1, 3, 6])
        ds = [rng.choice([0, 1, 1, 2, 3, 5, 4294967295]) for _ in range(rng.randrange(1, 5))]
        cases.append((init, maxp, rng.choice([0, 0, 0, 0, 1, 2, 3]), ds))
    return cases


def run_grow_content(chk, repo, d, tier, broken, exe=None):
    """`memory.grow` and the CONTENTS of a non-shared memory: the real wasmMemoryGrow (scratch copy `repo`, built in
    `d`) with a realloc that returns a fresh block with a dirty 0xAA tail (tools/harness/grow_sched.c `content`)
    vs Model.GrowContent on the regenerated step list (driver `gcontent`), and against the property itself: after
    a successful grow every byte of the new pages is 0 and the old bytes are intact; a failed grow changes nothing.
    Callable from c05.py (C05 must also build GROW_CONTENT_MODULES with GENS += [("MemFuncs", "gen_memfuncs")]).
    Reports `grow-new-pages-not-zero` / `grow-old-contents-changed` on `chk`; appends tie failures to `broken`."""
    if exe is None:
        try:
            exe = gs.build(os.path.join(repo, "w2c2"), d, "grow_content")
        except Exception as e:
            broken.append({"kind": "harness-build", "msg": str(e)[-1500:]})
            return
    ok, out = vlib.lake_build(["concdriver"])
    have_driver = ok and os.path.exists(CONCDRIVER)
    if not ok:
        broken.append({"kind": "driver-build", "msg": out[-1500:]})
    cases = content_cases(chk.rng, tier)
    model = None
    if have_driver:
        try:
            model = driver_lines([f"gcontent gen {i} {m} {f} " + " ".join(map(str, ds)) for i, m, f, ds in cases])
        except Exception as e:
            broken.append({"kind": "driver", "msg": str(e)[-500:]})
    hist = {"cases": 0, "grows": 0, "successful_grows": 0, "new_bytes_checked": 0, "realloc_failures": 0}
    worst = None
    for idx, (init, maxp, fail, ds) in enumerate(cases):
        rc, out, err = gs.run(exe, ["content", init, maxp, fail] + ds)
        hist["cases"] += 1
        chk.count_case(("content", init, maxp, fail, tuple(ds)), True,
                       {"case": f"content {init} {maxp} {fail} {' '.join(map(str, ds))}", "real": out,
                        "model": model[idx] if model else None} if idx < 3 else None)
        hist_args = ["content", init, maxp, fail] + ds
        if rc != 0:
            # the real code crashed / hung while the contents were read back through the real accessors: an answer
            ents = out.split()
            last = ents[-1] if ents else ""
            n_done = len(ents)
            failed_grow = last.startswith("r=4294967295")
            if isinstance(rc, int) and rc < 0 or rc in (139, 134, 138) or rc == "timeout":
                chk.violation(
                    "failed-grow-loses-memory" if failed_grow else "grow-content-crash",
                    f"non-shared memory ({init} page(s), max {maxp}, pattern written through i32.store8), grows {ds[:n_done]} "
                    f"(realloc made to fail: mode {fail}): after grow #{n_done} (`{last}`"
                    + (": returned -1, page count unchanged, but `memory->data` is no longer the old block" if "d=0" in last else "")
                    + f") reading the old contents back through i32.load8_u crashes (exit {rc}) — a failed memory.grow must change nothing",
                    {"harness": "tools/harness/grow_sched.c (realloc redirected: fails on request, old block stays valid)",
                     "kind": "grow-content", "args": hist_args, "history": {"initial_pages": init, "writes": "pattern over all pages (i32.store8)",
                                                    "grows": ds[:n_done], "realloc_failure_mode": fail,
                                                    "reads": "all old bytes (i32.load8_u)"},
                     "observed": out, "exit": rc, "model": "Props/C05Grow.lean grow_realloc_failure_keeps_contents",
                     "replay_cmd": "python3 tools/check.py C18 --replay <this file>"}, True)
            else:
                broken.append({"kind": "harness", "msg": f"content {init} {maxp} {fail} {ds}: exit {rc} {err[-200:]}"})
            continue
        if model and model[idx] != out:
            broken.append({"kind": "correspondence",
                           "msg": f"grow-content {init} {maxp} {fail} {ds}: real `{out}` model `{model[idx]}`"})
        pages = init
        calls = 0
        for dl, ent in zip(ds, out.split()):
            f = dict(kv.split("=") for kv in ent.split(","))
            if f.get("d") == "0" or (int(f["r"]) == FAIL and (int(f["p"]) != pages or f["o"] != "1")):
                chk.violation(
                    "failed-grow-loses-memory",
                    f"non-shared memory ({init} page(s), max {maxp}), grows {ds} (realloc failure mode {fail}): memory.grow({dl}) "
                    f"at {pages} page(s) returned -1 but changed the memory (`{ent}`: d = data pointer unchanged, p = pages, "
                    "o = old bytes intact) — a failed grow must change nothing",
                    {"kind": "grow-content", "harness": "tools/harness/grow_sched.c", "args": hist_args, "observed": out,
                     "model": "Props/C05Grow.lean grow_realloc_failure_keeps_contents",
                     "replay_cmd": "python3 tools/check.py C18 --replay <this file>"}, True)
            hist["grows"] += 1
            er, p2 = spec_grow(pages, dl, maxp)
            if er != FAIL and dl > 0:
                calls += 1
                if fail == 1 or (fail >= 2 and calls == fail - 1):
                    er, p2 = FAIL, pages
                    hist["realloc_failures"] += 1
            if int(f["r"]) != FAIL and dl > 0:
                hist["successful_grows"] += 1
                hist["new_bytes_checked"] += (int(f["p"]) - pages) * 65536
            if int(f["z"]) != 0 and (worst is None or sum(ds) < sum(worst[3])):
                worst = (init, maxp, fail, ds, out, pages, dl, f)
            if f["o"] != "1":
                chk.violation("grow-old-contents-changed",
                              f"memory.grow({dl}) on a non-shared memory of {pages} pages changed bytes below the old size",
                              {"kind": "grow-content", "harness": "tools/harness/grow_sched.c", "args": ["content", init, maxp, fail] + ds,
                               "observed": out, "replay_cmd": "python3 tools/check.py C18 --replay <this file>"}, True)
            if int(f["r"]) != er or int(f["p"]) != p2:
                broken.append({"kind": "correspondence", "msg": f"grow-content {init} {maxp} {fail} {ds}: grow({dl}) at {pages} "
                                                               f"pages gave {ent}, specification ret {er} pages {p2}"})
            pages = int(f["p"])
    if worst:
        init, maxp, fail, ds, out, pages, dl, f = worst
        chk.violation(
            "grow-new-pages-not-zero",
            f"memory.grow({dl}) on a non-shared memory of {pages} page(s) (max {maxp}): {f['z']} bytes of the new pages are not "
            f"zero (first at byte {f['f']}) when realloc returns a block with a dirty tail — the specification requires grown "
            "memory to read as zero; wasmMemoryGrow's memset after realloc does not cover [oldSize, newSize)",
            {"harness": "tools/harness/grow_sched.c (realloc redirected to dirty_realloc: fresh block, tail 0xAA)",
             "kind": "grow-content", "args": ["content", init, maxp, fail] + ds, "initial_pages": init, "failing_delta": dl, "observed": out,
             "model": "Props/C05Grow.lean grow_zeroes_new_pages (Gen.growSteps: realloc size / memset offset+length)",
             "replay_cmd": "python3 tools/check.py C18 --replay <this file>"}, True)
    chk.coverage.update({"content_" + k: v for k, v in hist.items()})


def get_w2c2(repo, d):
    """build the real w2c2 once per scratch dir"""
    import opmods
    exe = os.path.join(d, "w2c2")
    return exe if os.path.exists(exe) else opmods.build_w2c2(repo, d)


# ----------------------------------------------------------------------------- memory.size through the translator

def generated_size_part(chk, repo, d, inc, tier, broken):
    """For every kind of memory (defined / imported × shared / non-shared) translate a module with memory.size and
    memory.grow with the REAL w2c2 and require that memory.size is emitted as a call of the header function
    `wasmMemorySize` (whose shared path is locked: Gen.sizeSteps, size_reads_under_lock) — never as a read of the
    descriptor; for the shared kinds additionally run the generated code under ThreadSanitizer with growers and size
    readers.  Violations: key memory-size-unlocked-read-race, replay = module bytes + memory kind."""
    import opmods
    res = {}
    try:
        w2c2 = get_w2c2(repo, d)
    except Exception as e:
        broken.append({"kind": "harness-build", "msg": "w2c2: " + str(e)[-500:]})
        return res
    iters = 3000 if tier == "quick" else 40000
    for kind, shared, imported in gs.MEMORY_KINDS:
        ent = {}
        res[kind] = ent
        try:
            gexe, gtext = gs.build_generated(w2c2, inc, os.path.join(d, "genmod_" + kind), shared=shared, imported=imported)
            em = gs.emitted_statements(gtext)
        except Exception as e:
            ent["error"] = str(e)[-300:]
            broken.append({"kind": "harness-build", "msg": f"generated module ({kind}): {ent['error']}"})
            continue
        ent["emitted"] = em
        chk.count_case(("emitted-memory.size", kind), True,
                       {"case": f"w2c2 on a module with a {kind} memory: memory.size / memory.grow", "real": em})
        replay = {"module": gs.size_module(1000, shared, imported).hex(), "memory_kind": kind, "emitted": em,
                  "args": ["generated", kind], "replay_cmd": "python3 tools/check.py C18 --replay <this file>"}
        sz = em.get("memory.size")
        if sz is None:
            broken.append({"kind": "correspondence", "msg": f"could not find the statement emitted for memory.size ({kind}): {em}"})
        elif not sz.startswith("wasmMemorySize("):
            if shared:
                chk.violation(
                    "memory-size-unlocked-read-race",
                    f"memory.size on a {kind} memory is emitted as `si0={sz};` — a plain read of the descriptor instead of the "
                    "locked header function wasmMemorySize: data race with a concurrent memory.grow of another thread "
                    "(model: unlocked_size_read_would_race)", replay, True)
            else:
                broken.append({"kind": "correspondence",
                               "msg": f"memory.size on a {kind} memory is emitted as `si0={sz};`, the model assumes the translator "
                                      "always emits a call of wasmMemorySize"})
        if shared:
            rc, o4, e4 = gs.run(gexe, [1, iters, 1], timeout=120)
            rc, o5, e5 = gs.run(gexe, [3, iters, 3], timeout=120)
            ent["tsan"] = {"one_grower_one_size_reader_race": "data race" in e4, "result": o4,
                           "growers_and_size_readers_race": "data race" in e5, "result3": o5}
            chk.count_case(("tsan-generated", kind, "g1s1"), True, None)
            chk.count_case(("tsan-generated", kind, "g3s3"), True, None)
            if "data race" in e4 or "data race" in e5:
                replay["tsan_excerpt"] = (e4 if "data race" in e4 else e5)[:1500]
                chk.violation(
                    "memory-size-unlocked-read-race",
                    f"ThreadSanitizer reports a data race in the code w2c2 generates for a module with a {kind} memory when one "
                    f"thread executes memory.size (`si0={sz};`) while another executes memory.grow", replay, True)
        else:
            rc, o4, e4 = gs.run(gexe, [1, 50, 0], timeout=60)        # single thread: size follows the grows
            ent["sequential"] = o4
            chk.count_case(("generated-sequential", kind), True, None)
            if o4 != "pages 14":
                broken.append({"kind": "correspondence", "msg": f"generated code ({kind}): 13 grows of one page report `{o4}`"})
    chk.coverage["generated_code_memory_size"] = res
    return res


# ----------------------------------------------------------------------------- the check

def driver_lines(lines):
    return vlib.DriverProc(CONCDRIVER).batch(lines)


HANGS = []
_gs_run = gs.run


def _run_hang_aware(exe, args, env=None, timeout=60):
    """a run of the real code that does not finish is an ANSWER (deadlock / livelock of the code under test), not a tool failure"""
    import subprocess
    if any(h["harness"] == os.path.basename(exe) for h in HANGS):
        return "timeout", "", "TIMEOUT (not run again: this harness already hung once in this check)"
    try:
        return _gs_run(exe, args, env=env, timeout=timeout)
    except subprocess.TimeoutExpired as te:
        HANGS.append({"harness": os.path.basename(exe), "args": [str(a) for a in args], "timeout_s": timeout})
        out = te.stdout.decode("utf-8", "replace") if isinstance(te.stdout, bytes) else (te.stdout or "")
        err = te.stderr.decode("utf-8", "replace") if isinstance(te.stderr, bytes) else (te.stderr or "")
        return "timeout", out.strip(), err + "\nTIMEOUT after %ss" % timeout


gs.run = _run_hang_aware


def _hang_violations(chk):
    for h in HANGS[:4]:
        chk.violation("real-code-hangs:%s" % h["harness"],
                      "the real wasmMemoryGrow / wasmMemorySize code driven by `%s %s` did not finish within %ss (deadlock or livelock: "
                      "threads that only grow, query the size and access memory must terminate)" % (h["harness"], " ".join(h["args"]), h["timeout_s"]),
                      dict(h, kind="hang"), True)


def run(tier):
    del HANGS[:]
    try:
        return _run(tier)
    except Exception:
        if not HANGS:
            raise
        chk = vlib.Check(PROP, tier)
        chk.notes.append("the check was cut short by a hang of the code under test; only the hang is reported")
        _hang_violations(chk)
        return chk.finish()


def _run(tier):
    chk = vlib.Check(PROP, tier)
    chk.coverage["trusted_base"] = list(vlib.GLOBAL_TRUSTED) + [
        "pthread mutexes provide mutual exclusion and happens-before (POSIX); plain U32 reads/writes of descriptor "
        "fields are single indivisible steps of the model",
        "realloc returns a block that keeps min(old, new) bytes and is arbitrary beyond (C standard); modelled with a "
        "universally quantified tail, exercised with a 0xAA tail by tools/harness/grow_sched.c `content`",
        "tools/extract/gen_memfuncs.py flattens wasmMemoryGrow statement by statement (validated on every run: "
        "real function vs regenerated step list under identical schedules)",
        "tools/harness/grow_sched.c redirects pthread_mutex_lock/unlock by macro to a baton scheduler; the text of "
        "the header function is compiled unchanged"]
    chk.assumptions = ["one transition of the model = one C statement's shared access; compilers may merge the two "
                       "unlocked reads of `pages` (only makes the window smaller, the lost update persists)"]
    pr = prove(chk, MODULES, GENS)
    broken = []
    if not pr["build_ok"]:
        broken += pr["errors"]
    ok, out = vlib.lake_build(["concdriver"])
    if not ok:
        broken.append({"kind": "driver-build", "msg": out[-2000:]})
    have_driver = ok and pr["gen_ok"]

    status = {}
    if have_driver:
        st = driver_lines(["gstatus"])[0].split()
        status = dict(zip(st[0::2], st[1::2]))
        chk.coverage["model_status"] = status

    hist = {"sched_2thread": 0, "sched_multi": 0, "seq": 0, "with_size_query": 0, "partial_schedules": 0,
            "wrap_deltas": 0, "blocked_observed": 0, "lost_updates_observed": 0}
    with vlib.scratch("c18-") as d:
        repo = vlib.copy_repo(os.path.join(d, "repo"))
        inc = os.path.join(repo, "w2c2")
        try:
            exe = gs.build(inc, d)
        except Exception as e:
            broken.append({"kind": "harness-build", "msg": str(e)[-1500:]})
            exe = None

        # ---- (a) sched-trace: real header function vs model on the same schedules; property on the real outputs
        cases = sched_cases(chk.rng, tier)
        real_out = []
        if exe:
            for init, maxp, sh, sched, ops in cases:
                rc, out, err = gs.run(exe, ["sched", init, maxp, sh, sched] + op_args(ops))
                real_out.append(out if rc == 0 else f"exit {rc} {err[-200:]}")
        model_out = driver_lines([f"gsched gen {i} {m} {sh} {s} " + " ".join(op_args(ops))
                                  for i, m, sh, s, ops in cases]) if have_driver else None
        chk.coverage["rule"] = (
            "sched-trace: a case = (initial pages, max, schedule string over 3 segments per operation, operations "
            "g<delta>|s); all 20 interleavings of 2 operations for 9 parameter sets + seeded 3/4-operation schedules "
            "(some cut short); compared: every return value, final pages and size, blocked threads — real "
            "wasmMemoryGrow (gcc) vs Model.Grow on Gen.growSteps; and the real outputs against a brute-force "
            "linearizability oracle.  seq: consecutive grows incl. deltas that wrap U32, shared and non-shared.")
        first_nonlin = None
        for idx, (init, maxp, sh, sched, ops) in enumerate(cases):
            key = (init, maxp, sched, tuple(ops))
            sample = None
            if idx % max(1, len(cases) // 8) == 0:
                sample = {"case": f"sched {init} {maxp} {sh} {sched} {' '.join(op_args(ops))}",
                          "real": real_out[idx] if real_out else None, "model": model_out[idx] if model_out else None}
            chk.count_case(key, True, sample)
            hist["sched_2thread" if len(ops) == 2 else "sched_multi"] += 1
            if any(k == "s" for k, _ in ops):
                hist["with_size_query"] += 1
            if len(sched) < 3 * len(ops):
                hist["partial_schedules"] += 1
            if any(dl > 0x7fffffff for _, dl in ops):
                hist["wrap_deltas"] += 1
            if real_out and model_out and real_out[idx] != model_out[idx]:
                broken.append({"kind": "correspondence",
                               "msg": f"sched-trace `{sample['case'] if sample else key}`: real `{real_out[idx]}` model `{model_out[idx]}`"})
            if real_out and real_out[idx].startswith("ret"):
                r = gs.parse_result(real_out[idx])
                if r["blocked"]:
                    hist["blocked_observed"] += 1
                if r.get("held") is not None and not any(v["key"] == "grow-returns-with-mutex-locked" for v in chk.violations):
                    t = r["held"]
                    chk.violation(
                        "grow-returns-with-mutex-locked",
                        f"shared memory ({init} pages, max {maxp}), schedule {sched}: operation {t} ({op_args(ops)[t]}) has RETURNED "
                        f"(value {r['rets'][t]}) but the memory's mutex is still locked by it"
                        + (f"; operation(s) {r['blocked']} are blocked on it forever" if r["blocked"] else "")
                        + f" (real header: `{real_out[idx]}`)",
                        {"harness": "tools/harness/grow_sched.c", "args": ["sched", init, maxp, sh, sched] + op_args(ops),
                         "observed": real_out[idx],
                         "model": "lock discipline: ReadsUnderLock Gen.growSteps (a `ret` while the mutex is held)",
                         "replay_cmd": "python3 tools/check.py C18 --replay <this file>"}, True)
                    continue
                wrap_only = any(k == "g" and init + dl >= (1 << 32) for k, dl in ops)
                if not linearizable(init, maxp, ops, r["rets"], r["pages"], sched):
                    if wrap_only:
                        continue        # reported by the sequential part under its own key
                    hist["lost_updates_observed"] += 1
                    if first_nonlin is None or len(ops) < len(first_nonlin[4]):
                        first_nonlin = (init, maxp, sh, sched, ops, real_out[idx])
        if first_nonlin:
            init, maxp, sh, sched, ops, out = first_nonlin
            # the canonical witness of DESIGN §6 #14, if it reproduces, is the replay
            rc, cout, _ = gs.run(exe, ["sched", 1, 10, 1, "011100", "g1", "g1"])
            if rc == 0 and not linearizable(1, 10, [("g", 1), ("g", 1)], gs.parse_result(cout)["rets"],
                                            gs.parse_result(cout)["pages"], "011100"):
                init, maxp, sh, sched, ops, out = 1, 10, 1, "011100", [("g", 1), ("g", 1)], cout
            chk.violation(
                "grow-reads-before-lock",
                "concurrent memory.grow on a shared memory loses an update: wasmMemoryGrow reads memory->pages (oldPages, "
                "newPages) before WASM_MUTEX_LOCK; under the schedule below two grows return the same old size and the "
                f"final size misses one delta (real w2c2_base.h: `{out}`); no sequential order explains the results",
                {"harness": "tools/harness/grow_sched.c", "args": ["sched", init, maxp, sh, sched] + op_args(ops),
                 "observed": out, "model": "Props/C18.lean grow_lost_update_counterexample (Gen.growSteps)",
                 "model_status": status,
                 "replay_cmd": "python3 tools/check.py C18 --replay <this file>"}, True)

        # ---- (a2) grower ∥ observer histories (a store into a page memory.size has made visible must survive)
        if exe:
            observer_part(chk, exe, have_driver, tier, broken, hist)

        # ---- (b) sequential grows, incl. wrap-around
        scases = seq_cases(chk.rng, tier)
        sreal = []
        if exe:
            for init, maxp, sh, ds in scases:
                rc, out, err = gs.run(exe, ["seq", init, maxp, sh] + ds)
                sreal.append(out if rc == 0 else f"exit {rc}")
        smodel = driver_lines([f"gseq gen {i} {m} {sh} " + " ".join(map(str, ds)) for i, m, sh, ds in scases]) \
            if have_driver else None
        wrap_witness = None
        leak_witness = None
        for idx, (init, maxp, sh, ds) in enumerate(scases):
            chk.count_case(("seq", init, maxp, sh, tuple(ds)), True, None)
            hist["seq"] += 1
            if any(dl != "s" and dl > 0x7fffffff for dl in ds):
                hist["wrap_deltas"] += 1
            if sreal and smodel and sreal[idx] != smodel[idx]:
                broken.append({"kind": "correspondence", "msg": f"seq {init} {maxp} {sh} {ds}: real `{sreal[idx]}` model `{smodel[idx]}`"})
            if sreal and sreal[idx].startswith("ret"):
                w = sreal[idx].split()
                if w[-1] == "blocked-forever":
                    hist["blocked_observed"] += 1
                    done = len(w) - 2
                    if leak_witness is None or len(ds) < len(leak_witness[3]):
                        leak_witness = (init, maxp, sh, ds, sreal[idx], done)
                    w = w[:-1] + ["pages", "0"]
                rets = [int(x) for x in w[1:w.index("pages")]]
                p = init
                for dl, r in zip(ds, rets):
                    dl = 0 if dl == "s" else dl
                    er, p2 = spec_grow(p, dl, maxp)
                    if r != er and wrap_witness is None:
                        wrap_witness = (init, maxp, sh, ds, sreal[idx], dl, r, er, p)
                    p = p2
        if leak_witness:
            init, maxp, sh, ds, out, done = leak_witness
            chk.violation(
                "grow-returns-with-mutex-locked",
                f"on a shared memory ({init} pages, max {maxp}) the operations {ds[:done + 1]} of ONE thread: operation #{done + 1} "
                f"({'memory.size' if ds[done] == 's' else 'memory.grow(%s)' % ds[done]}) blocks forever on the memory's mutex — an "
                f"earlier operation returned without unlocking it (real header: `{out}`); every later grow/size of any thread hangs",
                {"harness": "tools/harness/grow_sched.c", "args": ["seq", init, maxp, sh] + ds, "observed": out,
                 "model": "lock discipline: ReadsUnderLock Gen.growSteps (a `ret` while the mutex is held)",
                 "replay_cmd": "python3 tools/check.py C18 --replay <this file>"}, True)
        if wrap_witness:
            init, maxp, sh, ds, out, dl, r, er, p = wrap_witness
            rc, cout, _ = gs.run(exe, ["seq", 1, 10, 1, 4294967295])
            key = "grow-wrap-to-zero-returns-0" if (dl + p) % (1 << 32) == 0 and r == 0 else "grow-seq-vs-spec"
            chk.violation(
                key,
                f"memory.grow({dl}) on a memory of {p} pages (max {maxp}) returns {r}; the specification requires {er} "
                "(newPages = pages + delta wraps to exactly 0 and the `newPages == 0` early return precedes the wrap check "
                "`newPages < oldPages`) — the caller is told the grow succeeded from size 0",
                {"harness": "tools/harness/grow_sched.c", "args": ["seq", init, maxp, sh] + ds, "observed": out,
                 "canonical": {"args": ["seq", 1, 10, 1, 4294967295], "observed": cout, "expected_ret": FAIL},
                 "model": "Props/C18.lean grow_wrap_zero_counterexample",
                 "replay_cmd": "python3 tools/check.py C18 --replay <this file>"}, True)

        # ---- (b2) contents: grown pages read as zero, old bytes intact (realloc with a dirty tail)
        if exe:
            run_grow_content(chk, repo, d, tier, broken, exe=exe)

        # ---- (c) wasmMemoryAllocate: size of a shared memory with the legal maximum 65536.
        # The property quantifies over modules, so it is decided THROUGH the translator: translate
        # `(memory 1 65536 shared)` with the real w2c2 and read the maximum the generated instantiation code
        # passes to the allocator; the header function alone (an embedder calling it with 65536) is a model note.
        if exe:
            rc, out, _ = gs.run(exe, ["alloc", 1, 65536, 1])
            mout = status.get("allocsize")
            chk.count_case(("alloc", 1, 65536, 1), True, {"case": "alloc 1 65536 1", "real": out, "model": mout})
            m = re.match(r"size (\d+) pages (\d+) max (\d+)", out)
            if m and mout is not None and m.group(1) != mout:
                broken.append({"kind": "correspondence", "msg": f"alloc 1 65536 1: real size {m.group(1)} model {mout}"})
            header_wraps = bool(m) and int(m.group(1)) != 65536 * 65536
            via = translator_max(repo, d)
            chk.coverage["alloc_65536"] = {"header_function_size": out, "through_w2c2": via}
            for mx_decl, (text, mx_passed) in via.items():
                if mx_passed is None:
                    continue
                rc3, out3, _ = gs.run(exe, ["alloc", 1, mx_passed, 1])
                m3 = re.match(r"size (\d+)", out3)
                chk.count_case(("alloc-via-w2c2", mx_decl), True, None)
                if m3 and int(m3.group(1)) != mx_passed * 65536:
                    asan_note = ""
                    try:
                        aexe = gs.build(inc, d, "grow_asan", ["-fsanitize=address"])
                        rc2, o2, e2 = gs.run(aexe, ["touch", 1, mx_passed, 1, 4096], env={"ASAN_OPTIONS": "detect_leaks=0"})
                        mm = re.search(r"ERROR: AddressSanitizer: (\S+)", e2)
                        asan_note = mm.group(1) if mm else f"exit {rc2}"
                    except Exception as e:
                        asan_note = "asan build failed: " + str(e)[-100:]
                    chk.violation(
                        "alloc-size-wraps-at-65536-pages",
                        f"module `(memory 1 {mx_decl} shared)`: the generated code calls `{text}`; wasmMemoryAllocate computes "
                        f"`U32 size = maxPages * 65536` = {m3.group(1)}: the shared memory is allocated with {m3.group(1)} bytes; "
                        f"a store at byte 4096 is out of the object (ASan: {asan_note})",
                        {"harness": "tools/harness/grow_sched.c", "args": ["alloc", 1, mx_passed, 1], "observed": out3,
                         "module": MEMORY_MODULE(mx_decl).hex(), "generated_call": text,
                         "model": "Props/C18.lean alloc_size_wraps_counterexample",
                         "replay_cmd": "python3 tools/check.py C18 --replay <this file>"}, True)
            if header_wraps:
                chk.notes.append("model note (not a violation: unreachable through the translator when the maxima above are "
                                 "< 65536): wasmMemoryAllocate(…, 65536, shared) itself still computes a U32 size of 0 "
                                 "(alloc_size_wraps_counterexample); an embedder calling it directly must not pass 65536")

        # ---- (d) memory.size: the generated code must call the locked header function; ThreadSanitizer, free-running,
        #          growers and size readers on the real header functions (regression of fixed: ee826ee / 07872f3)
        if exe:
            gen = generated_size_part(chk, repo, d, inc, tier, broken)
            # watchdog, REAL threads and mutex: a failing (wrapping / too large) grow, then another thread uses the memory
            try:
                fexe_free = gs.build(inc, d, "grow_free", ["-DGROW_FREE_RUNNING"])
                wd = {}
                for a_init, a_max, a_delta in [(1, 10, 4294967295), (2, 4, 4294967294), (1, 2, 5), (1, 10, 0), (1, 10, 2)]:
                    args = ["after", a_init, a_max, a_delta]
                    chk.count_case(("after",) + tuple(args[1:]), True, None)
                    try:
                        rc, o, e = gs.run(fexe_free, args, timeout=10)
                        wd[" ".join(map(str, args))] = o
                    except Exception:
                        wd[" ".join(map(str, args))] = "TIMEOUT"
                        chk.violation(
                            "grow-returns-with-mutex-locked",
                            f"shared memory ({a_init} pages, max {a_max}): after memory.grow({a_delta}) returned, a second thread "
                            "executing memory.size / memory.grow(1) is blocked forever on the memory's mutex (free-running real "
                            "threads, watchdog 10 s)",
                            {"harness": "tools/harness/grow_sched.c (-DGROW_FREE_RUNNING)", "args": args,
                             "replay_cmd": "python3 tools/check.py C18 --replay <this file>"}, True)
                chk.coverage["watchdog_after_failed_grow"] = wd
            except Exception as e:
                chk.coverage["watchdog_after_failed_grow"] = "not run: " + str(e)[-200:]
            try:
                texe = gs.build(inc, d, "grow_tsan", ["-fsanitize=thread", "-DGROW_FREE_RUNNING"])
                iters = 3000 if tier == "quick" else 60000
                rc, o1, e1 = gs.run(texe, ["stress", 3, iters, 0], timeout=300)
                rc, o2, e2 = gs.run(texe, ["stress", 1, iters, 1], timeout=300)   # ONE grower: any race involves the size reader
                rc, o3, e3 = gs.run(texe, ["stress", 3, iters, 3], timeout=300)
                # growers vs plain loads/stores of other threads on a page that existed from the start (they read `data`
                # without the lock), and vs stores into the newest page memory.size reports
                rc, o6, e6 = gs.run(texe, ["stress", 3, iters, 0, 2, 0], timeout=300)
                rc, o7, e7 = gs.run(texe, ["stress", 2, iters, 0, 0, 2], timeout=300)
                acc = {"growers_vs_old_page_accessors_race": "data race" in e6, "old_result": o6,
                       "growers_vs_new_page_stores_race": "data race" in e7, "new_result": o7}
                chk.coverage["tsan_accessors"] = acc
                chk.count_case(("tsan", "g3a2"), True, None)
                chk.count_case(("tsan", "g2n2"), True, None)
                if "data race" in e6:
                    lines6 = sorted(set(re.findall(r"(\w+) \S*w2c2_base\.h:(\d+)", e6)))[:6]
                    chk.violation(
                        "grow-writes-data-of-shared-memory",
                        "ThreadSanitizer: wasmMemoryGrow on a SHARED memory writes a descriptor field that the loads/stores of "
                        f"other threads read without the lock ({lines6}): the thread program `3 threads: 3000× memory.grow(1)` ∥ "
                        "`2 threads: i32.store8 / i32.load8_u on page 0` has a data race on `wasmMemory.data` (model obligation: "
                        "grow_shared_never_writes_data)",
                        {"harness": "tools/harness/grow_sched.c (-fsanitize=thread -DGROW_FREE_RUNNING)",
                         "args": ["stress", 3, iters, 0, 2, 0],
                         "thread_program": {"growers": "3 × loop { memory.grow(1) }", "accessors": "2 × loop { i32.store8 p0; i32.load8_u p0 }"},
                         "tsan_excerpt": e6[:1800], "replay_cmd": "python3 tools/check.py C18 --replay <this file>"}, True)
                if "data race" in e7 and "memset" not in e7 and "data race" not in e6:
                    chk.violation(
                        "grow-writes-data-of-shared-memory",
                        "ThreadSanitizer: data race between wasmMemoryGrow and the i32.store8 of another thread into the newest "
                        "visible page of a shared memory (no memset involved: a descriptor field read by the store is written by grow)",
                        {"harness": "tools/harness/grow_sched.c (-fsanitize=thread -DGROW_FREE_RUNNING)",
                         "args": ["stress", 2, iters, 0, 0, 2], "tsan_excerpt": e7[:1800],
                         "replay_cmd": "python3 tools/check.py C18 --replay <this file>"}, True)
                if "data race" in e7 and "memset" in e7:
                    chk.violation(
                        "grow-zero-fill-after-publishing-size",
                        "ThreadSanitizer: a store of another thread into the newest page reported by memory.size races with a "
                        "memset inside wasmMemoryGrow (zero-fill outside the critical section)",
                        {"harness": "tools/harness/grow_sched.c (-fsanitize=thread -DGROW_FREE_RUNNING)",
                         "args": ["stress", 2, iters, 0, 0, 2], "tsan_excerpt": e7[:1800],
                         "replay_cmd": "python3 tools/check.py C18 --replay <this file>"}, True)
                races1 = sorted(set(re.findall(r"w2c2_base\.h:(\d+)", e1))) if "data race" in e1 else []
                size_race = "data race" in e2
                chk.coverage["tsan"] = {"grow_only_race": "data race" in e1, "grow_only_race_lines": races1[:6],
                                        "grow_only_result": o1, "one_grower_one_size_reader_race": size_race,
                                        "one_grower_one_size_reader_result": o2,
                                        "growers_and_size_readers_race": "data race" in e3,
                                        "growers_and_size_readers_result": o3}
                for k in ("g3", "g1s1", "g3s3"):
                    chk.count_case(("tsan", k), True, None)
                if size_race:
                    chk.violation(
                        "memory-size-unlocked-read-race",
                        "ThreadSanitizer reports a data race between wasmMemorySize (memory.size) and wasmMemoryGrow on a shared "
                        "memory: `pages` is read without the memory's mutex while grow writes it",
                        {"harness": "tools/harness/grow_sched.c (-fsanitize=thread -DGROW_FREE_RUNNING)",
                         "args": ["stress", 1, iters, 1], "tsan_excerpt": e2[:1500],
                         "replay_cmd": "python3 tools/check.py C18 --replay <this file>"}, True)
                elif "data race" in e1 or "data race" in e3:
                    chk.violation(
                        "grow-descriptor-data-race",
                        "ThreadSanitizer reports a data race on the descriptor of a shared memory between concurrent "
                        f"wasmMemoryGrow calls (w2c2_base.h lines {races1[:6]})",
                        {"harness": "tools/harness/grow_sched.c (-fsanitize=thread -DGROW_FREE_RUNNING)",
                         "args": ["stress", 3, iters, 0], "tsan_excerpt": (e1 if "data race" in e1 else e3)[:1500],
                         "replay_cmd": "python3 tools/check.py C18 --replay <this file>"}, True)
            except Exception as e:
                chk.coverage["tsan"] = "not run: " + str(e)[-200:]

        # ---- (e) the proposed repair: fixture consistency + schedules on the patched real header
        if exe and have_driver:
            fix = os.path.join(d, "fix")
            os.makedirs(fix)
            for f in os.listdir(inc):
                if f.endswith(".h"):
                    vlib.run(["cp", os.path.join(inc, f), os.path.join(fix, f)], check=True)
            try:
                gs.patch_header(os.path.join(inc, "w2c2_base.h"), os.path.join(fix, "w2c2_base.h"))
                _, steps = gen_memfuncs.grow_steps_of_header(os.path.join(fix, "w2c2_base.h"))
                lean_steps = driver_lines(["gsteps repaired"])[0].split("; ")
                if [s.strip() for s in steps] != [s.strip() for s in lean_steps]:
                    raise RuntimeError("Model.Grow.repairedSteps is not what gen_memfuncs produces from REPAIRED_GROW")
                fexe = gs.build(fix, d, "grow_fixed")
                nfix = 0
                bad = 0
                fcases = [c for c in cases if len(c[4]) == 2][:200] + cases[-40:]
                fmodel = driver_lines([f"gsched repaired {i} {m} {sh} {s} " + " ".join(op_args(ops))
                                       for i, m, sh, s, ops in fcases])
                for (init, maxp, sh, sched, ops), mo in zip(fcases, fmodel):
                    rc, out, _ = gs.run(fexe, ["sched", init, maxp, sh, sched] + op_args(ops))
                    nfix += 1
                    r = gs.parse_result(out)
                    if out != mo or not linearizable(init, maxp, ops, r["rets"], r["pages"], sched):
                        bad += 1
                chk.coverage["repaired_header"] = {"schedules": nfix, "non_linearizable_or_model_mismatch": bad,
                                                   "steps_match_fixture": True}
                if bad:
                    chk.notes.append("proposed repair misbehaves on the real compiler output — do not apply it")
            except gen_memfuncs.ExtractFail as e:
                chk.coverage["repaired_header"] = "not checked: " + str(e)[:200]

        # ---- (f) regressions: the reproducers of the two repaired defects (fixed: 56ef891 / 07872f3)
        if exe:
            reg = {}
            rc, o, _ = gs.run(exe, ["sched", 1, 10, 1, "011100", "g1", "g1"])
            r = gs.parse_result(o)
            reg["sched 1 10 1 011100 g1 g1"] = o
            if not linearizable(1, 10, [("g", 1), ("g", 1)], r["rets"], r["pages"], "011100") \
                    and not any(v["key"] == "grow-reads-before-lock" for v in chk.violations):
                chk.violation("grow-reads-before-lock", f"regression: lost update is back (`{o}`)",
                              {"harness": "tools/harness/grow_sched.c", "args": ["sched", 1, 10, 1, "011100", "g1", "g1"],
                               "observed": o}, True)
            rc, o, _ = gs.run(exe, ["seq", 1, 10, 1, 4294967295])
            reg["seq 1 10 1 4294967295"] = o
            if not o.startswith("ret 4294967295 ") and not any(v["key"].startswith("grow-wrap") for v in chk.violations):
                chk.violation("grow-wrap-to-zero-returns-0", f"regression: grow(0xFFFFFFFF) on 1 page returns `{o}`",
                              {"harness": "tools/harness/grow_sched.c", "args": ["seq", 1, 10, 1, 4294967295], "observed": o}, True)
            chk.coverage["regressions"] = reg

    chk.coverage.update({"hist_" + k: v for k, v in hist.items()})
    chk.coverage["traces_validated_against_impl"] = len(real_out) + len(sreal)
    # model verdict vs what the real code showed
    if status:
        if status.get("rulsize") == "0" and not any(v["key"] == "memory-size-unlocked-read-race" for v in chk.violations):
            broken.append({"kind": "verdict", "msg": "regenerated wasmMemorySize fails the lock-discipline check "
                           "(ReadsUnderLock Gen.sizeSteps = false) but neither the emitted code nor TSan showed an unlocked read"})
        if status.get("rul") == "0" and not any(v["key"] == "grow-reads-before-lock" for v in chk.violations) \
                and not any(k == "grow-reads-before-lock" for k, _ in chk.known_hit):
            broken.append({"kind": "verdict", "msg": "regenerated wasmMemoryGrow fails the lock-discipline check "
                           "(ReadsUnderLock Gen.growSteps = false) but no schedule exhibited a non-linearizable result"})
    if tier == "thorough" and pr["build_ok"]:
        for m, msg in leanchecker(chk, MODULES):
            broken.append({"kind": "leanchecker", "msg": f"{m}: {msg}"})
    if broken and not chk.violations and not chk.known_hit:
        chk.violation("tie-or-proof-broken",
                      "a proof obligation or the sched-trace correspondence no longer checks; the schedule search found no "
                      "non-linearizable result on the real header", {"broken": broken[:20]}, False)
    elif broken:
        chk.notes.append({"broken": broken[:10]})
    _hang_violations(chk)
    return chk.finish()


def replay(path):
    r = json.load(open(path))
    with vlib.scratch("c18r-") as d:
        repo = vlib.copy_repo(os.path.join(d, "repo"))
        inc = os.path.join(repo, "w2c2")
        key = r.get("key")
        if r.get("kind") == "hang":
            if r["harness"].startswith("gen_"):
                gexe, _ = gs.build_generated(get_w2c2(repo, d), inc, os.path.join(d, "genmod"), shared=True, imported=False)
                exe = gexe
            elif "tsan" in r["harness"]:
                exe = gs.build(inc, d, "grow_tsan", ["-fsanitize=thread", "-DGROW_FREE_RUNNING"])
            elif "free" in r["harness"]:
                exe = gs.build(inc, d, "grow_free", ["-DGROW_FREE_RUNNING"])
            else:
                exe = gs.build(inc, d)
            rc, out, err = gs.run(exe, r["args"], timeout=r.get("timeout_s", 300))
            print("replay %s %s: %s" % (r["harness"], " ".join(r["args"]), "does not finish within %ss" % r.get("timeout_s", 300) if rc == "timeout" else "finishes (rc %s)" % rc))
            return 1 if rc == "timeout" else 0
        if key in ("memory-size-unlocked-read-race", "grow-descriptor-data-race", "grow-writes-data-of-shared-memory") \
                or (key == "grow-zero-fill-after-publishing-size" and r.get("args", [""])[0] == "stress"):
            bad = False
            if "module" in r:
                import opmods
                kind = r.get("memory_kind", "defined-shared")
                shared, imported = [(sh, im) for k, sh, im in gs.MEMORY_KINDS if k == kind][0]
                gexe, gtext = gs.build_generated(get_w2c2(repo, d), inc, os.path.join(d, "genmod"),
                                                 shared=shared, imported=imported)
                em = gs.emitted_statements(gtext)
                print(f"w2c2 emits for memory.size on a {kind} memory: si0={em.get('memory.size')};")
                bad = not (em.get("memory.size") or "").startswith("wasmMemorySize(")
                rc, out, err = gs.run(gexe, [1, 3000, 1], timeout=300)
                print(f"TSan on the generated code: {'data race' if 'data race' in err else 'no race'}")
                return 1 if (bad or "data race" in err) else 0
            exe = gs.build(inc, d, "grow_tsan", ["-fsanitize=thread", "-DGROW_FREE_RUNNING"])
            rc, out, err = gs.run(exe, r["args"], timeout=300)
            race = "data race" in err
            print(f"replay {r['args']}: TSan {'reports' if race else 'does not report'} a data race on the descriptor")
            return 1 if (bad or race) else 0
        exe = gs.build(inc, d)
        args = r["args"]
        rc, out, err = gs.run(exe, args)
        print(f"replay grow_sched {' '.join(map(str, args))}: `{out}`")
        if args[0] == "sched":
            ops = [(a[0], int(a[1:])) if a[0] in "go" else ("s", 0) for a in args[5:]]
            res = gs.parse_result(out)
            lostm = [t for t, ((k, _), v) in enumerate(zip(ops, res["rets"])) if k == "o" and v not in (None, 0, 0x15a)]
            if lostm:
                print(f"observer {lostm}: the marker stored into a visible page was erased (read back {res['rets'][lostm[0]] - 0x100:#x})")
                return 1
            if any(k == "o" for k, _ in ops):
                print("observer: marker intact / not grown yet")
                res["rets"] = [None if k == "o" else v for (k, _), v in zip(ops, res["rets"])]   # only the grows are judged below
                ops = [("s", 0) if k == "o" else (k, v) for k, v in ops]
            if res["held"] is not None:
                print(f"operation {res['held']} returned with the memory's mutex locked; blocked forever: {res['blocked']}")
                return 1
            good = linearizable(int(args[1]), int(args[2]), ops, res["rets"], res["pages"], args[4])
            print("linearizable" if good else "NOT linearizable: no sequential order explains these results")
            return 0 if good else 1
        if args[0] == "after":
            texe = gs.build(inc, d, "grow_free", ["-DGROW_FREE_RUNNING"])
            try:
                rc, out, err = gs.run(texe, args, timeout=10)
                print(f"free-running: `{out}`")
                return 0
            except Exception:
                print("free-running: the second thread is blocked forever on the memory's mutex (watchdog 10 s)")
                return 1
        if args[0] == "seq":
            w = out.split()
            if w[-1] == "blocked-forever":
                print("an operation blocks forever: an earlier one returned without unlocking the memory's mutex")
                return 1
            rets = [int(x) for x in w[1:w.index("pages")]]
            p = int(args[1])
            for dl, rv in zip([0 if x == "s" else int(x) for x in args[4:]], rets):
                er, p2 = spec_grow(p, dl, int(args[2]))
                if rv != er:
                    print(f"grow({dl}) at {p} pages returned {rv}, specification {er}")
                    return 1
                p = p2
            return 0
        if args[0] == "content":
            bad = False
            if rc != 0:
                print(f"the real code crashed (exit {rc}) while the old contents were read back after `{(out.split() or ['?'])[-1]}`")
                return 1
            for ent in out.split():
                f = dict(kv.split("=") for kv in ent.split(","))
                if f.get("d") == "0":
                    print(f"  {ent}: a failed grow replaced memory->data")
                    bad = True
                if int(f["z"]) != 0 or f["o"] != "1":
                    print(f"  {ent}: {f['z']} non-zero bytes in the new pages (first at {f['f']}), old bytes intact: {f['o']}")
                    bad = True
            print("grown memory reads as zero" if not bad else "grown memory does NOT read as zero")
            return 1 if bad else 0
        if args[0] == "alloc":
            m = re.match(r"size (\d+)", out)
            return 1 if m and int(m.group(1)) != int(args[2]) * 65536 else 0
    return 0
