"""C13 — WASI descriptors: unique while open, EBADF after close, host memory stays safe.

Obligations: theorems of Props/C13.lean over Model.Wasi (descriptor table + heap liveness, the
prologue of every descriptor-taking import of both ABIs; structural facts and tables
regenerated into Gen/Wasi.lean).
Tie: regeneration + `wasi-ops`: the REAL wasi.c (ASan+UBSan build from the scratch copy) and the
Lean model (wasidriver) execute the same generated histories; results are diffed line by
line, a model `.ub k` must coincide with a sanitizer abort of the same kind at the same call.
Property on the real code: every call on a closed / never issued descriptor must return EBADF
(8) and never die in the sanitizer; no call on a live descriptor may die either.
On break: the failing history is shrunk (delta debugging on the real code) and becomes the replay.
"""
import json
import os

import vlib
import wasi_ops as wo
from common import prove, leanchecker
from vlib import log

PROP = "C13"
MODULES = ["W2c2Verif.Props.C13"]
GENS = [("Wasi", "gen_wasi")]
WASIDRIVER = os.path.join(vlib.LEAN, ".lake", "build", "bin", "wasidriver")

CALLS = [c for c in wo.FD_ARGS]
ABIS = ["p1", "un"]
NEVER = [5, 6, 1000, 1 << 31, wo.U32MAX]


# ----------------------------------------------------------------------------- generators

def new_hist():
    h = wo.Hist()
    wo.std_setup(h)
    return h


def systematic(rng):
    """the dangerous orders, for every call × both ABIs"""
    out = []
    for abi in ABIS:
        for call in CALLS:
            # a. open, close, use
            h = new_hist(); h.open(abi, 3, "a", wo.O_CREAT); h.call(abi, "fd_close", 4); h.generic(abi, call, 4)
            out.append(("closed-opened", h))
            # a'. open a directory, list it (DIR* opened), close, use
            h = new_hist(); h.open(abi, 3, "d0", wo.O_DIRECTORY, wo.R_READ); h.generic(abi, "fd_readdir", 4)
            h.call(abi, "fd_close", 4); h.generic(abi, call, 4)
            out.append(("closed-dir", h))
            # b. live stdio descriptors in every role
            for n in (0, 1, 2):
                h = new_hist(); h.generic(abi, call, n)
                out.append(("live-stdio", h))
            # c. closed stdio
            for n in (0, 2):
                h = new_hist(); h.call(abi, "fd_close", n); h.generic(abi, call, n)
                out.append(("closed-stdio", h))
            # d. numbers never issued
            for n in [4] + NEVER:
                h = new_hist(); h.generic(abi, call, n)
                out.append(("never-issued", h))
            # e. closed pre-opened directory (also after it has been listed)
            h = new_hist(); h.call(abi, "fd_close", 3); h.generic(abi, call, 3)
            out.append(("closed-preopen", h))
            h = new_hist(); h.generic(abi, "fd_readdir", 3); h.call(abi, "fd_close", 3); h.generic(abi, call, 3)
            out.append(("closed-preopen-listed", h))
            # f. live descriptors (the call must not die)
            h = new_hist(); h.generic(abi, call, 3)
            out.append(("live-preopen", h))
            h = new_hist(); h.open(abi, 3, "f0"); h.generic(abi, call, 4)
            out.append(("live-file", h))
            h = new_hist(); h.open(abi, 3, "d0", wo.O_DIRECTORY, wo.R_READ); h.generic(abi, call, 4)
            out.append(("live-dir", h))
            # g. the second descriptor of path_rename
            if call == "path_rename":
                h = new_hist(); h.open(abi, 3, "a", wo.O_CREAT); h.call(abi, "fd_close", 4); h.generic(abi, call, 3, fd2=4)
                out.append(("closed-opened-2nd", h))
                h = new_hist(); h.generic(abi, call, 3, fd2=0)
                out.append(("live-stdio-2nd", h))
        # fd_seek with every whence value on each descriptor class
        for wh in range(0, 5):
            for n, pre in ((4, None), (0, None), (0, 0), (1000, None), (3, None)):
                h = new_hist()
                if pre is not None:
                    h.call(abi, "fd_close", pre)
                h.call(abi, "fd_seek", n, 0, wh, h.res())
                out.append(("seek-whence", h))
        # repeated close
        for n in (0, 1, 2, 3):
            h = new_hist(); h.call(abi, "fd_close", n); h.call(abi, "fd_close", n); h.call(abi, "fd_close", n)
            out.append(("close-twice", h))
        h = new_hist(); h.open(abi, 3, "a", wo.O_CREAT); h.call(abi, "fd_close", 4); h.call(abi, "fd_close", 4)
        out.append(("close-twice", h))
        # uniqueness: many opens, closes in between never make a number come back
        h = new_hist()
        for k in range(6):
            h.open(abi, 3, "f0");
            if k % 2 == 0:
                h.call(abi, "fd_close", 4 + k)
        for k in range(6):
            h.generic(abi, "fd_tell", 4 + k)
        out.append(("unique", h))
        # directory descriptors obtained by path_open: the first fd_readdir opens the DIR stream; afterwards
        # the descriptor (and every other one) must still denote what it denoted
        DIRUSE = ["fd_fdstat_get", "fd_filestat_get", "fd_readdir", "fd_read", "fd_seek", "fd_tell", "fd_prestat_get",
                  "fd_sync", "path_open", "path_filestat_get"]
        FILEUSE = ["fd_read", "fd_tell", "fd_fdstat_get", "fd_filestat_get", "fd_write", "fd_seek"]
        for x in DIRUSE:
            h = new_hist(); h.open(abi, 3, "d0", wo.O_DIRECTORY, wo.R_READ); h.generic(abi, "fd_readdir", 4); h.generic(abi, x, 4)
            out.append(("dir-listed", h))
        for first in ("dir", "file"):
            for x in DIRUSE:
                for y in FILEUSE:
                    h = new_hist()
                    if first == "dir":
                        h.open(abi, 3, "d0", wo.O_DIRECTORY, wo.R_READ); dn, fn = 4, 5
                        h.generic(abi, "fd_readdir", dn)
                        h.open(abi, 3, "f0")
                    else:
                        h.open(abi, 3, "f0"); h.open(abi, 3, "d0", wo.O_DIRECTORY, wo.R_READ); dn, fn = 5, 4
                        h.generic(abi, y, fn)
                        h.generic(abi, "fd_readdir", dn)
                        h.open(abi, 3, "d0/g"); 
                    h.generic(abi, y, fn); h.generic(abi, x, dn); h.generic(abi, y, fn)
                    h.generic(abi, "fd_readdir", dn)
                    h.call(abi, "fd_close", fn)
                    h.generic(abi, x, dn); h.generic(abi, "fd_readdir", dn)
                    h.open(abi, 3, "f0"); h.generic(abi, x, dn)
                    h.call(abi, "fd_close", dn); h.generic(abi, x, dn); h.generic(abi, y, fn)
                    out.append(("dir-interleaved", h))
        # two listed directories and files opened in between
        h = new_hist()
        h.open(abi, 3, "d0", wo.O_DIRECTORY, wo.R_READ); h.generic(abi, "fd_readdir", 4)
        h.open(abi, 3, "d0", wo.O_DIRECTORY, wo.R_READ); h.open(abi, 3, "f0"); h.generic(abi, "fd_readdir", 5)
        h.open(abi, 3, "d0/g")
        for n in (4, 5, 6, 7):
            h.generic(abi, "fd_fdstat_get", n); h.generic(abi, "fd_filestat_get", n); h.generic(abi, "fd_read", n)
        out.append(("dir-interleaved", h))
        # fd_readdir after the directory was renamed / removed (before and after the first listing)
        for when in ("before", "after"):
            for how in ("path_remove_directory", "path_rename"):
                h = new_hist(); h.raw("mkdir sb/d1")
                h.open(abi, 3, "d1", wo.O_DIRECTORY, wo.R_READ)
                if when == "after":
                    h.generic(abi, "fd_readdir", 4)
                p, l = h.path("d1")
                if how == "path_rename":
                    q, m = h.path("d2"); h.call(abi, "path_rename", 3, p, l, 3, q, m)
                else:
                    h.call(abi, "path_remove_directory", 3, p, l)
                h.generic(abi, "fd_readdir", 4); h.generic(abi, "fd_fdstat_get", 4); h.generic(abi, "fd_filestat_get", 4)
                h.open(abi, 3, "f0"); h.generic(abi, "fd_read", 5); h.generic(abi, "fd_readdir", 4)
                h.call(abi, "fd_close", 4); h.generic(abi, "fd_read", 5)
                out.append(("dir-moved", h))
        # absolute guest paths in every path_* call: the directory descriptor must be validated all the same
        for call in wo.PATH_CALLS:
            for ap in wo.abs_paths_for(call):
                for cls in ("closed-opened", "closed-stdio", "never-issued", "never-issued-max", "live-stdio", "live-preopen", "live-file"):
                    h = new_hist()
                    if cls == "closed-opened":
                        h.open(abi, 3, "a", wo.O_CREAT); h.call(abi, "fd_close", 4); n = 4
                    elif cls == "closed-stdio":
                        h.call(abi, "fd_close", 0); n = 0
                    elif cls == "never-issued":
                        n = 77
                    elif cls == "never-issued-max":
                        n = wo.U32MAX
                    elif cls == "live-stdio":
                        n = 1
                    elif cls == "live-preopen":
                        n = 3
                    else:
                        h.open(abi, 3, "f0"); n = 4
                    h.generic(abi, call, n, abspath=ap)
                    if call == "path_rename":       # the absolute path and the dead descriptor in the second position
                        h.generic(abi, call, 3, fd2=n, abspath=ap)
                    out.append(("abs-path", h))
        # prestat of the pre-opened directory
        for ln in (0, 1, 2, 3, 16):
            h = new_hist(); h.generic(abi, "fd_prestat_get", 3); h.call(abi, "fd_prestat_dir_name", 3, h.res(16), ln)
            out.append(("prestat", h))
    return out


def random_history(rng):
    h = new_hist()
    abi = rng.choice(ABIS)
    length = 4
    closed = []
    n_ops = rng.randint(3, 14)
    for _ in range(n_ops):
        r = rng.random()
        cand = list(range(0, length + 1)) + closed * 3 + [rng.choice(NEVER)]
        if r < 0.25:
            name = rng.choice(["a", "b", "f0", "d0", "d0/g", "nope/x", b"a\x00b", b"\x00"])
            ofl = rng.choice([0, wo.O_CREAT, wo.O_CREAT | wo.O_EXCL, wo.O_TRUNC, wo.O_DIRECTORY, wo.O_DIRECTORY])
            if ofl == wo.O_DIRECTORY and rng.random() < 0.7:
                name = "d0"
            dirfd = rng.choice([3, 3, 3] + cand)
            h.open(rng.choice(ABIS) if rng.random() < 0.2 else abi, dirfd, name, ofl, rng.choice([wo.RIGHTS_RW, wo.R_READ, wo.R_WRITE]))
            length += 1            # optimistic; only used to bias later choices
        elif r < 0.5:
            n = rng.choice(cand)
            h.call(abi, "fd_close", n)
            closed.append(n)
        else:
            call = rng.choice(CALLS + ["fd_readdir"] * 4 + ["fd_fdstat_get", "fd_filestat_get", "fd_read"] * 2)
            n = rng.choice(cand)
            ap = rng.choice(wo.abs_paths_for(call)) if call in wo.PATH_CALLS and rng.random() < 0.4 else None
            h.generic(abi, call, n, fd2=rng.choice(cand) if rng.random() < 0.5 else None, abspath=ap)
    return h


# ----------------------------------------------------------------------------- judging one history

def dclass(n, length, closed):
    if n >= length:
        return "never-issued"
    if n in closed:
        return "closed-stdio" if n < 3 else ("closed-preopen" if n == 3 else "closed-opened")
    return "live-stdio" if n < 3 else ("live-preopen" if n == 3 else "live-opened")


def root_cause_key(kind, call, cls, extra=""):
    """one key per root cause (DESIGN §6 #10, #11), specific keys for anything else"""
    if kind in ("doubleFree", "useAfterFree") and cls.startswith("closed"):
        return "dangling-path-after-fd_close"
    if kind == "nullDeref":
        return "null-path-deref"
    if kind == "not-ebadf":
        if extra:
            return "ebadf-precedence-fd_seek-bad-whence"
        return "closed-descriptor-not-ebadf"
    return f"{kind}:{call}:{cls}"


def judge_real(h, lines, end):
    """Property verdicts on the real run of history h.  Returns list of (key, what, op index)."""
    length, closed = 4, set()
    verdicts = []
    stats = []
    for i, meta in enumerate(h.meta):
        died_here = i == len(lines)
        if i > len(lines):
            break
        if meta is None:
            continue
        call, fds = meta["call"], meta["fds"]
        classes = [dclass(n, length, closed) for n in fds]
        dead = [c for c in classes if not c.startswith("live")]
        if died_here:
            if end.startswith("E died"):
                kind = end.split()[2]
                cls = (dead or classes or ["-"])[0]
                verdicts.append((root_cause_key(kind, call, cls),
                                 f"{call} on a {cls} descriptor aborts in the sanitizer ({kind}, {end.split()[3]})", i))
            break
        line = lines[i]
        parts = line.split()
        for tok in wo.table_tokens(line):
            kind = tok.split(":")[0]
            verdicts.append((f"table-invariant:{kind}",
                             {"stale": "a live table entry stores a native descriptor that is no longer open",
                              "alias": "two live descriptors share one native open file",
                              "retarget": "a descriptor denotes a different open file although it was never closed"}.get(kind, kind)
                             + f" after `{h.lines[i]}` ({tok}) — descriptor-table invariant `native_fds_open_distinct` of Props/C13", i))
        errno = int(parts[1]) if parts[0] == "r" and parts[1].isdigit() else None
        stats.append((call, classes[0] if classes else "-", errno))
        if dead and errno is not None and errno != 8 and call not in wo.NOSYS_CALLS:
            extra = ""
            if call == "fd_seek" and meta["args"][2] > 2:
                extra = "-invalid-whence"
            verdicts.append((root_cause_key("not-ebadf", call, dead[0], extra),
                             f"{call}{extra} on a {dead[0]} descriptor returns {errno} instead of EBADF (8)", i))
        # bookkeeping from what the real code answered
        if errno == 0 and call == "path_open":
            length += 1
        if errno == 0 and call == "fd_close" and fds[0] < length:
            closed.add(fds[0])
    return verdicts, stats


def hist_of_lines(lines):
    h = wo.Hist()
    h.lines = list(lines)
    h.meta = []
    for l in h.lines:
        p = l.split()
        if p and p[0] in ("p1", "un"):
            args = [int(x) for x in p[2:]]
            h.meta.append({"call": p[1], "abi": p[0], "fds": [args[i] for i in wo.FD_ARGS.get(p[1], [])], "args": args})
        else:
            h.meta.append(None)
    return h


def corpus():
    """minimised past failures (tools/corpus/C13/*.json); they run first"""
    d = os.path.join(vlib.TOOLS, "corpus", PROP)
    out = []
    if os.path.isdir(d):
        for fn in sorted(os.listdir(d)):
            if fn.endswith(".json"):
                r = json.load(open(os.path.join(d, fn)))
                out.append(("corpus:" + r.get("name", fn), hist_of_lines(r["history"])))
    return out


def compare(h, real, model):
    """model vs real, line by line.  Returns None or a description of the first disagreement."""
    rl, rend = real
    ml, mend = model
    for i in range(max(len(rl), len(ml))):
        if i >= len(rl) or i >= len(ml):
            break
        a, b = wo.canon_line(rl[i]), wo.canon_line(ml[i])
        if b == "r unmodelled":      # the model reached a host call it does not model (listing, rename, lseek on a directory, …)
            if wo.diverges(h.meta[i], a):
                return None          # the real state changed in a way the POSIX model does not follow: stop comparing
            continue
        if a != b:
            return f"line {i} `{h.lines[i]}`: real `{a}` model `{b}`"
    rdied = rend.startswith("E died")
    mdied = mend.startswith("E died")
    if rdied != mdied or len(rl) != len(ml):
        return f"real ends `{rend}` after {len(rl)} lines, model ends `{mend}` after {len(ml)} lines"
    if rdied and rend.split()[2] != mend.split()[2]:
        return f"sanitizer verdict `{rend}` vs model `{mend}`"
    return None


def shrink(exe, d, h, key, budget=40):
    """delta debugging on the real code: drop lines while the same verdict key is produced"""
    cur = h
    for _ in range(budget):
        cands = []
        for i, meta in enumerate(cur.meta):
            if meta is None and not cur.lines[i].startswith("poke"):
                continue
            c = wo.Hist(); c.lines = cur.lines[:i] + cur.lines[i + 1:]; c.meta = cur.meta[:i] + cur.meta[i + 1:]
            cands.append(c)
        if not cands:
            break
        res = wo.run_histories(exe, "real", [c.lines for c in cands], d, tablecheck=True)
        nxt = None
        for c, r in zip(cands, res):
            v, _ = judge_real(c, r[0], r[1])
            if any(k == key or TRACE_PFX + k == key for k, _, _ in v):
                nxt = c
                break
        if nxt is None:
            break
        cur = nxt
    return cur


TRACE_PFX = "trace-build/"     # verdict keys of the -DWASI_TRACE_ENABLED=1 build of wasi.c


def errno_answers(lines):
    out = []
    for l in lines:
        p = l.split()
        out.append(" ".join(p[:2]) if p and p[0] == "r" else (p[0] if p else ""))
    return out


def judge_trace(h, default, traced, notes=None):
    """Verdicts on the run of history h on the tracing build: the same judge as the default build, plus
    `the errno answers are the default build's` (tracing may only print).  The errno comparison holds while the
    host's descriptor 2 is the stream tracePrintf writes to: after the history closed WASI descriptor 2 (= native 2)
    the unmodified wasi.c prints into a closed (or re-used) descriptor, the failed fprintf overwrites `errno` between
    the failing host call and wasiErrno() and the guest is answered EBADF — counted in `notes`, not a C13 verdict."""
    verdicts, _ = judge_real(h, traced[0], traced[1])
    out = [(TRACE_PFX + k, "[wasi.c built with -DWASI_TRACE_ENABLED=1] " + what, i) for k, what, i in verdicts]
    a, b = errno_answers(default[0]), errno_answers(traced[0])
    stderr_closed = False
    for i in range(min(len(a), len(b))):
        meta = h.meta[i]
        if a[i] != b[i]:
            call = meta["call"] if meta else h.lines[i].split()[0]
            if stderr_closed:
                if notes is not None:
                    notes["errno_clobbered_by_trace_after_stderr_closed"] = notes.get("errno_clobbered_by_trace_after_stderr_closed", 0) + 1
                    notes.setdefault("example", f"`{h.lines[i]}` after fd_close(2): `{b[i]}` with tracing, `{a[i]}` default")
            else:
                out.append((TRACE_PFX + f"errno-differs-from-default-build:{call}",
                            f"`{h.lines[i]}` answers `{b[i]}` with tracing enabled and `{a[i]}` in the default build", i))
            break
        if meta and meta["call"] == "fd_close" and meta["fds"] == [2] and a[i] == "r 0":
            stderr_closed = True
    return out


def ops_only(h):
    return [l for l, m in zip(h.lines, h.meta) if m is not None]


# ----------------------------------------------------------------------------- the check

def run(tier):
    chk = vlib.Check(PROP, tier)
    chk.coverage["trusted_base"] = list(vlib.GLOBAL_TRUSTED) + [
        "AddressSanitizer/UBSan (gcc) report every double free, use after free and NULL dereference the real code performs in the generated histories (default build and -DWASI_TRACE_ENABLED=1 build; ASan's printf interceptor checks %s arguments)",
        "malloc/strndup/realloc succeed; closedir/close results are arbitrary in the theorems (any host), concrete in the correspondence",
        "tools/extract/gen_wasi.py + wasi_cinterp.py (gcc -E, C interpreter, probes on mock hosts — default and -DWASI_TRACE_ENABLED=1 configuration) for Gen/Wasi.lean; a mis-extraction shows as a model/real disagreement in wasi-ops",
    ]
    chk.assumptions = ["histories, not schedules: the descriptor table is used from one thread",
                       "guest pointers lie inside guest memory (an out-of-range guest pointer is `.ub .outOfBounds` in the model and outside this property)"]
    pr = prove(chk, MODULES, GENS)
    broken = [e for e in pr["errors"] if e["kind"] != "driver-build"]
    ok, out = vlib.lake_build(["wasidriver"])
    if not ok:
        broken.append({"kind": "wasidriver-build", "msg": out[-2000:]})
    with vlib.scratch("c13-") as d:
        repo = vlib.copy_repo(os.path.join(d, "repo"))
        exe = wo.build(repo, d)
        tagged = corpus() + systematic(chk.rng)
        chk.coverage["regression_corpus"] = len([t for t, _ in tagged if t.startswith("corpus:")])
        n_rand = 400 if tier == "quick" else 8000
        for _ in range(n_rand):
            tagged.append(("random", random_history(chk.rng)))
        hs = [h for _, h in tagged]
        real = wo.run_histories(exe, "real", [h.lines for h in hs], d, tablecheck=True)
        # the tracing configuration: corpus + every systematic history + a share of the random ones (all in thorough)
        exe_tr = wo.build(repo, d, trace=True)
        n_tr_rand = 100 if tier == "quick" else n_rand
        tr_idx = [i for i, (t, _) in enumerate(tagged) if t != "random"] + [i for i, (t, _) in enumerate(tagged) if t == "random"][:n_tr_rand]
        traced = dict(zip(tr_idx, wo.run_histories(exe_tr, "real", [hs[i].lines for i in tr_idx], d, tablecheck=True)))
        model = wo.run_model(WASIDRIVER, [h.lines for h in hs]) if ok else None
        chk.coverage["rule"] = ("a case is one history (setup + ≤ 16 WASI calls) run on the real wasi.c under ASan/UBSan and on the Lean model; "
                                "non-trivial = distinct (call-name sequence, result sequence); systematic part: every descriptor-taking call × "
                                "{closed opened fd, closed listed dir, live/closed stdio, never-issued numbers incl. 2^32-1, closed pre-open, live file/dir/pre-open} × both ABIs")
        op_hist, errno_hist, ub_hist, class_hist, tag_hist = {}, {}, {}, {}, {}
        seen_keys = {}
        trace_notes = {}
        n_mismatch = 0
        for idx, ((tag, h), r) in enumerate(zip(tagged, real)):
            tag_hist[tag.split(":")[0]] = tag_hist.get(tag.split(":")[0], 0) + 1
            verdicts, stats = judge_real(h, r[0], r[1])
            for call, cls, errno in stats:
                op_hist[call] = op_hist.get(call, 0) + 1
                class_hist[cls] = class_hist.get(cls, 0) + 1
                errno_hist[str(errno)] = errno_hist.get(str(errno), 0) + 1
            if r[1].startswith("E died"):
                k = r[1].split()[2]
                ub_hist[k] = ub_hist.get(k, 0) + 1
            sig = (tuple(m["call"] for m in h.meta if m), tuple(r[0]), r[1].split()[:3][-1])
            sample = None
            if idx % max(1, len(hs) // 10) == 0:
                sample = {"history": ops_only(h), "real": r[0][-3:] + [r[1]], "model": (model[idx][0][-3:] + [model[idx][1]]) if model else None}
            chk.count_case(sig, True, sample)
            for key, what, opi in verdicts:
                if key not in seen_keys:
                    seen_keys[key] = (h, what)
            if idx in traced:
                if traced[idx][1].startswith("E died"):
                    k = "trace:" + traced[idx][1].split()[2]
                    ub_hist[k] = ub_hist.get(k, 0) + 1
                base = {k for k, _, _ in verdicts}
                for key, what, opi in judge_trace(h, r, traced[idx], trace_notes):
                    if key[len(TRACE_PFX):] in base:
                        continue          # same root cause as in the default build, reported there
                    if key not in seen_keys:
                        seen_keys[key] = (h, what)
            if model:
                dis = compare(h, r, model[idx])
                if dis:
                    n_mismatch += 1
                    if n_mismatch <= 5:
                        broken.append({"kind": "correspondence", "msg": f"wasi-ops history {idx} ({tag}): {dis}", "history": h.lines})
        for key, (h, what) in sorted(seen_keys.items()):
            tr = key.startswith(TRACE_PFX)
            small = h if (tr and "errno-differs" in key) else shrink(exe_tr if tr else exe, d, h, key)
            chk.violation(key, what, {"history": small.lines, "calls": ops_only(small), "mode": "real",
                                      "build": "trace (-DWASI_TRACE_ENABLED=1)" if tr else "default",
                                      "expected": ("no sanitizer report and the errno answers of the default build" if tr
                                                   else "EBADF (8) and no sanitizer report"),
                                      "replay_cmd": "python3 tools/check.py C13 --replay <this file>"}, True)
        chk.coverage["op_histogram"] = op_hist
        chk.coverage["errno_histogram"] = errno_hist
        chk.coverage["sanitizer_abort_histogram"] = ub_hist
        chk.coverage["descriptor_class_histogram"] = class_hist
        chk.coverage["generator_histogram"] = tag_hist
        chk.coverage["histories_on_tracing_build"] = len(tr_idx)
        chk.coverage["tracing_build_notes"] = trace_notes
        chk.coverage["traces_validated_against_impl"] = len(hs) if model else 0
        chk.coverage["model_real_disagreements"] = n_mismatch
    if tier == "thorough" and pr["build_ok"]:
        for m, msg in leanchecker(chk, MODULES):
            broken.append({"kind": "leanchecker", "msg": f"{m}: {msg}"})
    if broken and not chk.violations:      # (a listed known finding does not excuse a broken tie)
        chk.violation("tie-or-proof-broken",
                      "a proof obligation of Props/C13.lean or the wasi-ops correspondence (model vs real wasi.c) no longer checks",
                      {"broken": broken[:20]}, False)
    elif broken:
        chk.notes.append({"broken": broken[:10]})
    return chk.finish()


def replay(path):
    r = json.load(open(path))
    if "history" not in r:
        print("replay file names a broken obligation/correspondence, not a history:", json.dumps(r.get("broken"), indent=1)[:3000])
        return 1
    h = hist_of_lines(r["history"])
    with vlib.scratch("c13r-") as d:
        repo = vlib.copy_repo(os.path.join(d, "repo"))
        exe = wo.build(repo, d)
        lines, end = wo.run_histories(exe, "real", [h.lines], d, tablecheck=True)[0]
        tr = str(r.get("build", "")).startswith("trace")
        if tr:
            exe_tr = wo.build(repo, d, trace=True)
            default = (lines, end)
            lines, end = wo.run_histories(exe_tr, "real", [h.lines], d, tablecheck=True)[0]
            print("build: wasi.c with -DWASI_TRACE_ENABLED=1")
    for l, o in zip(h.lines, lines + ["<no answer: the process died here>"] * len(h.lines)):
        print(f"  {l}    ->  {o}")
    print(end)
    if tr:
        verdicts = judge_trace(h, default, (lines, end))
    else:
        verdicts, _ = judge_real(h, lines, end)
    for k, what, _ in verdicts:
        print("VIOLATES:", k, "-", what)
    return 1 if verdicts else 0
