"""C07 — every constant keeps its exact bit pattern through the generated C text.

Obligations: Props/C07 over the classification constants regenerated from wasmCWriteLiteral.
Ties: (1) the REAL wasmCWriteLiteral (in-process) vs the model's text for every class; (2) the real
round trip: the texts the real function writes are compiled by gcc and clang and the resulting bit
patterns compared with the constants (this also exercises the assumption DecRoundTrips: "%.9g"/"%.17g"
printing + the compiler's decimal parser)."""
import os
import struct
import vlib
import lit_ops
import const_e2e
import runtime_ops as ro
from common import prove, leanchecker

PROP = "C07"
MODULES = ["W2c2Verif.Props.C07"]
GENS = [("Literals", "gen_literals"), ("EmitTable", "gen_emit")]


def class_cases(rng, n):
    cases = []
    for v in ro.int_boundary(32):
        cases.append(("i32", v))
    for v in ro.int_boundary(64):
        cases.append(("i64", v))
    for v in ro.f32_boundary():
        cases.append(("f32", v))
    for v in ro.f64_boundary():
        cases.append(("f64", v))
    # every NaN with a single payload bit, payloads confined to high / low parts, both signs
    for s in (0, 1):
        for k in range(23):
            cases.append(("f32", (s << 31) | 0x7f800000 | (1 << k)))
        for k in range(52):
            cases.append(("f64", (s << 63) | 0x7ff0000000000000 | (1 << k)))
        cases.append(("f64", (s << 63) | 0x7ff0000000000000 | (0x1fffffff << 23)))
        cases.append(("f64", (s << 63) | 0x7ff0000000000000 | 0x7fffff))
    # every exponent with min / max / random mantissas
    for e in range(256):
        for m in (0, 0x7fffff, rng.getrandbits(23)):
            cases.append(("f32", (rng.getrandbits(1) << 31) | (e << 23) | m))
    for e in list(range(0, 2048, 7)) + [0, 1, 2046, 2047, 1023, 1075, 1076]:
        for m in (0, (1 << 52) - 1, rng.getrandbits(52)):
            cases.append(("f64", (rng.getrandbits(1) << 63) | (e << 52) | m))
    for _ in range(n):
        t = rng.choice(["i32", "i64", "f32", "f64"])
        cases.append((t, ro.rand_val(rng, {"i32": "u32", "i64": "u64"}.get(t, t))))
    return cases


def run(tier):
    chk = vlib.Check(PROP, tier)
    chk.coverage["trusted_base"] = list(vlib.GLOBAL_TRUSTED) + [
        "DecRoundTrips: sprintf(\"%.9g\"/\"%.17g\") is correctly rounded and the C compiler's decimal literal parser is correctly rounded (glibc, gcc, clang); exercised by the compile round trip on every run, exhaustively over all 2^32 f32 patterns for the printf/strtod part in the thorough tier",
        "INFINITY is the <math.h> float constant; hex literals are typed per C99 6.4.4.1"]
    pr = prove(chk, MODULES, GENS)
    broken = list(pr["errors"]) if not pr["build_ok"] else []
    n = 2000 if tier == "quick" else 60000
    with vlib.scratch("c07-") as d:
        repo = vlib.copy_repo(os.path.join(d, "repo"))
        try:
            exe = lit_ops.build(repo, d)
        except Exception as e:
            broken.append({"kind": "harness-build", "msg": str(e)[-1500:]})
            exe = None
        cases = class_cases(chk.rng, n)
        hist = {}
        if exe:
            real = lit_ops.texts(exe, cases)
            model = vlib.DriverProc().batch(["lit %s %x" % c for c in cases]) if pr["driver_ok"] else None
            lits = [r[5:] if r.startswith("text ") else None for r in real]
            for i, c in enumerate(cases):
                kind = ("int" if c[0][0] == "i" else "nan" if "reinterpret" in real[i] else "inf" if "INFINITY" in real[i]
                        else "negzero" if real[i] == "text -0.f" else "decimal")
                hist[c[0] + ":" + kind] = hist.get(c[0] + ":" + kind, 0) + 1
                chk.count_case(c, True, {"const": "%s %x" % c, "text": real[i]} if i % max(1, len(cases) // 10) == 0 else None)
                if lits[i] is None:
                    broken.append({"kind": "correspondence", "msg": f"real wasmCWriteLiteral failed on {c}: {real[i]}"})
                elif model and model[i] != "finite" and model[i] != real[i]:
                    broken.append({"kind": "correspondence", "msg": f"literal text: const {c[0]} {c[1]:x}: real `{real[i]}` model `{model[i]}`"})
                elif model and model[i] == "finite" and kind != "decimal":
                    broken.append({"kind": "correspondence", "msg": f"literal class: const {c[0]} {c[1]:x}: real `{real[i]}` model says finite/decimal"})
            # the real round trip through the compilers
            ok = [i for i in range(len(cases)) if lits[i] is not None]
            for cc, opts, tag in (("gcc", ("-O0",), "g0"), ("clang", ("-O1",), "c1")) if tier == "quick" else \
                    (("gcc", ("-O0",), "g0"), ("gcc", ("-O2", "-std=gnu89"), "g2"), ("clang", ("-O0",), "c0"), ("clang", ("-O2",), "c2")):
                try:
                    got = lit_ops.compile_roundtrip(repo, d, [cases[i] for i in ok], [lits[i] for i in ok], cc, opts, tag)
                except Exception as e:
                    broken.append({"kind": "roundtrip-compile", "msg": str(e)[-800:]})
                    continue
                for j, i in enumerate(ok):
                    if got[j] != cases[i][1]:
                        t, b = cases[i]
                        cls = "nan" if "reinterpret" in lits[i] or (t[0] == "f" and "INF" in lits[i]) else "value"
                        chk.violation(f"{t}-literal-roundtrip-{cls}",
                                      f"{t}.const {b:#x} is written as `{lits[i]}`, which {cc} {' '.join(opts)} compiles to {got[j]:#x}",
                                      {"type": t, "bits": "%x" % b, "literal": lits[i], "compiled_bits": "%x" % got[j], "compiler": cc + " " + " ".join(opts)}, True)
            chk.coverage["roundtrip_cases"] = len(ok)
        # the whole pipeline: reader (LEB128 / float immediates of every length, minimal and padded) -> literal -> compiler
        try:
            pipe = []
            for t, b in cases:
                if t[0] == "i":
                    pipe.append((t, b, 0))
                    if len(pipe) % 3 == 0:
                        pipe.append((t, b, 1 + (b % 9)))
            fl = [c for c in cases if c[0][0] == "f"]
            step = max(1, len(fl) // (400 if tier == "quick" else 4000))
            pipe += [(t, b, 0) for t, b in fl[::step]]
            got, ctext = const_e2e.run(repo, d, pipe)
            npipe = len(pipe)
            lens = {}
            for k, (t, b, pad) in enumerate(pipe):
                if t[0] == "i":
                    L = len(const_e2e.imm(t, b, pad))
                    lens[f"{t}:leb{L}"] = lens.get(f"{t}:leb{L}", 0) + 1
                for via, v in (("function body", got[k]), ("global initialiser", got[npipe + k])):
                    if v != b:
                        chk.violation(f"{t}-const-pipeline",
                                      f"{t}.const {b:#x} (immediate bytes {const_e2e.imm(t, b, pad).hex()}, in a {via}) comes out of the real w2c2 + gcc as {v:#x}",
                                      {"type": t, "bits": "%x" % b, "pad": pad, "via": via, "got": "%x" % v, "kind": "pipeline"}, True)
            chk.coverage["pipeline_cases"] = npipe
            chk.coverage["pipeline_leb_lengths"] = lens
        except Exception as e:
            broken.append({"kind": "const-pipeline", "msg": str(e)[-800:]})
        chk.coverage["class_histogram"] = hist
        chk.coverage["rule"] = ("constants: integer boundary sets; float boundary sets; every single-payload-bit NaN of both signs; every f32 exponent and a "
                                "stride of f64 exponents × {min,max,random} mantissa; seeded random patterns; case = (type, bit pattern); compared: real wasmCWriteLiteral text vs "
                                "model text/class, and bits after compiling the real text with gcc and clang vs the constant")
    if tier == "thorough" and pr["build_ok"]:
        for m, msg in leanchecker(chk, MODULES):
            broken.append({"kind": "leanchecker", "msg": f"{m}: {msg}"})
    if broken and not chk.violations and not chk.known_hit:
        chk.violation("tie-or-proof-broken", "proof obligation or correspondence no longer checks; no constant found whose compiled literal differs",
                      {"broken": broken[:20]}, False)
    elif broken:
        chk.notes.append({"broken": broken[:10]})
    return chk.finish()


def replay(path):
    import json
    r = json.load(open(path))
    with vlib.scratch("c07r-") as d:
        repo = vlib.copy_repo(os.path.join(d, "repo"))
        exe = lit_ops.build(repo, d)
        c = (r["type"], int(r["bits"], 16))
        if r.get("kind") == "pipeline":
            got, _ = const_e2e.run(repo, d, [(c[0], c[1], r.get("pad", 0))])
            print(f"replay pipeline {c[0]}.const {c[1]:#x} pad {r.get('pad', 0)}: got {got[0]:#x} (function), {got[1]:#x} (global)")
            return 0 if got[0] == c[1] and got[1] == c[1] else 1
        text = lit_ops.texts(exe, [c])[0][5:]
        got = lit_ops.compile_roundtrip(repo, d, [c], [text])[0]
    print(f"replay {c[0]}.const {c[1]:#x}: literal `{text}` compiles to {got:#x}")
    return 0 if got == c[1] else 1
