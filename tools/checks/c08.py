"""C08 — translation depends on the decoded module, not on its byte encoding.

Obligations: theorems of Props/C08.lean (LEB128 decoders on every spec encoding; section framing; round trips of the
type/function/table/memory/start/data-count sections; flag-0/flag-2 data segments; absent = empty) and of
Props/C08Sections.lean (round trips of the import/global/export/element/code/data/custom/name sections against the
grammar of Spec/BinarySections.lean; `read_encode_roundtrip` for all 13 kinds of section through the dispatcher;
`module_roundtrip`, `module_encodings_agree` for whole files; `data_flag0_eq_flag2`) over Model.Leb / Model.Reader,
whose constants are regenerated from the C source into Gen/Reader.lean on every run.
Ties:  `leb`          leb128.h in-process (exhaustive ≤ 2 bytes, all continuation patterns ≤ 11 bytes, random)
       `reader-dump`  the real reader.c linked into a dump harness vs `readerdriver read` on wasmgen modules
                      re-encoded with padded LEBs / customs at every boundary / data flags / empty sections,
                      mutated + truncated streams, and /repo/tests/gen
       `imm`          the real immediate readers of instruction.c / instruction.h / valuetype.h and the real
                      wasmLocalsDeclarationsGetType of locals.h (in-process harness imm_harness.c) vs Model.Instr through
                      `readerdriver imm|blocktype|locals` on padded / truncated immediates and on locals vectors with
                      zero-count groups everywhere
Property on the real code: all encodings of one module give the same decoded module (dump modulo offsets and modulo the
grouping of locals) and the same multiset of emitted C definitions (real w2c2 run on every encoding), and the compiled
output of re-encoded modules behaves like the module in V8.  Re-encodings reach every LEB field inside function bodies
(memarg align/offset, local/global/func/type/label/data indices, br_table vectors, call_indirect type AND table index,
prefixed sub-opcodes, i32/i64.const) and the locals vector (counts padded; groups split / merged; zero-count groups at
the beginning, in the middle, at the end); every variant is checked to be accepted by V8.  Custom sections whose names
are prefixes / extensions of the two names the reader knows (nam, names, namespace, name.idx, .debug_, .debug_lin,
.debug_line, .debug_linex, empty, 300 bytes …) with random or name-subsection-looking content are inserted at every
section boundary and right before / after a real name section: with and without -g the dump and the emitted definitions
must be those of the module without them.  A real name section in front of the function section and two name sections
(the second growing the table of the first) must be accepted under -g (reader, translator, sanitized reader).  (Block types and the
reserved memory-index bytes of memory.size/grow/fill/copy/init and atomic.fence are single bytes for V8: no variant.)
"""
import collections
import glob
import json
import os
import random
import re
import subprocess
import zlib

import vlib
import leb_harness as lh
import reader_dump as rd
import imm_harness as ih
from common import prove, leanchecker
from vlib import log

PROP = "C08"
MODULES = ["W2c2Verif.Props.C08", "W2c2Verif.Props.C08Sections", "W2c2Verif.Props.C08Instr"]
GENS = [("Reader", "gen_reader"), ("Instr", "gen_instr")]
READERDRIVER = os.path.join(vlib.LEAN, ".lake", "build", "bin", "readerdriver")


# ----------------------------------------------------------------------------------------------- LEB cases

def leb_cases(rng, tier):
    """[(kind, bytes)]"""
    kinds = ("u32", "i32", "u64", "i64")
    cases = []
    # exhaustive: every byte string of length <= 2
    short = [b""] + [bytes([a]) for a in range(256)] + [bytes([a, b]) for a in range(256) for b in range(256)]
    for k in kinds:
        for s in short:
            cases.append((k, s))
    # every continuation pattern up to 11 bytes x boundary payloads
    pays = [lambda i, n: 0x00, lambda i, n: 0x7F, lambda i, n: 0x40 if i == n - 1 else 0x00,
            lambda i, n: 0x3F if i == n - 1 else 0x7F, lambda i, n: 0x01 if i == n - 1 else 0x00,
            lambda i, n: 0x0F if i == n - 1 else 0x7F, lambda i, n: 0x70 if i == n - 1 else 0x00,
            lambda i, n: 0x08 if i == n - 1 else 0x00, lambda i, n: 0x78 if i == n - 1 else 0x7F, None]
    for n in range(1, 12):
        for pat in range(1 << n):
            for pay in pays:
                bs = bytes((((pat >> i) & 1) << 7) | (pay(i, n) if pay else rng.getrandbits(7)) for i in range(n))
                for k in kinds:
                    if pay is None or n > 2:
                        cases.append((k, bs))
    # random: valid encodings of boundary values with random padding + garbage tails
    nrand = 4000 if tier == "quick" else 200000
    from wasmgen import leb_u, leb_s
    for _ in range(nrand):
        k = rng.choice(kinds)
        bits = 32 if "32" in k else 64
        mx = 5 if bits == 32 else 10
        if k[0] == "u":
            v = rng.choice((0, 1, 127, 128, (1 << bits) - 1, 1 << (bits - 1), rng.getrandbits(bits), rng.getrandbits(rng.randint(1, bits))))
            m = len(leb_u(v, None, bits))
            enc = leb_u(v, rng.randint(m, mx), bits)
        else:
            v = rng.choice((0, -1, 63, 64, -64, -65, (1 << (bits - 1)) - 1, -(1 << (bits - 1)),
                            rng.getrandbits(bits) - (1 << (bits - 1)), rng.getrandbits(rng.randint(1, bits - 1)) * rng.choice((1, -1))))
            m = len(leb_s(v, bits))
            enc = leb_s(v, bits, pad_to=rng.randint(m, mx))
        tail = bytes(rng.getrandbits(8) for _ in range(rng.choice((0, 0, 1, 3))))
        cases.append((k, enc + tail))
    return cases


def run_leb(chk, d, repo, broken):
    cases = leb_cases(chk.rng, chk.tier)
    lines = ["leb %s %s" % (k, bs.hex() if bs else "-") for k, bs in cases]
    plain, asan, ubsan = lh.build(repo, d)
    real = lh.run_plain(plain, lines)
    model = vlib.DriverProc(READERDRIVER).batch(lines, timeout=1800)
    areal, fatal = lh.run_asan(asan, lines)
    if fatal:
        chk.violation("leb-asan-" + re.sub(r"\W+", "-", fatal[1])[:60],
                      f"AddressSanitizer error inside a LEB128 decoder on `{lines[fatal[0]] if fatal[0] < len(lines) else '?'}`: {fatal[1]}",
                      {"line": lines[fatal[0]] if fatal[0] < len(lines) else None, "report": fatal[1],
                       "replay_cmd": "python3 tools/check.py C08 --replay <this file>"}, True)
    hist = collections.Counter()
    nmis = 0
    for i, (k, bs) in enumerate(cases):
        mv = model[i].split()
        rv = real[i].split()
        hist[f"{k}/len{min(len(bs), 11)}"] += 1
        chk.count_case(("leb", k, bs), True, {"line": lines[i], "real": real[i], "model": model[i]} if i % 97003 == 0 else None)
        # values, count, rest: real (uninstrumented gcc build) vs model
        if (rv[0], rv[1], rv[3]) != (mv[0], mv[1], mv[3]) or "INCONSISTENT" in real[i]:
            nmis += 1
            if nmis <= 5:
                broken.append({"kind": "correspondence", "msg": f"leb: `{lines[i]}` real `{real[i]}` model `{model[i]}`"})
        if i < len(areal) and areal[i] != real[i]:
            broken.append({"kind": "correspondence", "msg": f"leb: ASan and plain builds differ on `{lines[i]}`"})
    # UB flag of the model vs UBSan verdict (one forked child per line, so only a subset): every line the model
    # flags (up to a cap) and as many it does not flag, biased to long signed encodings
    flagged = [i for i in range(len(cases)) if model[i].split()[2] == "1"]
    cap = 1500 if chk.tier == "quick" else 8000
    chk.rng.shuffle(flagged)
    flagged = flagged[:cap]
    clean_long = [i for i, (k, bs) in enumerate(cases) if model[i].split()[2] == "0" and k[0] == "i" and len(bs) >= 4]
    clean_any = [i for i in range(len(cases)) if model[i].split()[2] == "0"]
    chk.rng.shuffle(clean_long)
    chk.rng.shuffle(clean_any)
    sub = sorted(set(flagged + clean_long[:cap] + clean_any[:cap // 2]))
    sreal, reports, _ = lh.run_ubsan(ubsan, [lines[i] for i in sub])
    for j, i in enumerate(sub):
        rep = bool(reports.get(j)) or sreal[j].startswith("crash")
        if rep != (model[i].split()[2] == "1"):
            nmis += 1
            if nmis <= 8:
                broken.append({"kind": "correspondence", "msg": f"leb-ub: `{lines[i]}` UBSan {reports.get(j)} model ub={model[i].split()[2]}"})
        if sreal[j].split()[:2] != real[i].split()[:2]:
            broken.append({"kind": "correspondence", "msg": f"leb: UBSan and plain builds differ on `{lines[i]}`"})
    chk.coverage["leb_ubsan_checked"] = len(sub)
    chk.coverage["leb_model_ub_lines"] = sum(1 for x in model if x.split()[2] == "1")
    chk.coverage["leb_cases"] = len(cases)
    chk.coverage["leb_histogram"] = dict(sorted(hist.items()))
    chk.coverage["leb_ubsan_lines"] = len(reports)
    ub_sites = collections.Counter(m.split(" runtime error")[0] for v in reports.values() for m in v)
    chk.coverage["leb_ubsan_sites"] = dict(ub_sites)
    if reports:
        chk.notes.append("leb128ReadI64 executes -((I64)1 << 63) on 9-byte encodings with the sign bit set (UBSan: "
                         + ", ".join(sorted(ub_sites)) + "); model and code agree on where; value/count are right under "
                         "two's complement; reported as a C10 finding (leb-i64-sign-extend-shift63)")
    return len(cases)


# ----------------------------------------------------------------------------------------------- immediates, locals

def run_imm(chk, d, repo, broken):
    """The real immediate readers / locals lookup (ASan+UBSan build) vs Model.Instr."""
    cs = ih.cases(chk.rng, chk.tier)
    lines = [ln for _, ln in cs]
    exe = ih.build(repo, d)
    real = ih.run(exe, lines)
    model = vlib.DriverProc(READERDRIVER).batch(lines, timeout=1800)
    hist = collections.Counter()
    nmis = 0
    for i, (kind, ln) in enumerate(cs):
        hist[kind + "/" + real[i].split()[0]] += 1
        chk.count_case(("imm", ln), True, {"line": ln, "real": real[i], "model": model[i]} if i % 1501 == 0 else None)
        if real[i] != model[i]:
            nmis += 1
            if nmis <= 5:
                broken.append({"kind": "correspondence", "msg": f"imm: `{ln}` real `{real[i]}` model `{model[i]}`"})
    chk.coverage["imm_cases"] = len(cs)
    chk.coverage["imm_histogram"] = dict(sorted(hist.items()))
    chk.coverage["imm_mismatches"] = nmis
    return len(cs)


# ----------------------------------------------------------------------------------------------- module cases

CUSTOM_NAMES = [b"name", b".debug_x", b"", b"producers", b".debug_", b".debug", b"nam\x00e", b"\xc3\xa9\xff"]


def encodings_of(rng, seed, profile, index, nrand):
    """[(tag, bytes)] spec-equivalent encodings of one generated module."""
    from wasmgen import encode, Policy, module_for, add_random_customs
    import wasmgen.wasm_ast as A
    out = []
    m = module_for(seed, profile, index)
    out.append(("min", encode(m)))
    out.append(("max", encode(m, Policy("max"))))
    out.append(("min-empty", encode(m, Policy("minimal", emit_empty=True))))
    out.append(("min-flag2", encode(m, Policy("minimal", data_flag=2))))
    out.append(("min-flag0", encode(m, Policy("minimal", data_flag=0))))
    # function bodies: the locals vector regrouped, the call_indirect table index in 2 and 5 bytes
    for mode in LOCALS_VARIANTS:
        out.append((f"min-locals-{mode}", encode(m, Policy("minimal", locals=mode))))
    out.append(("max-locals-zero_all", encode(m, Policy("max", locals="zero_all"))))
    out.append(("min-tblidx-two", encode(m, Policy("minimal", table_index_width=2))))
    out.append(("min-tblidx-five", encode(m, Policy("minimal", table_index_width=5))))
    for slot in range(13):
        mm = module_for(seed, profile, index)
        nm = CUSTOM_NAMES[(slot + index) % len(CUSTOM_NAMES)]
        payload = bytes(rng.getrandbits(8) for _ in range(rng.choice((0, 1, 5, 127, 128, 300))))
        mm.customs.append(A.CustomSection(nm, payload, slot))
        out.append((f"custom@{slot}:{nm!r}", encode(mm, Policy("random", rng))))
    # custom sections whose names are prefixes / extensions of the two names the reader knows ("name", ".debug_"), at every
    # section boundary and right before / after a real name section; they are no name section: with and without -g they
    # must change nothing
    nfun = len(m.imported("func")) + len(m.funcs)
    for slot in range(13):
        mm = module_for(seed, profile, index)
        nm = NAME_LIKE[(slot + 3 * index) % len(NAME_LIKE)]
        mm.customs.append(A.CustomSection(nm, name_like_payload(rng, nfun), slot))
        out.append((f"namelike@{slot}:{nm[:16]!r}", encode(mm, Policy("random" if slot % 2 else "minimal", rng))))
    real_names = [c for c in m.customs if isinstance(c.payload, A.NameSection)]
    if real_names:
        for where in ("before", "after"):
            mm = module_for(seed, profile, index)
            k = next(i for i, c in enumerate(mm.customs) if isinstance(c.payload, A.NameSection))
            nm = NAME_LIKE[(index + (where == "after")) % 4 + 1]      # names / namespace / name.idx / nam
            extra = A.CustomSection(nm, name_like_payload(rng, nfun), mm.customs[k].slot)
            mm.customs.insert(k if where == "before" else k + 1, extra)
            out.append((f"namelike@{where}-name:{nm!r}", encode(mm)))
    # a real name section IN FRONT of the function section (only the imported functions are known there), and two name
    # sections (the second one finds, and grows, the table of the first): a custom section never invalidates a module
    if nfun:
        nimp = len(m.imported("func"))
        for variant in ("early", "twice", "early-imports-only", "twice-grow"):
            mm = module_for(seed, profile, index)
            mm.customs = [c for c in mm.customs if not isinstance(c.payload, A.NameSection)]
            if variant in ("early-imports-only", "twice-grow") and not nimp:
                continue
            # twice-grow: the first section names the imported functions only (all that is known there), the second one,
            # at the end, finds the table of the first and grows it
            upto = nimp if variant in ("early-imports-only", "twice-grow") else nfun
            mm.customs.append(A.CustomSection(b"name", A.NameSection(module_name=b"m", func_names=[(i, b"fn_%d" % i) for i in range(upto)]), 2))
            if variant == "twice-grow":
                # … but the second one names the last function only: the other added slots must start out empty
                mm.customs.append(A.CustomSection(b"name", A.NameSection(func_names=[(nfun - 1, b"last")]), 12))
            if variant == "twice":
                mm.customs.append(A.CustomSection(b"name", A.NameSection(func_names=[(i, b"gn_%d" % (i % max(1, nfun - 1))) for i in range(nfun)]), 12))
            out.append((f"names-{variant}", encode(mm, Policy("random" if variant == "twice" else "minimal", rng))))
    for j in range(nrand):
        mm = module_for(seed, profile, index)
        add_random_customs(rng, mm)
        out.append((f"rnd{j}", encode(mm, Policy("random", rng, emit_empty=rng.random() < 0.5,
                                                   data_flag=rng.choice(("keep", 0, 2, "random")), pad_subop=True,
                                                   locals=rng.choice(("keep", "random", "random"))))))
    return m, out


NAME_LIKE = [b"names", b"namespace", b"name.idx", b"nam", b"name_", b".debug_", b".debug_lin", b".debug_line", b".debug_linex", b".debug",
             b"", b"name" + b"x" * 300, b"NAME", b"na"]


def name_like_payload(rng, nfun):
    """content of a custom section that is NOT the name section: random bytes, or bytes that would be a function-names
    subsection naming existing functions if (wrongly) read as name-section content"""
    from wasmgen import leb_u
    if nfun and rng.random() < 0.6:
        ents = b""
        idxs = sorted(rng.sample(range(nfun), min(nfun, rng.randint(1, 3))))
        for i in idxs:
            nm = b"injected_%d" % i
            ents += leb_u(i) + leb_u(len(nm)) + nm
        body = leb_u(len(idxs)) + ents
        return b"\x01" + leb_u(len(body)) + body
    return bytes(rng.getrandbits(8) for _ in range(rng.choice((0, 1, 5, 40, 127, 128, 300))))


LOCALS_VARIANTS = ("zero_lead", "zero_mid", "zero_end", "zero_all", "split", "merge")
N_FIXED = 5 + len(LOCALS_VARIANTS) + 3        # encodings before the custom@ ones


def directed_immediates():
    """A hand-written module in which every kind of immediate occurs and matters for the result: locals of four types
    in several groups (get/set/tee), br_table, call / call_indirect, globals, loads/stores with offsets, memory.size /
    grow / fill / copy / init, data.drop, constants that need many LEB bytes."""
    import wasmgen.wasm_ast as A
    I = A.Instr
    m = A.Module()
    m.types = [A.FuncType((A.I32,), (A.I32,)), A.FuncType((A.I32, A.I64), (A.I64,))]
    m.tables = [A.TableType(A.Limits(4, 4))]
    m.mems = [A.Limits(1, 4)]
    m.globals = [A.Global(A.GlobalType(A.I32, True), I("i32.const", 1000)), A.Global(A.GlobalType(A.I64, False), I("i64.const", -(1 << 40)))]
    # f0: locals (i64 x2)(i32 x1)(f64 x1)(i32 x2); p*3+1 via several locals of different types
    f0 = A.Function(0, [(2, A.I64), (1, A.I32), (1, A.F64), (2, A.I32)], [
        I("local.get", 0), I("i64.extend_i32_u"), I("local.set", 1),
        I("local.get", 1), I("i64.const", 1 << 32), I("i64.add"), I("local.tee", 2), I("i32.wrap_i64"), I("local.set", 3),
        I("local.get", 0), I("f64.convert_i32_u"), I("local.set", 4),
        I("local.get", 3), I("local.get", 0), I("i32.add"), I("local.tee", 5),
        I("local.get", 4), I("i32.trunc_f64_u"), I("i32.add"), I("local.tee", 6), I("i32.const", 1), I("i32.add")])
    # f1: br_table over three blocks
    f1 = A.Function(0, [(1, A.I32)], [
        I("block", None, body=[I("block", None, body=[I("block", None, body=[
            I("local.get", 0), I("br_table", (0, 1, 2, 1, 0), 2)]),
            I("i32.const", 11), I("return")]),
            I("i32.const", -22), I("return")]),
        I("local.get", 0), I("i32.const", 0x7FFFFFF), I("i32.xor")])
    # f2: call_indirect through table 0, call
    f2 = A.Function(0, [(1, A.I64), (1, A.I32)], [
        I("local.get", 0), I("i32.const", 7), I("i32.add"),
        I("local.get", 0), I("i32.const", 3), I("i32.and"), I("call_indirect", 0, 0),
        I("local.set", 2), I("local.get", 2), I("call", 1), I("global.get", 0), I("i32.add")])
    # f3: memory and globals
    f3 = A.Function(0, [(1, A.I32), (1, A.I64)], [
        I("i32.const", 16), I("local.get", 0), I("i32.store", 2, 200),
        I("i32.const", 64), I("i32.const", 0xAB), I("i32.const", 300), I("memory.fill"),
        I("i32.const", 1024), I("i32.const", 150), I("i32.const", 130), I("memory.copy"),
        I("i32.const", 2048), I("i32.const", 1), I("i32.const", 3), I("memory.init", 0),
        I("global.get", 0), I("local.get", 0), I("i32.add"), I("global.set", 0),
        I("i32.const", 0), I("i64.load", 3, 1040), I("global.get", 1), I("i64.add"), I("local.tee", 2), I("i32.wrap_i64"),
        I("i32.const", 0), I("i32.load8_u", 0, 2049), I("i32.add"),
        I("i32.const", 1), I("memory.grow"), I("i32.add"), I("memory.size"), I("i32.add"),
        I("i32.const", 0), I("i32.load16_u", 1, 216), I("i32.add"), I("global.get", 0), I("i32.add")])
    # f4: data.drop (afterwards memory.init of a non-empty range traps: called last)
    f4 = A.Function(0, [(0, A.F32)], [I("data.drop", 0), I("local.get", 0)])
    m.funcs = [f0, f1, f2, f3, f4]
    m.elems = [A.ElemSegment(0, I("i32.const", 0), [0, 1, 0, 1])]
    m.datas = [A.DataSegment("passive", bytes(range(1, 9)))]
    m.datacount = 1
    m.exports = [A.Export(b"a", "func", 0), A.Export(b"b", "func", 1), A.Export(b"c", "func", 2), A.Export(b"d", "func", 3),
                 A.Export(b"e", "func", 4)]
    m.meta = {"imports_spec": {"globals": {}}, "exports": [],
              "calls": [(n, [("i32", v)]) for v in (0, 1, 2, 3, 4, 5, 77, 0xFFFFFFFF) for n in (b"a", b"b", b"c", b"d")]
              + [(b"e", [("i32", 9)])]}
    return m


EMPTY_GROUPS = ((1, 3, 10), (4, 9), (5, 11, 12), (2,), (6,), (7,))
SECTION_NAMES = {1: "type", 2: "import", 3: "function", 4: "table", 5: "memory", 6: "global", 7: "export", 9: "element",
                 10: "code", 11: "data", 12: "datacount"}


def empty_modules():
    """Hand-written modules in which whole groups of sections are empty: {name: module}."""
    import wasmgen.wasm_ast as A
    I = A.Instr
    out = {}
    m = A.Module()                                  # nothing at all
    m.meta = {"imports_spec": {"globals": {}}, "exports": []}
    out["nothing"] = m
    m = A.Module()                                  # memory, data, globals only: no types, functions, code, table, elements, imports
    m.mems = [A.Limits(1, 2)]
    m.globals = [A.Global(A.GlobalType(A.I32, False), I("i32.const", 7))]
    m.datas = [A.DataSegment("active", b"hello", I("i32.const", 16))]
    m.exports = [A.Export(b"mem", "memory", 0), A.Export(b"g", "global", 0)]
    m.meta = {"imports_spec": {"globals": {}}, "exports": []}
    out["memory-only"] = m
    m = A.Module()                                  # one function only: no table, elements, memory, data, imports, globals, exports
    m.types = [A.FuncType((), ())]
    m.funcs = [A.Function(0, [], [I("nop")])]
    m.start = 0
    m.meta = {"imports_spec": {"globals": {}}, "exports": []}
    out["function-only"] = m
    m = A.Module()                                  # a table and an import, nothing else
    m.types = [A.FuncType((A.I32,), ())]
    m.imports = [A.Import(b"env", b"f0", "func", 0)]
    m.tables = [A.TableType(A.Limits(1, 1))]
    m.elems = [A.ElemSegment(0, I("i32.const", 0), [0])]
    m.meta = {"imports_spec": {"globals": {}}, "exports": []}
    out["table-import-only"] = m
    return out


def empty_section_combinations(m):
    """Every combination of "omitted" / "present with zero entries" for the EMPTY sections of `m`, group by group
    ({type, function, code}, {table, element}, {memory, data, data count}, {import}, {global}, {export}), the other
    groups omitted; plus all empty sections present at once.  [(tag, bytes)], first the encoding with all omitted."""
    import itertools
    from wasmgen import encode, Policy
    empties = [sid for sid in SECTION_NAMES if sid != 12 and not m.section_nonempty(sid)]
    if not m.datas and m.datacount is None:
        empties.append(12)
    out = [("min", encode(m))]
    seen = {out[0][1]}

    def add(present):
        pol = Policy("minimal", emit_empty=frozenset(x for x in present if x != 12) or False,
                     datacount=True if 12 in present else "auto")
        b = encode(m, pol)
        if b not in seen:
            seen.add(b)
            out.append(("min-empty-" + "+".join(SECTION_NAMES[x] for x in sorted(present)), b))
    for grp in EMPTY_GROUPS:
        mine = [x for x in grp if x in empties]
        for k in range(1, len(mine) + 1):
            for present in itertools.combinations(mine, k):
                add(present)
    add(tuple(empties))
    return out


def encodings_of_module(rng, m, nrand):
    """the body-level re-encodings of a fixed module (for the directed module)"""
    from wasmgen import encode, Policy
    out = [("min", encode(m)), ("max", encode(m, Policy("max")))]
    for mode in LOCALS_VARIANTS:
        out.append((f"min-locals-{mode}", encode(m, Policy("minimal", locals=mode))))
    out.append(("max-locals-zero_all", encode(m, Policy("max", locals="zero_all"))))
    out.append(("min-tblidx-two", encode(m, Policy("minimal", table_index_width=2))))
    out.append(("min-tblidx-five", encode(m, Policy("minimal", table_index_width=5))))
    for j in range(nrand):
        out.append((f"rnd{j}", encode(m, Policy("random", rng, locals="random"))))
    return out


DROP_FIELDS = re.compile(r"^(ok len=\d+|DS .*|dbg=\d+)$")


def canonical_locals(text):
    """`2:i64,0:i32,1:i64` -> `3:i64`: the grouping of the locals vector is encoding, the sequence of locals is content"""
    if text == "-":
        return "-"
    out = []
    for g in text.split(","):
        n, t = g.split(":")
        n = int(n)
        if n == 0:
            continue
        if out and out[-1][1] == t:
            out[-1][0] += n
        else:
            out.append([n, t])
    return ",".join("%d:%s" % (n, t) for n, t in out) or "-"


def normalise_dump(dump):
    """The decoded module without byte offsets and byte-level images: drop len, debug sections; per function drop
    start/hash/code, per global/segment the raw constant-expression bytes (bodies and constant expressions are
    compared through the emitted C)."""
    parts = []
    for p in dump.split(";"):
        if DROP_FIELDS.match(p):
            continue
        if p.startswith("F "):
            p = re.sub(r" start=\d+ hash=[0-9a-f]+", "", p)
            p = re.sub(r" code=\S+", "", p)
            p = re.sub(r" locals=(\S+)", lambda mm: " locals=" + canonical_locals(mm.group(1)), p)
        elif p.startswith("G "):          # G <vt> <mut> <init expr bytes>: immediates may be padded
            p = " ".join(p.split(" ")[:3])
        elif p.startswith("E "):          # E <table> <offset expr bytes> <funcs>
            q = p.split(" ")
            p = " ".join([q[0], q[1], q[3]])
        elif p.startswith("D "):          # D <mem> <passive> <offset expr bytes> <bytes>
            q = p.split(" ")
            p = " ".join([q[0], q[1], q[2], q[4]])
        parts.append(p)
    return ";".join(parts)


def same_class(real, model):
    """Equality of a real and a model answer, treating `allocation failed` (err 1: calloc of an absurd count) as
    'rejected with some error'."""
    if real == model:
        return True
    if real == "err 1" and model.startswith("err "):
        return True
    return False


def definitions(text):
    return sorted(x.strip() for x in re.split(r"\n\s*\n", text) if x.strip())


def translate(w2c2, d, tag, data, opts=("-t", "1")):
    sub = os.path.join(d, tag)
    os.makedirs(sub, exist_ok=True)
    wasm = os.path.join(sub, "m.wasm")
    with open(wasm, "wb") as f:
        f.write(data)
    p = subprocess.run([w2c2] + list(opts) + [wasm, os.path.join(sub, "m.c")], stdout=subprocess.PIPE, stderr=subprocess.PIPE,
                       timeout=120)
    if p.returncode != 0:
        return p.returncode, None
    texts = []
    for fn in sorted(os.listdir(sub)):
        if fn.endswith(".c") or fn.endswith(".h"):
            texts.append(open(os.path.join(sub, fn), errors="replace").read())
    return 0, definitions("\n\n".join(texts))


def run_modules(chk, d, repo, broken):
    from wasmgen import PROFILES, mutate
    tier = chk.tier
    nmod = 3 if tier == "quick" else 25
    nrand = 3 if tier == "quick" else 10
    exe = rd.build(repo, d)
    exe_san = rd.build(repo, d, sanitize=True)
    w2c2 = rd.build_w2c2(repo, d)
    enc_hist = collections.Counter()
    err_hist = collections.Counter()
    cases = []          # (group, tag, bytes, debug)
    groups = {}
    mods = {}
    for profile in PROFILES:
        for index in range(nmod):
            try:
                m, encs = encodings_of(chk.rng, chk.seed, profile, index, nrand)
            except Exception as e:      # generator bug: not ours to report as violation
                chk.notes.append(f"wasmgen failed on {chk.seed}:{profile}:{index}: {e}")
                continue
            g = f"{chk.seed}:{profile}:{index}"
            groups[g] = encs
            mods[g] = m
            for tag, b in encs:
                cases.append((g, tag, b, False))
                enc_hist[tag.split("@")[0].split(":")[0].rstrip("0123456789")] += 1
            # under -g the name section is parsed as well
            for tag, b in encs[:2] + encs[-1:] + [e for e in encs if e[0].startswith("namelike@") or e[0].startswith("names-")]:
                cases.append((g, tag + "+g", b, True))
    # the directed module: every kind of immediate, locals of four types
    dm = directed_immediates()
    groups["directed:immediates"] = encodings_of_module(chk.rng, dm, 4 if tier == "quick" else 24)
    mods["directed:immediates"] = dm
    for tag, b in groups["directed:immediates"]:
        cases.append(("directed:immediates", tag, b, False))
        enc_hist[tag.split("@")[0].split(":")[0].rstrip("0123456789")] += 1
    # empty vs omitted sections: every combination within each group of related sections
    for name, em in empty_modules().items():
        g = "empties:" + name
        groups[g] = empty_section_combinations(em)
        mods[g] = em
    if tier == "thorough":
        for g in [x for x in list(groups) if x.count(":") == 2 and not x.startswith("empties")]:
            extra = [e for e in empty_section_combinations(mods[g])[1:] if e[1] not in {b for _, b in groups[g]}]
            groups[g] = groups[g] + extra
            for tag, b in extra:
                cases.append((g, tag, b, False))
    for g in [x for x in groups if x.startswith("empties:")]:
        for tag, b in groups[g]:
            cases.append((g, tag, b, False))
            enc_hist["empty-combination"] += 1
    # every re-encoding is a valid module for the independent oracle (else the generator of encodings is wrong: tool failure)
    from wasmgen import v8
    nval = 0
    for g, encs in groups.items():
        for tag, b in encs:
            if tag.startswith("custom@"):
                continue
            err = v8.compile_error(b)
            nval += 1
            if err is not None:
                raise RuntimeError(f"wasmgen produced an encoding V8 rejects: {g} {tag}: {err} hex={b.hex()[:400]}")
    chk.coverage["v8_validated_encodings"] = nval
    imm_hist = collections.Counter()
    for g, m in mods.items():
        imm_hist.update(immediate_histogram(m))
    chk.coverage["immediate_kinds_in_modules"] = dict(imm_hist)
    # malformed stream: mutations and every truncation of the smallest encodings
    mal = []
    for g, encs in groups.items():
        base = encs[0][1]
        for _ in range(6 if tier == "quick" else 40):
            mb, tag = mutate.mutate(chk.rng, base)
            mal.append((g, "mut:" + tag, mb, chk.rng.random() < 0.3))
        if len(base) <= (400 if tier == "quick" else 4000):
            for k in range(1, len(base)):
                mal.append((g, f"trunc@{k}", base[:k], False))
    # hand-written malformed witnesses: the code-size wrap (reader.c:1482-1486), 1- and 2-function variants
    for name, hx in (("codesize-wrap-1", "0061736d01000000010401600000030201000a05010101017f"),
                     ("codesize-wrap-2", "0061736d0100000001040160000003030200000a08020101017f02000b")):
        mal.append(("witness", name, bytes.fromhex(hx), False))
    corpus = sorted(glob.glob(os.path.join(vlib.REPO, "tests", "gen", "*.wasm")))
    for f in corpus:
        data = open(f, "rb").read()
        mal.append(("corpus", os.path.basename(f), data, False))
        if tier == "thorough":
            mal.append(("corpus", os.path.basename(f) + "+g", data, True))
    allcases = cases + mal
    lines = [rd.line_for(b, dbg, False) for (_, _, b, dbg) in allcases]
    real, _ = rd.run_lines(exe, lines)
    model = vlib.DriverProc(READERDRIVER).batch(lines, timeout=1800)
    nmis = 0
    for i, (g, tag, b, dbg) in enumerate(allcases):
        chk.count_case(("dump", b, dbg), True,
                       {"module": g, "encoding": tag, "bytes": len(b), "real": real[i][:160], "model": model[i][:160]}
                       if i % 997 == 0 else None)
        err_hist[real[i].split(";")[0] if not real[i].startswith("ok") else "ok"] += 1
        ok = same_class(real[i], model[i])
        # a crash of the real reader must be predicted by the model as undefined behaviour; conversely, where the
        # model says the C code computes a pointer outside the file (code-size wrap, reader.c:1482-1486) the real
        # outcome is arbitrary: an error, a SIGSEGV, or nothing visible
        if model[i].startswith("ub ") and (real[i].startswith("crash") or model[i] == "ub codeSizeUnderflow"):
            ok = True
        if not ok:
            nmis += 1
            if nmis <= 5:
                broken.append({"kind": "correspondence",
                               "msg": f"reader-dump {g} {tag} debug={dbg}: real `{real[i][:200]}` model `{model[i][:200]}`",
                               "hex": b.hex()[:4000]})
    chk.coverage["reader_dump_cases"] = len(allcases)
    chk.coverage["reader_dump_mismatches"] = nmis
    chk.coverage["encoding_histogram"] = dict(enc_hist)
    chk.coverage["real_outcome_histogram"] = dict(err_hist.most_common(40))
    chk.coverage["corpus_files"] = len(corpus)
    # sanitizer verdict <-> model `ub` on a subset (instrumented reader is slower)
    sub = [i for i in range(len(allcases)) if allcases[i][0] != "corpus"][:: (7 if tier == "quick" else 6)]
    sub += [i for i in range(len(allcases)) if allcases[i][0] == "witness" and i not in sub]
    sub += [i for i in range(len(allcases)) if allcases[i][1].startswith("names-") and allcases[i][3] and i not in sub]
    slines = [rd.line_for(allcases[i][2], allcases[i][3], True) for i in sub]
    sreal, reports = rd.run_lines(exe_san, slines, sanitized=True)
    smodel = vlib.DriverProc(READERDRIVER).batch(slines, timeout=1800)
    san_hist = collections.Counter()
    for j, i in enumerate(sub):
        flagged = bool(reports.get(j)) or sreal[j].startswith("crash")
        mub = smodel[j].startswith("ub ")
        san_hist[(smodel[j].split(";")[0] if mub else "defined") + "/" + ("flagged" if flagged else "clean")] += 1
        if flagged and i < len(cases):
            # a VALID encoding on which the real reader performs an undefined operation (sanitizer report / crash)
            g, tag, b, dbg = allcases[i]
            chk.violation(f"valid-encoding-undefined-behaviour-{tag.split('@')[0].split(':')[0].rstrip('0123456789')}",
                          f"the sanitized real reader{' -g' if dbg else ''} reports an undefined operation on a valid encoding ({tag}) of module {g}: "
                          + str(reports.get(j) or sreal[j])[:200],
                          {"module": g, "encoding": tag, "hex": b.hex(), "mode": "reader-sanitized", "debug": dbg,
                           "replay_cmd": "python3 tools/check.py C08 --replay <this file>"}, True)
        if flagged != mub and smodel[j] != "ub codeSizeUnderflow":
            broken.append({"kind": "correspondence",
                           "msg": f"reader-dump(sanitized) {allcases[i][0]} {allcases[i][1]}: sanitizer {reports.get(j) or sreal[j][:60]} vs model `{smodel[j][:80]}`",
                           "hex": allcases[i][2].hex()[:4000]})
    chk.coverage["sanitized_reader_histogram"] = dict(san_hist)

    # ---- the property on the real code -------------------------------------------------------------
    idx = {(g, tag, dbg): i for i, (g, tag, b, dbg) in enumerate(cases)}
    ntrans = 0
    for g, encs in groups.items():
        ref = None
        for tag, b in encs:
            r = real[idx[(g, tag, False)]]
            if not r.startswith("ok"):
                chk.violation(f"valid-encoding-rejected-{tag.split('@')[0].split(':')[0]}",
                              f"the real reader rejects a valid encoding ({tag}) of generated module {g}: {r}",
                              {"module": g, "encoding": tag, "hex": b.hex(), "mode": "reader",
                               "replay_cmd": "python3 tools/check.py C08 --replay <this file>"}, True)
                continue
            n = normalise_dump(r)
            if ref is None:
                ref = (tag, n, b)
            elif n != ref[1]:
                chk.violation(f"decoded-module-differs-{tag.split('@')[0].split(':')[0]}",
                              f"two spec-equivalent encodings ({ref[0]} / {tag}) of module {g} decode to different modules in the real reader",
                              {"module": g, "encodings": [ref[0], tag], "hex": [ref[2].hex(), b.hex()], "mode": "reader-pair",
                               "replay_cmd": "python3 tools/check.py C08 --replay <this file>"}, True)
        # the same under -g for the name-like custom sections (reference: the minimal encoding under -g)
        if (g, "min+g", True) in idx:
            rg = real[idx[(g, "min+g", True)]]
            for tag, b in encs:
                if not tag.startswith("namelike@") or not rg.startswith("ok"):
                    continue
                r = real[idx[(g, tag + "+g", True)]]
                if not r.startswith("ok"):
                    chk.violation("valid-encoding-rejected-namelike-g",
                                  f"under -g the real reader rejects module {g} once a custom section that is not the name section is added ({tag}): {r}",
                                  {"module": g, "encoding": tag, "hex": b.hex(), "mode": "reader", "debug": True,
                                   "replay_cmd": "python3 tools/check.py C08 --replay <this file>"}, True)
                elif normalise_dump(r) != normalise_dump(rg):
                    chk.violation("decoded-module-differs-namelike-g",
                                  f"under -g a custom section that is not the name section ({tag}) changes the decoded module {g}",
                                  {"module": g, "encodings": ["min", tag], "hex": [encs[0][1].hex(), b.hex()], "mode": "reader-pair", "debug": True,
                                   "replay_cmd": "python3 tools/check.py C08 --replay <this file>"}, True)
            # name sections in front of the function section / twice: accepted under -g (their content may differ)
            for tag, b in encs:
                if tag.startswith("names-"):
                    r = real[idx[(g, tag + "+g", True)]]
                    if not r.startswith("ok"):
                        chk.violation(f"valid-encoding-rejected-{tag}-g",
                                      f"under -g the real reader rejects module {g} because of the position / number of its name sections ({tag}): {r}",
                                      {"module": g, "encoding": tag, "hex": b.hex(), "mode": "reader", "debug": True,
                                       "replay_cmd": "python3 tools/check.py C08 --replay <this file>"}, True)
        # metamorphic run of the real translator
        fixed = [e for e in encs if e[0] in ("min", "max") or e[0].startswith("min-") or e[0].startswith("max-")]
        fixed += [e for e in encs if e[0].startswith("names-")]
        customs = [e for e in encs if e[0].startswith("custom@")]
        rnds = [e for e in encs if e[0].startswith("rnd")]
        pick = fixed + customs[::4] + rnds
        namelike = [e for e in encs if e[0].startswith("namelike@")]
        if tier == "quick":
            pick = fixed + rnds[-2:]
            namelike = [e for k, e in enumerate(namelike) if k % 3 == zlib.crc32(g.encode()) % 3 or "-name:" in e[0]]
        nameseq = [e for e in encs if e[0].startswith("names-")]
        for opts, sel in ((("-t", "1"), pick + namelike), (("-g", "-t", "1"), [encs[0]] + namelike), (("-g", "-t", "1"), nameseq)):
            refdefs = None
            gflag = "-g" in opts
            only_rc = sel is nameseq        # the names differ by construction: acceptance only
            sfx = "-g" if gflag else ""
            for tag, b in sel:
                rc, defs = translate(w2c2, d, f"{g.replace(':', '_')}_{re.sub(r'[^A-Za-z0-9]+', '_', tag)}{sfx.replace('-', '_')}", b, opts)
                ntrans += 1
                chk.count_case(("translate", b, gflag), True, None)
                kind = tag.split('@')[0].split(':')[0].rstrip('0123456789') + sfx
                if rc != 0:
                    chk.violation(f"translator-rejects-{kind}",
                                  f"w2c2 {' '.join(opts)} exits {rc} on a valid encoding ({tag}) of module {g}",
                                  {"module": g, "encoding": tag, "hex": b.hex(), "mode": "translate", "opts": list(opts),
                                   "replay_cmd": "python3 tools/check.py C08 --replay <this file>"}, True)
                    continue
                if only_rc:
                    continue
                if refdefs is None:
                    refdefs = (tag, defs, b)
                elif defs != refdefs[1]:
                    a = collections.Counter(refdefs[1])
                    c = collections.Counter(defs)
                    diff = list((a - c).elements())[:2] + list((c - a).elements())[:2]
                    chk.violation(f"emitted-definitions-differ-{kind}",
                                  f"w2c2 {' '.join(opts)} emits different C definitions for two spec-equivalent encodings ({refdefs[0]} / {tag}) of module {g}",
                                  {"module": g, "encodings": [refdefs[0], tag], "hex": [refdefs[2].hex(), b.hex()], "opts": list(opts),
                                   "first_differences": [x[:400] for x in diff], "mode": "translate-pair",
                                   "replay_cmd": "python3 tools/check.py C08 --replay <this file>"}, True)
    chk.coverage["translator_runs"] = ntrans
    chk.coverage["modules"] = len(groups)
    run_behaviour(chk, d, repo, w2c2, groups, mods, tier)
    return len(allcases)


def immediate_histogram(m):
    """how many instructions of each immediate kind (wasmgen OPS[..].imm) and how many locals groups the module has"""
    import wasmgen.wasm_ast as A
    h = collections.Counter()

    def walk(seq):
        for i in seq:
            k = A.OPS[i.op].imm
            if k != "none":
                h[k + ("/prefixed" if A.OPS[i.op].prefix is not None else "")] += 1
            elif A.OPS[i.op].prefix is not None:
                h["prefixed-subopcode"] += 1
            if i.body is not None:
                walk(i.body)
            if i.else_body is not None:
                walk(i.else_body)
    for f in m.funcs:
        walk(f.body)
        h["locals-groups"] += len(f.locals)
        h["locals-zero-groups-in-module"] += sum(1 for n, _ in f.locals if n == 0)
    return h


BEHAVIOUR_VARIANTS = ("max-locals-zero_all", "min-locals-zero_lead", "min-tblidx-five", "rnd")


def run_behaviour(chk, d, repo, w2c2, groups, mods, tier):
    """Run-time results of re-encoded modules: the module runs in V8 (minimal encoding), the re-encodings are translated by
    the real w2c2, compiled and run on the same call script."""
    import e2e
    from wasmgen import v8, arg_vectors
    work = os.path.join(d, "behaviour")
    os.makedirs(work, exist_ok=True)
    names = list(groups)
    per_profile = 1 if tier == "quick" else 4
    chosen = [g for g in names if g.startswith("directed")]
    seen = collections.Counter()
    for g in names:
        parts = g.split(":")
        if len(parts) == 3 and seen[parts[1]] < per_profile and parts[1] != "names":
            seen[parts[1]] += 1
            chosen.append(g)
    nrun = 0
    for g in chosen:
        m = mods[g]
        encs = dict(groups[g])
        arng = random.Random("c08:%s:args" % g)
        calls = list(m.meta.get("calls") or [])
        for nm, f in m.meta["exports"]:
            calls += [(nm, v) for v in arg_vectors(arng, m, f, 3 if tier == "quick" else 6)]
        calls = calls[:40]
        imp = m.meta["imports_spec"]
        base = None           # real run of the minimal encoding, computed when a re-encoding disagrees with V8
        vr = v8.run(encs["min"], calls, imp, mem_hash=True, module=m)
        for k, r in enumerate(vr.results):
            if r[0] == "trap" and r[1] in e2e.V8_ONLY_TRAPS:     # outside the property (w2c2 does no bounds checks)
                calls = calls[:k]
                vr = v8.run(encs["min"], calls, imp, mem_hash=True, module=m)
                break
        if vr.instantiate[0] != "ok":
            continue
        tags = [t for t in encs if any(t.startswith(v) for v in BEHAVIOUR_VARIANTS)]
        if not g.startswith("directed"):
            tags = tags[:2] if tier == "quick" else tags[:3] + tags[-2:]
        for tag in tags:
            b = encs[tag]
            name = "b" + re.sub(r"[^A-Za-z0-9]", "", g + tag)[-40:]
            tr = e2e.translate(w2c2, work, name, b, ("-t", "1"))
            nrun += 1
            chk.count_case(("behaviour", b), True, None)
            if not tr.ok:
                chk.violation(f"translator-rejects-{tag.rstrip('0123456789')}",
                              f"w2c2 fails on a valid encoding ({tag}) of module {g}: {tr.stderr[-200:]}",
                              {"module": g, "encoding": tag, "hex": b.hex(), "mode": "translate",
                               "replay_cmd": "python3 tools/check.py C08 --replay <this file>"}, True)
                continue
            rr = e2e.run_real(repo, work, w2c2, m, calls, imp, translated=tr)
            diffs, info = e2e.compare(rr, vr)
            if diffs:
                # a disagreement that the minimal encoding shows as well is not about the encoding (other properties)
                if base is None:
                    trb = e2e.translate(w2c2, work, name + "base", encs["min"], ("-t", "1"))
                    base = e2e.compare(e2e.run_real(repo, work, w2c2, m, calls, imp, translated=trb), vr)[0] if trb.ok else [{"kind": "w2c2_error"}]
                if json.dumps(base, default=str, sort_keys=True) == json.dumps(diffs, default=str, sort_keys=True):
                    chk.notes.append(f"behaviour: {g} differs from V8 in every encoding alike ({diffs[0].get('kind')}): not an encoding matter")
                    continue
                chk.violation(f"behaviour-differs-{tag.rstrip('0123456789')}",
                              f"the compiled translation of encoding {tag} of module {g} does not behave like the module (V8): "
                              + json.dumps(diffs[0], default=str)[:300],
                              {"module": g, "encoding": tag, "hex": b.hex(), "reference_hex": encs["min"].hex(),
                               "calls": [[n.hex(), [[t, v] for t, v in a]] for n, a in calls], "imports_spec": imp,
                               "diffs": json.loads(json.dumps(diffs[:3], default=str)), "mode": "behaviour",
                               "replay_cmd": "python3 tools/check.py C08 --replay <this file>"}, True)
    chk.coverage["behaviour_runs"] = nrun


def run(tier):
    chk = vlib.Check(PROP, tier)
    chk.coverage["trusted_base"] = list(vlib.GLOBAL_TRUSTED) + [
        "tools/extract/gen_reader.py (regex extraction of the reader's constants; shapes it does not recognise stop with EXTRACT-FAIL)",
        "Model.Reader is hand-written from reader.c; tied by the reader-dump correspondence (exact dump / error code) on every run",
        "SHA-1 is an uninterpreted function of the hashed byte range in the model (computed by the driver for the dump)",
        "calloc/realloc succeed (a failed allocation is only ever reported as `allocation failed`)",
        "wasmgen encoder/generator (tools/wasmgen, self-tested against V8) defines which byte strings are valid encodings in the correspondence; every re-encoding used here is additionally validated by V8",
        "tools/extract/gen_instr.py (which primitives each immediate reader calls, which reader each opcode case of c.c uses, the loop shape of wasmLocalsDeclarationsGetType; unknown shapes stop with EXTRACT-FAIL); Model.Instr is tied to the real readers by the `imm` correspondence, the opcode -> reader table by the metamorphic runs of the real w2c2",
    ]
    chk.assumptions = ["function bodies: encoding independence of the emitted C is checked by running the real translator on encoding pairs "
                       "(metamorphic), the body-level theorem `emit_encoding_independent` belongs to the emitter model (C03)"]
    pr = prove(chk, MODULES, GENS)
    broken = []
    if not pr["build_ok"]:
        broken += pr["errors"]
    ok, out = vlib.lake_build(["readerdriver"])
    if not ok:
        broken.append({"kind": "driver-build", "msg": out[-2000:]})
    chk.coverage["rule"] = ("leb: a case is (decoder, byte string); every string of length <= 2, every continuation-bit pattern of 1..11 bytes "
                            "with 9 boundary payload fillings + random, random valid encodings with random padding and tails; compared: value "
                            "bits, bytes consumed, bytes left, UBSan verdict. reader-dump: a case is (file image, -g flag); generated modules "
                            "(8 wasmgen profiles) x {minimal, maximal, random LEB widths, empty sections emitted, data flag 0/2, a custom section "
                            "at each of the 13 boundaries with names name/.debug_x/empty/..., random customs, locals vector regrouped "
                            "(zero-count groups first/middle/last, split, merged), call_indirect table index in 2 and 5 bytes}, a directed "
                            "module with every kind of immediate, mutated and truncated images, "
                            "all /repo/tests/gen/*.wasm; compared: full struct dump or error code. imm: a case is (reader, bytes) — every "
                            "immediate reader on minimal/maximal/2-byte/random paddings with tails, all truncations, random bytes; all "
                            "one- and two-byte block types; (locals vector, index) with zero-count groups anywhere, totals up to 2^32-1. "
                            "translate / behaviour: real w2c2 on every re-encoding (definitions compared), compiled output vs V8 on a "
                            "subset. Non-trivial = distinct case.")
    with vlib.scratch("c08-") as d:
        repo = vlib.copy_repo(os.path.join(d, "repo"))
        if ok:
            try:
                run_leb(chk, d, repo, broken)
                run_imm(chk, d, repo, broken)
                run_modules(chk, d, repo, broken)
            except RuntimeError as e:
                broken.append({"kind": "harness", "msg": str(e)[-1500:]})
    chk.coverage["traces_validated_against_impl"] = chk.coverage["evaluations"]
    if tier == "thorough" and pr["build_ok"]:
        for m, msg in leanchecker(chk, MODULES):
            broken.append({"kind": "leanchecker", "msg": f"{m}: {msg}"})
    if broken and not chk.violations and not chk.known_hit:
        chk.violation("tie-or-proof-broken",
                      "a proof obligation or a correspondence of C08 no longer checks; the metamorphic search over encodings found no "
                      "pair of spec-equivalent encodings that the real reader/translator treats differently",
                      {"broken": broken[:20]}, False)
    elif broken:
        chk.notes.append({"broken": broken[:10]})
    return chk.finish()


def replay(path):
    r = json.load(open(path))
    mode = r.get("mode")
    with vlib.scratch("c08r-") as d:
        repo = vlib.copy_repo(os.path.join(d, "repo"))
        dbg = bool(r.get("debug"))
        opts = tuple(r.get("opts") or ("-t", "1"))
        if mode == "reader":
            exe = rd.build(repo, d)
            out, _ = rd.run_lines(exe, [rd.line_for(bytes.fromhex(r["hex"]), dbg)])
            print("real reader:", out[0][:300])
            return 0 if out[0].startswith("ok") else 1
        if mode == "reader-sanitized":
            exe = rd.build(repo, d, sanitize=True)
            out, reports = rd.run_lines(exe, [rd.line_for(bytes.fromhex(r["hex"]), dbg, True)], sanitized=True)
            bad = bool(reports.get(0)) or out[0].startswith("crash")
            print("sanitized real reader:", out[0][:200], reports.get(0))
            return 1 if bad else 0
        if mode == "reader-pair":
            exe = rd.build(repo, d)
            out, _ = rd.run_lines(exe, [rd.line_for(bytes.fromhex(h), dbg) for h in r["hex"]])
            a, b = [normalise_dump(x) for x in out]
            print("decoded modules equal:", a == b)
            return 0 if a == b else 1
        if mode == "translate":
            w = rd.build_w2c2(repo, d)
            rc, _ = translate(w, d, "r", bytes.fromhex(r["hex"]), opts)
            print("w2c2 exit status:", rc)
            return 0 if rc == 0 else 1
        if mode == "behaviour":
            import e2e
            import e2e_common as ec
            from wasmgen import v8
            w = rd.build_w2c2(repo, d)
            m, ref, imp, _ = ec.load_module({"hex": r["reference_hex"], "imports_spec": r.get("imports_spec") or {}})
            calls = [(bytes.fromhex(n), [(t, int(v)) for t, v in a]) for n, a in r["calls"]]
            vr = v8.run(ref, calls, imp, mem_hash=True, module=m)
            tr = e2e.translate(w, d, "replay", bytes.fromhex(r["hex"]), ("-t", "1"))
            if not tr.ok:
                print("w2c2 fails on the re-encoded module:", tr.stderr[-300:])
                return 1
            rr = e2e.run_real(repo, d, w, m, calls, imp, translated=tr)
            diffs, _ = e2e.compare(rr, vr)
            print("re-encoded module behaves like the module in V8:", not diffs, json.dumps(diffs[:2], default=str)[:600])
            return 1 if diffs else 0
        if mode == "translate-pair":
            w = rd.build_w2c2(repo, d)
            res = [translate(w, d, "r%d" % i, bytes.fromhex(h), opts) for i, h in enumerate(r["hex"])]
            same = res[0] == res[1]
            print("emitted definitions equal:", same)
            return 0 if same else 1
        if r.get("line"):
            plain, _ = lh.build(repo, d)
            print(lh.run_plain(plain, [r["line"]]))
            return 1
    print("nothing to replay in", path, "(no failing input was found):", json.dumps(r.get("broken", ""))[:600])
    return 1
