"""C19, WASI host side: wasi/wasi.c must reach every 16/32/64-bit field of guest memory through the endian-aware accessor
functions and touch `memory->data` only for bytes.

  * proof side: tools/extract/gen_wasi_raw.py -> Gen/WasiRaw.lean (every raw touch, every accessor call of the CURRENT wasi.c),
    Props/C19Wasi.lean (every raw touch moves bytes; accessor calls = the multi-byte cells of the witx ABI, width for width) —
    registered in memcheck.CFG["C19"]["modules"] / gens, built and audited by common.prove with the rest of C19;
  * real side (this file): tools/harness/wasi_endian.{c,py} — the real wasi.c built little-endian and forced big-endian, driven by
    the same generated call sequences; every result field read back through the accessors of the same build must have the same
    value in both.  A difference is a failing input: the call sequence (episode) and the field.
"""
import json
import os
import sys
import time

import vlib

sys.path.insert(0, os.path.join(vlib.TOOLS, "harness"))

RULE = ("wasi-endian: generated WASI call sequences (both ABI name spaces; files opened with every fdflag; read/write/pread/pwrite/seek/tell; "
        "fd/path filestat; prestat; readdir incl. resumption by cookie; clocks; args/environ; readlink; random) on the real wasi.c built "
        "little-endian and forced big-endian; case = (function, ABI, field, value); compared: the field read back through the accessors of "
        "each build at its witx offset (host-determined values against the harness's own stat()/clock readings)")
# fields that MUST have been seen with a value that a byte reversal of their width changes (otherwise the run proves nothing for them)
REQUIRED = [("fd_fdstat_get", "fs_flags"), ("fd_fdstat_get", "fs_rights_base"), ("fd_fdstat_get", "fs_rights_inheriting"),
            ("fd_filestat_get", "ino"), ("fd_filestat_get", "size"), ("fd_filestat_get", "mtim"), ("path_filestat_get", "ino"),
            ("path_filestat_get", "size"), ("path_filestat_get", "mtim"), ("path_filestat_get", "nlink"), ("fd_prestat_get", "pr_name_len"),
            ("fd_readdir", "dirent"), ("fd_write", "nwritten"), ("fd_read", "nread"), ("fd_pread", "nread"), ("fd_pwrite", "nwritten"),
            ("fd_seek", "newoffset"), ("fd_tell", "offset"), ("clock_time_get", "time(clock 0)"), ("clock_res_get", "resolution(clock 0)"),
            ("args_sizes_get", "count"), ("args_get", "pointer[0]"), ("environ_get", "pointer[0]"), ("path_open", "fd"), ("path_readlink", "bufused")]


def _run_both(we, exes, d, tag, spec, args, env, cmds):
    """fresh per-build roots over the shared read-only tree -> {build: (rc, out, err)}"""
    ro = os.path.join(d, "we-ro-" + tag)
    if not os.path.isdir(ro):
        we.make_tree(ro, spec)
    res = {}
    for b in ("le", "be"):
        root = os.path.join(d, "we-%s-%s" % (tag, b))
        we.make_root(root, ro)
        res[b] = we.run(exes[b], root, cmds, args, env)
    return res


def run(chk, repo, d, tier, broken):
    import wasi_endian as we
    t0 = time.time()
    try:
        exes = {"le": we.build(repo, d, False), "be": we.build(repo, d, True)}
    except Exception as e:
        broken.append({"kind": "harness-build", "msg": "wasi-endian: " + str(e)[-1200:]})
        return
    spec = we.tree_spec(chk.rng)
    args, env, eps = we.scenario(chk.rng, 60 if tier == "quick" else 1500)
    cmds = [c for e in eps for c in e.cmds]
    res = _run_both(we, exes, d, "full", spec, args, env, cmds)
    stats = {}
    seen_dist = set()
    died = {b: res[b][0] != 0 for b in res}
    if died["le"]:
        broken.append({"kind": "harness-run", "msg": "wasi-endian: the little-endian build exited %d: %s" % (res["le"][0], res["le"][2])})
    n_diff = 0
    for e in eps:
        eo = e.obj()
        rows, diffs = we.compare(eo, res["le"][1], res["be"][1])
        calls = {}
        for f in eo["fields"]:
            if f["kind"] == "errno":
                calls[f["fn"]] = calls.get(f["fn"], 0) + 1
        for fn, n in calls.items():
            stats.setdefault(fn, {"calls": 0, "fields": 0, "distinguishing": 0})["calls"] += n
        for lab, fn, abi, field, text, dist in rows:
            if field == "errno":
                continue
            st = stats.setdefault(fn, {"calls": 0, "fields": 0, "distinguishing": 0})
            st["fields"] += 1
            st["distinguishing"] += 1 if dist else 0
            if dist:
                seen_dist.add((fn, field.split(".")[0]))
            chk.count_case(("wasi-endian", fn, abi, field, text), dist,
                           {"wasi-endian": eo["name"], "field": fn + "." + field, "value": text[:80]} if dist and st["distinguishing"] in (1, 7) and fn in ("fd_fdstat_get", "fd_filestat_get", "fd_readdir", "fd_seek") else None)
        if not diffs:
            continue
        n_diff += 1
        if n_diff > 12:
            continue
        # confirm on the episode alone (fresh roots): the replay is then just this call sequence
        alone = _run_both(we, exes, d, "ep%d" % eo["id"], spec, args, env, eo["cmds"])
        _, diffs1 = we.compare(eo, alone["le"][1], alone["be"][1])
        if diffs1:
            use_cmds, use_diffs, scope = eo["cmds"], diffs1, "episode"
        else:
            use_cmds, use_diffs, scope = cmds, diffs, "whole-run"
        lab, fn, abi, field, tle, tbe = use_diffs[0]
        crashed = "<missing>" in (tle, tbe) or "<absent>" in (tle, tbe)
        key = "wasi-endian-%s-%s" % (fn, "crash" if crashed else field.split("(")[0].split(".")[0].replace(" ", "_"))
        what = ("WASI host, %s (%s), call sequence `%s`: field %s read back through the accessors is `%s` in the little-endian build and `%s` in the "
                "forced big-endian build (-DWASM_ENDIAN=WASM_BIG_ENDIAN): the host wrote or read it in host byte order instead of through an accessor "
                "of its width" % (fn, abi, eo["name"], field, tle, tbe))
        chk.violation(key, what, {"wasi_endian": {"tree": spec, "args": args, "env": env, "scope": scope,
                                                    "episode": {"id": eo["id"], "name": eo["name"], "cmds": use_cmds, "fields": eo["fields"]}},
                                  "field": fn + "." + field, "le": tle, "be": tbe,
                                  "all_differences": [{"field": x[1] + "." + x[3], "le": x[4], "be": x[5]} for x in use_diffs[:20]]}, True)
    if died["be"] and not chk.violations:
        broken.append({"kind": "harness-run", "msg": "wasi-endian: the forced big-endian build exited %d: %s" % (res["be"][0], res["be"][2])})
    missing = [("%s.%s" % r) for r in REQUIRED if r not in seen_dist]
    if missing and not died["le"]:
        broken.append({"kind": "harness-power", "msg": "wasi-endian: no value that a byte reversal would change was observed for " + ", ".join(missing)})
    chk.coverage["wasi_endian"] = {"episodes": len(eps), "commands": len(cmds), "per_function": stats, "differences": n_diff,
                                   "seconds": round(time.time() - t0, 1)}
    chk.coverage["wasi_endian"]["rule"] = RULE
    chk.coverage["trusted_base"].append("tools/extract/gen_wasi_raw.py lists EVERY raw touch and accessor call of wasi.c (any use of a wasmMemory variable, of `->data` "
                                        "or of an alias that it cannot classify is an EXTRACT-FAIL); exercised on every run by wasi-endian on the real code. Forced "
                                        "big-endian models a big-endian host only for cells that host and guest access with the same width")
    # the regenerated tables, for the evidence
    try:
        import gen_wasi_raw
        ctx = gen_wasi_raw.collect(repo)
        ops = {}
        for r in ctx.raw:
            ops[r["op"].split(" ")[0] + ":" + r["other"].split(" ")[0]] = ops.get(r["op"].split(" ")[0] + ":" + r["other"].split(" ")[0], 0) + 1
        chk.coverage["wasi_raw_touches"] = {"rows": len(ctx.raw), "by_op_and_operand": ops, "accessor_calls": len(ctx.acc),
                                            "functions": len({r["fn"] for r in ctx.raw} | {a["fn"] for a in ctx.acc})}
    except Exception as ex:
        chk.coverage["wasi_raw_touches"] = {"extract_fail": str(ex)[:300]}


def replay(obj):
    import wasi_endian as we
    r = obj["wasi_endian"]
    ep = r["episode"]
    with vlib.scratch("c19w-") as d:
        repo = vlib.copy_repo(os.path.join(d, "repo"))
        exes = {"le": we.build(repo, d, False), "be": we.build(repo, d, True)}
        res = _run_both(we, exes, d, "replay", [tuple(s) for s in r["tree"]], r["args"], r["env"], ep["cmds"])
        _, diffs = we.compare(ep, res["le"][1], res["be"][1])
    print("replay wasi-endian `%s` (%d commands): %d field(s) differ between the little-endian and the forced big-endian build"
          % (ep["name"], len(ep["cmds"]), len(diffs)))
    for lab, fn, abi, field, tle, tbe in diffs[:10]:
        print("  %s.%s (%s): little-endian `%s`  forced big-endian `%s`" % (fn, field, abi, tle, tbe))
    return 1 if diffs else 0
