"""Shared by the checks C03, C04, C06, C09, C11: module specs (generated / corpus), call scripts, the
parallel e2e job runner (real w2c2 -> cc -> run  vs  V8), the emit-tokens batch, evidence helpers."""
import json
import multiprocessing
import os
import random
import re
import shutil
import time

import vlib
import e2e
import emit_tokens as et
import opmods
from wasmgen import module_for, encode, arg_vectors, decode, v8
from wasmgen import wasm_ast as A

GENS = [("Macros", "gen_macros"), ("EmitTable", "gen_emit")]
CORPUS = os.path.join(vlib.TOOLS, "corpus")


# ------------------------------------------------------------------------------- proof part (optional)
def prove_if_present(chk, names, gens=None):
    """Build + audit the Props modules that exist; without any the check is a translation validation."""
    import common
    mods = ["W2c2Verif.Props." + n for n in names
            if os.path.exists(os.path.join(vlib.LEAN, "W2c2Verif", "Props", n + ".lean"))]
    res = {"modules": mods, "driver_ok": True, "build_ok": True, "errors": []}
    gens = gens or GENS
    if mods:
        pr = common.prove(chk, mods, gens)
        res.update(pr)
        res["modules"] = mods
    else:
        g = vlib.regenerate(gens)
        for name, r in g.items():
            if not r["ok"]:
                res["errors"].append({"kind": "extract-fail", "gen": name, "msg": r["error"]})
        ok, out = vlib.lake_build(["driver"])
        res["driver_ok"] = ok and not res["errors"]
        if not ok:
            res["errors"].append({"kind": "driver-build", "msg": out[-2000:]})
        chk.notes.append("theorems pending")
    if chk.coverage["obligations"] == 0:
        chk.level = "translation_validation"
    return res


# ------------------------------------------------------------------------------- module specs
def spec_id(spec):
    if "hex" in spec:
        return (spec.get("id") or ("hex:" + spec["hex"][:24])) + ("+nostart" if spec.get("no_start") else "")
    return "%s:%s:%d%s" % (spec["seed"], spec["profile"], spec["index"], ("+core" if spec.get("core_variant") else "") + ("+nostart" if spec.get("no_start") else ""))


def load_module(spec):
    """spec = {'seed','profile','index'} (wasmgen.module_for) or {'hex', 'imports_spec'?} -> (module, bytes, imports_spec, exports)"""
    if "hex" in spec:
        b = bytes.fromhex(spec["hex"])
        m = decode(b)
        imp = spec.get("imports_spec") or {}
        imp = {"globals": {int(k): int(v) for k, v in (imp.get("globals") or {}).items()}}
        exports = []
        seen = set()
        for e in m.exports:
            if e.kind == "func" and bytes(e.name) not in seen:
                seen.add(bytes(e.name))
                exports.append((bytes(e.name), e.index))
        if spec.get("no_start") and m.start is not None:
            m.start = None
            b = encode(m)
        return m, b, imp, exports
    m = module_for(spec["seed"], spec["profile"], spec["index"])
    if spec.get("core_variant"):
        meta = m.meta
        m = core_variant(m, m.meta["imports_spec"])
        m.meta = meta
    if spec.get("no_start"):
        m.start = None
    if spec.get("rename_exports"):
        # -m collides with exports called f<N> (a recorded finding of C09): use neutral names
        ren = {}
        for e in m.exports:
            new = b"x_" + bytes(e.name)
            ren[bytes(e.name)] = new
            e.name = new
        m.meta["exports"] = [(ren.get(bytes(n), n), f) for n, f in m.meta["exports"]]
    return m, encode(m), m.meta["imports_spec"], list(m.meta["exports"])


def make_calls(spec, module, exports, per_func=3, cap=48):
    rng = random.Random("%s:args" % spec_id(spec))
    per = []
    for nm, f in exports:
        per.append([(nm, v) for v in arg_vectors(rng, module, f, per_func)])
    calls = []
    k = 0
    while any(per) and len(calls) < cap:       # round robin so that state carried between functions is exercised
        if per[k % len(per)]:
            calls.append(per[k % len(per)].pop(0))
        k += 1
    if "calls" in spec:
        calls = [(bytes.fromhex(n), [(t, int(b)) for t, b in a]) for n, a in spec["calls"]]
    return calls


def corpus_specs(prop):
    d = os.path.join(CORPUS, prop)
    out = []
    if os.path.isdir(d):
        for f in sorted(os.listdir(d)):
            if f.endswith(".json"):
                s = json.load(open(os.path.join(d, f)))
                s.setdefault("id", "corpus/%s/%s" % (prop, f))
                s["corpus"] = f
                out.append(s)
    return out


def gen_specs(seed, profile, n, start=0, **extra):
    return [dict(seed=str(seed), profile=profile, index=start + i, **extra) for i in range(n)]


class Env(object):
    """Scratch copy of /repo + the real w2c2 built from it."""

    def __init__(self, d):
        self.dir = d
        self.repo = vlib.copy_repo(os.path.join(d, "repo"))
        self.w2c2 = opmods.build_w2c2(self.repo, d)
        self.join = et.EnumJoin(self.repo)
        self.work = os.path.join(d, "work")
        os.makedirs(self.work, exist_ok=True)
        # private copy of the Lean driver (other checks may rebuild lean/.lake concurrently)
        self.driver = os.path.join(d, "driver")
        with vlib.lake_lock():
            if os.path.exists(vlib.DRIVER):
                shutil.copy2(vlib.DRIVER, self.driver)
            else:
                self.driver = None

    def tuple(self):
        return (self.repo, self.w2c2, self.work)


# ------------------------------------------------------------------------------- e2e jobs (worker side)
def _init_worker():
    v8._default = None        # every worker talks to its own node process


def v8_dict(r):
    return {"instantiate": r.instantiate, "results": r.results, "host_log": r.host_log, "mem": r.mem,
            "globals": {k.hex(): v for k, v in r.globals.items()}, "messages": r.messages[:3]}


def slim(real):
    d = real.to_dict()
    d.pop("host_calls", None)
    return d


def classify_build_error(msg):
    m = re.search(r"[‘'`](s[ijfd]\d+)[’'`] undeclared", msg) or re.search(r"undeclared identifier '(s[ijfd]\d+)'", msg)
    if m:
        return "stack-slot-used-but-never-declared"
    if "redefinition of" in msg or "conflicting types" in msg:
        return "duplicate-c-identifier"
    return "generated-c-does-not-compile"


def e2e_job(job):
    """One module: V8 run + one real run per build; returns plain data.
    job: spec, env=(repo, w2c2, work), per_func, opts, builds=[(cc, copts, sanitize)], two_instances, init_dump"""
    spec = job["spec"]
    repo, w2c2, work = job["env"]
    t0 = time.time()
    out = {"id": spec_id(spec), "spec": spec, "builds": [], "error": None}
    try:
        m, b, imp, exports = load_module(spec)
        calls = make_calls(spec, m, exports, job.get("per_func", 3), job.get("cap", 48))
        out["ncalls"] = len(calls)
        out["ops"] = e2e.op_histogram(m)
        out["shape"] = shape_of(m)
        vr = v8.run(b, calls, imp, mem_hash=True, module=m)
        out["truncated_at"] = None
        for k, r in enumerate(vr.results):
            if r[0] == "trap" and r[1] in e2e.V8_ONLY_TRAPS:
                # w2c2 does no bounds/signature checks: the call is outside the properties; run the script up to it
                out["truncated_at"] = (k, r[1])
                calls = calls[:k]
                vr = v8.run(b, calls, imp, mem_hash=True, module=m)
                break
        out["ncalls"] = len(calls)
        out["calls_made"] = [[n.decode("latin-1"), [[t, b] for t, b in a]] for n, a in calls]
        out["v8"] = v8_dict(vr)
        out["v8_traps"] = sum(1 for r in vr.results if r[0] == "trap")
        v0 = None
        if job.get("init_dump"):
            v0 = v8.run(b, [], imp, mem_hash=True, module=m)
            out["v8_init"] = v8_dict(v0)
        name = "m" + re.sub(r"\W", "_", spec_id(spec))[-40:] + "_%d" % os.getpid()
        tr = e2e.translate(w2c2, work, name, b, job.get("opts", ()))
        out["w2c2_stderr"] = tr.stderr[-300:] if not tr.ok else ""
        if tr.ok:
            ctext = "".join(open(f).read() for f in tr.cfiles)
            out["c_flags"] = {"LOAD_DATA": ctext.count("LOAD_DATA("), "InitMemories": "InitMemories(" in ctext,
                              "InitTables": "InitTables(" in ctext, "InitGlobals": "InitGlobals(" in ctext}
        try:
            base = None
            rrs = []
            for (cc, copts, san) in job["builds"]:
                rr = e2e.run_real(repo, work, w2c2, m, calls, imp, cc=cc, copts=tuple(copts), sanitize=san, translated=tr,
                                  init_dump=bool(job.get("init_dump")), keep_mem=bool(job.get("keep_mem")))
                diffs, info = e2e.compare(rr, vr)
                if rr.mem_bytes is not None and any(d["kind"] == "memory" for d in diffs) and rr.mem["pages"] == vr.mem["pages"]:
                    if nan_only_diff(rr.mem_bytes, v8_mem_bytes(m, b, calls, imp, len(rr.mem_bytes))):
                        diffs = [d for d in diffs if d["kind"] != "memory"]
                        out["nan_only_memory_difference"] = True
                ent = {"build": [cc, list(copts), san], "diffs": diffs, "info": info, "real": slim(rr)}
                if rr.instantiate[0] == "build_error":
                    ent["build_error_class"] = classify_build_error(rr.instantiate[1])
                if job.get("init_dump") and rr.init is not None and rr.init.get("mem_bytes") is not None:
                    data = rr.init["mem_bytes"]
                    ent["init_mem_sparse"] = str(len(data)) + "".join("/%d:%s" % (mm.start(), mm.group(0).hex()) for mm in re.finditer(rb"[^\x00]+", data))
                if job.get("init_dump") and rr.init is not None and v0 is not None:
                    ent["init_diffs"] = init_diffs(m, imp, rr, v0, b)
                if rr.table is not None and rr.instantiate == ("ok",):
                    exp = e2e.expected_table(m, imp)
                    if exp is not None and exp != rr.table:
                        ent.setdefault("init_diffs", []).append({"kind": "table", "real": rr.table, "spec": exp})
                if any(v is False for v in rr.bound.values()):
                    ent.setdefault("init_diffs", []).append({"kind": "import-not-bound", "real": rr.bound})
                if rr.mem_accessor_ok is False:
                    ent.setdefault("init_diffs", []).append({"kind": "memory-export-accessor", "real": "accessor != instance field"})
                if job.get("memdiag") and any(d["kind"] == "memory" for d in diffs) and rr.mem_bytes is not None:
                    ent["memdiag"] = mem_diag(m, b, calls, imp, rr)
                out["builds"].append(ent)
                if base is None:
                    base = rr
                rrs.append(((cc, list(copts), san), rr))
            if job.get("cross_build"):
                out["cross"] = cross_build(rrs)
            if job.get("two_instances") and base is not None and base.instantiate == ("ok",):
                out["two"] = two_instances(repo, work, w2c2, m, calls, imp, tr, base, job["builds"][0], spec)
        finally:
            if tr.dir:
                shutil.rmtree(tr.dir, ignore_errors=True)
    except (e2e.E2EError, v8.V8Error) as ex:
        out["error"] = "%s: %s" % (type(ex).__name__, ex)
    out["wall"] = round(time.time() - t0, 3)
    return out


def shape_of(m):
    kinds = [i.kind for i in m.imports]
    return {"mem": "imported" if "memory" in kinds else ("defined" if m.mems else "none"),
            "table": "imported" if "table" in kinds else ("defined" if m.tables else "none"),
            "imp_globals": kinds.count("global"), "globals": len(m.globals), "imp_funcs": kinds.count("func"),
            "funcs": len(m.funcs), "active": sum(1 for d in m.datas if d.mode == "active"),
            "passive": sum(1 for d in m.datas if d.mode == "passive"), "elems": len(m.elems),
            "start": m.start is not None}


def init_diffs(m, imp, rr, v0, wasm=None):
    """State right after Instantiate: real vs V8 (no calls) vs the independent Python statement of the spec."""
    out = []
    ri = rr.init
    if v0.instantiate == ("ok",) and rr.instantiate == ("ok",):
        if v0.mem is not None and ri["mem"] is not None and (v0.mem["sha256"] != ri["mem"]["sha256"] or v0.mem["pages"] != ri["mem"]["pages"]) \
                and not (wasm is not None and ri.get("mem_bytes") is not None and v0.mem["pages"] == ri["mem"]["pages"]
                         and nan_only_diff(ri["mem_bytes"], v8_mem_bytes(m, wasm, [], imp, len(ri["mem_bytes"])))):
            out.append({"kind": "init-memory", "real": ri["mem"], "v8": {k: v0.mem[k] for k in ("sha256", "pages")}})
        if m.start is None and ri["mem"] is not None:
            import hashlib
            pages, data = e2e.expected_memory_after_init(m, imp)
            if hashlib.sha256(data).hexdigest() != ri["mem"]["sha256"] or pages != ri["mem"]["pages"]:
                out.append({"kind": "init-memory-vs-spec", "real": ri["mem"], "spec_pages": pages})
        for nm, (t, b) in sorted(v0.globals.items()):
            idx = [e.index for e in m.exports if e.kind == "global" and bytes(e.name) == nm]
            if idx and idx[0] in ri["all_globals"] and t in ("i32", "i64", "f32", "f64"):
                rt, rb = ri["all_globals"][idx[0]]
                if not e2e.same_vals([(rt, rb)], [(t, b)]):
                    out.append({"kind": "init-global", "index": idx[0], "real": (rt, rb), "v8": (t, b)})
        if m.start is None:
            # every global = value of its constant initialiser (independent statement)
            n_imp = sum(1 for i in m.imports if i.kind == "global")
            for k, g in enumerate(m.globals):
                want = e2e.const_value(m, g.init, imp)
                w = 32 if g.type.valtype in (A.I32, A.F32) else 64
                got = ri["all_globals"].get(n_imp + k)
                if got is not None and (got[1] != want & ((1 << w) - 1)) and not e2e.is_nan(got[0], got[1]):
                    out.append({"kind": "init-global-vs-spec", "index": n_imp + k, "real": got, "spec": want & ((1 << w) - 1)})
        exp = e2e.expected_table(m, imp)
        if exp is not None and ri["table"] is not None and exp != ri["table"]:
            out.append({"kind": "init-table", "real": ri["table"], "spec": exp})
    return out


def two_instances(repo, work, w2c2, m, calls, imp, tr, base, build, spec):
    """The same script on two live instances, randomly interleaved; each must equal the single-instance run."""
    rng = random.Random("%s:interleave" % spec_id(spec))
    a = [(0, n, v) for n, v in calls]
    b = [(1, n, v) for n, v in calls]
    script = []
    while a or b:
        src = a if (a and (not b or rng.random() < 0.5)) else b
        script.append(src.pop(0))
    cc, copts, san = build
    rs = e2e.run_real_multi(repo, work, w2c2, m, script, imp, instances=2, cc=cc, copts=tuple(copts), sanitize=san,
                            translated=tr)
    diffs = []
    for k, r in enumerate(rs):
        for fld in ("instantiate", "results", "host_log", "mem", "all_globals", "table", "host_inst_ok"):
            x, y = getattr(r, fld), getattr(base, fld)
            if fld == "results":
                same = len(x) == len(y) and all(e2e.same_result(p, q) or p == q for p, q in zip(x, y))
            else:
                same = x == y
            if not same:
                diffs.append({"kind": "two-instances-" + fld, "instance": k, "interleaved": x if fld != "results" else [p for p, q in zip(x, y) if p != q][:3],
                              "single": y if fld != "results" else [q for p, q in zip(x, y) if p != q][:3]})
    return {"diffs": diffs, "script_len": len(script), "order": "".join(str(s[0]) for s in script)[:80]}


def cross_build(rrs):
    """Pairwise (against the first runnable build) differences between builds of the same generated C."""
    ok = [(b, r) for b, r in rrs if r.instantiate and r.instantiate[0] in ("ok", "trap") and not r.ub]
    out = []
    if len(ok) < 2:
        return out
    b0, r0 = ok[0]
    for b, r in ok[1:]:
        def add(field, x, y):
            out.append({"field": field, "build_a": b0, "build_b": b, "a": x, "b": y,
                        "cmd_a": (r0.build or [""])[-1], "cmd_b": (r.build or [""])[-1]})
        if r.instantiate != r0.instantiate:
            add("instantiate", r0.instantiate, r.instantiate)
            continue
        bad = [(k, p, q) for k, (p, q) in enumerate(zip(r0.results, r.results)) if not (p == q or e2e.same_result(p, q))]
        if bad or len(r0.results) != len(r.results):
            add("results", bad[:2] and [bad[0][0], bad[0][1]], bad[:2] and [bad[0][0], bad[0][2]])
        if len(r0.host_log) != len(r.host_log) or any(x[0] != y[0] or not e2e.same_vals(x[1], y[1]) for x, y in zip(r0.host_log, r.host_log)):
            add("host_log", len(r0.host_log), len(r.host_log))
        if (r0.mem is None) != (r.mem is None) or (r0.mem and (r0.mem["pages"] != r.mem["pages"] or (
                r0.mem["sha256"] != r.mem["sha256"] and not (r0.mem_bytes is not None and r.mem_bytes is not None and nan_only_diff(r0.mem_bytes, r.mem_bytes))))):
            add("memory", r0.mem, r.mem)
        for gi in sorted(set(r0.all_globals) | set(r.all_globals)):
            x, y = r0.all_globals.get(gi), r.all_globals.get(gi)
            if x is None or y is None or not e2e.same_vals([tuple(x)], [tuple(y)]):
                add("global", [gi, x], [gi, y])
                break
        if r0.table != r.table:
            add("table", r0.table, r.table)
    return out


def nan_only_diff(a, b):
    """True iff byte strings a, b (same length) differ only inside f32/f64 cells (any alignment) that hold a NaN on
    both sides (the specification leaves NaN payload/sign of arithmetic results open)."""
    if len(a) != len(b):
        return False
    if a == b:
        return True
    n = len(a)
    k = 0
    import struct
    while k < n:
        if a[k] == b[k]:
            k += 1
            continue
        ok = False
        for width, fmt, ty in ((4, "<I", "f32"), (8, "<Q", "f64")):
            for o in range(max(0, k - width + 1), min(k, n - width) + 1):
                x = struct.unpack_from(fmt, a, o)[0]
                y = struct.unpack_from(fmt, b, o)[0]
                if e2e.is_nan(ty, x) and e2e.is_nan(ty, y):
                    ok = True
                    k = o + width
                    break
            if ok:
                break
        if not ok:
            return False
    return True


def v8_mem_bytes(m, b, calls, imp, n):
    v = v8.session().run(b, calls, imp, mem_hash=True, module=m, mem_dump=n)
    return bytes.fromhex(v.mem.get("hex", "")) if v.mem else b""


def mem_diag(m, b, calls, imp, rr):
    """First differing byte between the real memory and V8's."""
    n = len(rr.mem_bytes)
    v = v8.session().run(b, calls, imp, mem_hash=True, module=m, mem_dump=n)
    vb = bytes.fromhex(v.mem.get("hex", "")) if v.mem else b""
    for k in range(min(len(vb), n)):
        if vb[k] != rr.mem_bytes[k]:
            return {"first_diff": k, "real": rr.mem_bytes[k:k + 16].hex(), "v8": vb[k:k + 16].hex()}
    return {"first_diff": None, "len_real": n, "len_v8": len(vb)}


def run_jobs(jobs, procs=None):
    if not jobs:
        return []
    procs = procs or min(16, os.cpu_count() or 4, len(jobs))
    if procs <= 1:
        return [e2e_job(j) for j in jobs]
    with multiprocessing.Pool(procs, initializer=_init_worker) as pool:
        return pool.map(e2e_job, jobs, chunksize=1)


# ------------------------------------------------------------------------------- emit-tokens (parent side)
def emit_tokens_batch(env, specs, multi=False, pretty=False, driver_ok=True):
    """Token comparison of every function of every module: real w2c2 vs Lean model (one driver batch).
    Returns {id: {'functions', 'mismatch': [{func, at, model, real}], 'skipped': reason|None}}"""
    res = {}
    lines = []
    todo = []
    opts = (["-p"] if pretty else []) + (["-m"] if multi else [])
    for spec in specs:
        sid = spec_id(spec)
        m, b, imp, exports = load_module(spec)
        try:
            ls, fl = et.module_lines(env.join, m, "m", multi, pretty)
        except et.Unsupported as ex:
            res[sid] = {"functions": 0, "mismatch": [], "skipped": "op %s outside the emit model" % ex}
            continue
        etdir = os.path.join(env.dir, "et")
        os.makedirs(etdir, exist_ok=True)
        text, err = et.run_w2c2(env.w2c2, b, etdir, opts)
        if text is None:
            res[sid] = {"functions": 0, "mismatch": [{"func": None, "at": None, "model": None, "real": "w2c2 failed: " + str(err)[:200]}], "skipped": None}
            continue
        real = et.real_functions(text, "m", multi)
        nimp = sum(1 for im in m.imports if im.kind == "func")
        todo.append((sid, len(lines), fl, real, nimp))
        lines += ls
    outl = vlib.DriverProc(env.driver).batch(lines, timeout=3600) if (lines and driver_ok and env.driver) else []
    for sid, base, fl, real, nimp in todo:
        mm = []
        for k, li in enumerate(fl):
            if not outl:
                mm.append({"func": nimp + k, "at": None, "model": "driver unavailable", "real": None})
                continue
            ans = outl[base + li]
            if not ans.startswith("text "):
                mm.append({"func": nimp + k, "at": None, "model": ans[:200], "real": None})
                continue
            mt = et.ctokens(et.subst_dec(ans[5:]))
            rt = et.ctokens(real.get(nimp + k, ""))
            if mt != rt:
                j = next((x for x in range(min(len(mt), len(rt))) if mt[x] != rt[x]), min(len(mt), len(rt)))
                mm.append({"func": nimp + k, "at": j, "model": " ".join(mt[max(0, j - 10):j + 8]), "real": " ".join(rt[max(0, j - 10):j + 8])})
        res[sid] = {"functions": len(fl), "mismatch": mm, "skipped": None}
    return res


# ------------------------------------------------------------------------------- evidence helpers
def merge_hist(dst, src):
    for k, v in src.items():
        dst[k] = dst.get(k, 0) + v
    return dst


def top(hist, n=40):
    return dict(sorted(hist.items(), key=lambda kv: -kv[1])[:n])


def sample_of(res, maxcalls=2):
    """A readable sample of one e2e case for the evidence."""
    b0 = res["builds"][0] if res.get("builds") else None
    return {"module": res["id"], "shape": res.get("shape"), "calls": res.get("ncalls"),
            "v8_first_results": [list(r) for r in (res.get("v8") or {}).get("results", [])[:maxcalls]],
            "real_first_results": [list(r) for r in (b0["real"]["results"][:maxcalls] if b0 else [])],
            "host_calls": len((res.get("v8") or {}).get("host_log", [])),
            "mem": (res.get("v8") or {}).get("mem")}


def replay_obj(res, extra=None):
    o = {"module": res["id"], "spec": res["spec"],
         "replay_cmd": "python3 -m wasmgen --replay %s -o m.wasm   # then: python3 tools/check.py <prop> --replay <this file>" % res["id"]}
    if extra:
        o.update(extra)
    return o


# ------------------------------------------------------------------------------- sim-semantics tie (Model/Sim.lean source semantics vs V8 vs real)
CORE_OPS = {"nop", "unreachable", "drop", "select", "local.get", "local.set", "local.tee", "block", "loop", "if", "br", "br_if",
            "br_table", "return", "call", "call_indirect", "i32.const", "i64.const", "f32.const", "f64.const"}


# instructions through which the payload/sign of an arithmetic NaN (left open by the specification; the soft-float NumSem returns the
# canonical NaN, the hardware propagates payloads) becomes visible in non-NaN bits
NAN_LEAK_OPS = {"i32.reinterpret_f32", "i64.reinterpret_f64", "f32.copysign", "f64.copysign"}


def _is_core_op(op):
    if op in CORE_OPS:
        return True
    o = A.OPS.get(op)
    return o is not None and o.imm == "none" and o.prefix in (None, 0xFC) and op not in ("memory.size", "memory.grow")


def _walk(body):
    for ins in body:
        yield ins
        if ins.body:
            for x in _walk(ins.body):
                yield x
        if ins.else_body:
            for x in _walk(ins.else_body):
                yield x


def core_variant(m, imp):
    """A valid module in the core covered by Model/Sim.lean derived from m: every global.get becomes the constant the
    global is initialised with, every global.set a drop (memory instructions stay; such functions are left out)."""
    import copy
    m2 = copy.deepcopy(m)
    gts = m2.global_types()
    n_imp = sum(1 for i in m2.imports if i.kind == "global")
    ords = [n for n, i in enumerate(m2.imports) if i.kind == "global"]
    gl = (imp or {}).get("globals", {})

    def gval(k):
        if k < n_imp:
            return int(gl.get(ords[k], gl.get(str(ords[k]), 0)))
        return e2e.const_value(m2, m2.globals[k - n_imp].init, imp)

    def rewrite(body):
        out = []
        for ins in body:
            if ins.op == "global.get":
                vt = gts[ins.imm[0]].valtype
                w = 32 if vt in (A.I32, A.F32) else 64
                v = gval(ins.imm[0]) & ((1 << w) - 1)
                if vt in (A.I32, A.I64) and v >= 1 << (w - 1):
                    v -= 1 << w
                out.append(A.Instr(A.VT_NAME[vt] + ".const", v))
            elif ins.op == "global.set":
                out.append(A.Instr("drop"))
            else:
                if ins.body is not None:
                    ins.body = rewrite(ins.body)
                if ins.else_body is not None:
                    ins.else_body = rewrite(ins.else_body)
                out.append(ins)
        return out
    for f in m2.funcs:
        f.body = rewrite(f.body)
    return m2


def sim_plan(m):
    """(omitted defined-function indices, {func index: reachable set}) — static call-graph reachability"""
    nimp = sum(1 for i in m.imports if i.kind == "func")
    omitted = set()
    direct = {}
    indirect = {}
    for k, f in enumerate(m.funcs):
        fi = nimp + k
        ops = list(_walk(f.body))
        if not all(_is_core_op(i.op) for i in ops):
            omitted.add(fi)
        direct[fi] = set(i.imm[0] for i in ops if i.op == "call")
        indirect[fi] = any(i.op == "call_indirect" for i in ops)
    tablefuncs = set(f for seg in m.elems for f in seg.funcs)
    leaky = set(nimp + k for k, f in enumerate(m.funcs) if any(i.op in NAN_LEAK_OPS for i in _walk(f.body)))
    sim_plan.leaky = leaky

    def reach(f0):
        seen, todo = set(), [f0]
        while todo:
            f = todo.pop()
            if f in seen:
                continue
            seen.add(f)
            if f >= nimp:
                todo += list(direct[f])
                if indirect[f]:
                    todo += list(tablefuncs)
        return seen
    return nimp, omitted, reach


def sim_lines(join, m, imp, calls, exports, depth=6000):
    """Driver lines for the module-level run of every call whose static call graph stays inside the covered core.
    Returns (lines, [(line index, call number)], elem line index | None)."""
    nimp, omitted, reach = sim_plan(m)
    lines, fl = et.module_lines(join, m)
    keep = []
    for k, li in enumerate(fl):
        if nimp + k in omitted:
            lines[li] = None
    lines = [l for l in lines if l is not None]
    elem_at = None
    tabs = m.all_tables()
    if tabs:
        segs = ";".join("%d:%s" % (e2e.const_value(m, s.offset, imp) & 0xFFFFFFFF, ",".join(str(f) for f in s.funcs)) for s in m.elems) or "-"
        elem_at = len(lines)
        lines.append("E elem %d %s" % (tabs[0].limits.min, segs))
    exd = {}
    for nm, f in exports:
        exd.setdefault(bytes(nm), f)
    runs = []
    ncallers = [0]
    leaky_runs = set()
    sim_lines.last_callers = ncallers
    sim_lines.last_leaky = leaky_runs
    for cn, (nm, args) in enumerate(calls):
        f = exd[bytes(nm)]
        r = reach(f)
        if any(x < nimp or x in omitted for x in r):
            continue
        if len(r) > 1:
            ncallers[0] += 1
        if any(x in sim_plan.leaky for x in r):
            leaky_runs.add(cn)
        runs.append((len(lines), cn))
        lines.append("E mrun %d %d %s" % (depth, f, ",".join("%s:%x" % (t, b) for t, b in args) or "-"))
    return lines, runs, elem_at


def parse_sim_out(s):
    """`val i32:ff` / `val ` / `trap 1` / other -> result in e2e shape, or None when outside val/trap"""
    w = s.split()
    if not w:
        return None
    if w[0] == "val":
        return ("val", [(x.split(":")[0], int(x.split(":")[1], 16)) for x in w[1:]])
    if w[0] == "trap":
        return ("trap", e2e.TRAP_CLASS.get(int(w[1]), "trap" + w[1]))
    return None


def sim_tie(env, results, driver_ok=True):
    """For every e2e job result (made with sim=True: core variant): Lean source semantics vs V8 vs real compiled output,
    and tgt = src.  Returns dict(cases, skipped{...}, disagreements[...], tables_compared)."""
    out = {"cases": 0, "calls_considered": 0, "skipped": {}, "disagreements": [], "tables_compared": 0, "outcomes": {}}
    lines, plan = [], []
    for res in results:
        if res.get("error") or not res.get("builds") or res["builds"][0]["real"]["instantiate"] != ("ok",):
            continue
        m, b, imp, exports = load_module(res["spec"])
        calls = [(n.encode("latin-1"), [(t, int(v)) for t, v in a]) for n, a in res["calls_made"]]
        try:
            ls, runs, elem_at = sim_lines(env.join, m, imp, calls, exports)
        except et.Unsupported:
            out["skipped"]["module-outside-emit-model"] = out["skipped"].get("module-outside-emit-model", 0) + 1
            continue
        out["calls_considered"] += len(calls)
        out["runs_whose_call_graph_has_callees"] = out.get("runs_whose_call_graph_has_callees", 0) + sim_lines.last_callers[0]
        out["skipped"]["static-call-graph-leaves-core"] = out["skipped"].get("static-call-graph-leaves-core", 0) + len(calls) - len(runs)
        plan.append((res, len(lines), runs, elem_at, set(sim_lines.last_leaky)))
        lines += ls
    if not (lines and driver_ok and env.driver):
        return out
    ans = vlib.DriverProc(env.driver).batch(lines, timeout=3600)
    for res, base, runs, elem_at, leaky in plan:
        real = res["builds"][0]["real"]
        v8r = res["v8"]["results"]
        if elem_at is not None and real.get("table") is not None:
            a = ans[base + elem_at]
            if a.startswith("tbl"):
                mt = [None if x == "-" else int(x) for x in a[4:].split(",")] if a[4:] else []
                out["tables_compared"] += 1
                if mt != list(real["table"]):
                    out["disagreements"].append({"module": res["id"], "what": "E elem (Model.initTable) vs table of the real instance",
                                                 "model": mt, "real": real["table"]})
            else:
                out["disagreements"].append({"module": res["id"], "what": "E elem", "model": a[:200]})
        for li, cn in runs:
            a = ans[base + li]
            if not a.startswith("src "):
                out["skipped"]["driver:" + a[:24]] = out["skipped"].get("driver:" + a[:24], 0) + 1
                continue
            src_s, _, tgt_s = a[4:].partition(" | tgt ")
            src = parse_sim_out(src_s)
            if src is None:
                k = "src:" + " ".join(src_s.split()[:2])
                out["skipped"][k] = out["skipped"].get(k, 0) + 1
                continue
            out["cases"] += 1
            ok = src[0] if src[0] != "trap" else "trap:" + src[1]
            out["outcomes"][ok] = out["outcomes"].get(ok, 0) + 1
            tgt = parse_sim_out(tgt_s)
            v = tuple(v8r[cn]) if cn < len(v8r) else None
            r = real["results"][cn] if cn < len(real["results"]) else None
            v = (v[0], [tuple(x) for x in v[1]]) if v and v[0] == "val" else v
            r = (r[0], [tuple(x) for x in r[1]]) if r and r[0] == "val" else (tuple(r) if r else r)
            bad = []
            if tgt is None or not (tgt == src or e2e.same_result(tgt, src)):
                bad.append("tgt != src")
            if v is None or not e2e.same_result(src, v):
                bad.append("src != V8")
            if r is None or not e2e.same_result(r, src):
                bad.append("src != real")
            if bad and "tgt != src" not in bad and cn in leaky and v is not None and r is not None and e2e.same_result(r, v):
                # V8 and the compiled output agree (same hardware NaN), the model's canonical NaN leaked through reinterpret/copysign
                out["nan_payload_leaks_tolerated"] = out.get("nan_payload_leaks_tolerated", 0) + 1
            elif bad:
                out["disagreements"].append({"module": res["id"], "call": res["calls_made"][cn], "what": ", ".join(bad),
                                             "src": src_s, "tgt": tgt_s, "v8": v, "real": r})
    return out
