"""Shared by the checks C03, C04, C06, C09, C11: module specs (generated / corpus), call scripts, the
parallel e2e job runner (real w2c2 -> cc -> run  vs  V8), the emit-tokens batch, evidence helpers."""
import json
import multiprocessing
import os
import random
import re
import shutil
import time

import vlib
import e2e
import emit_tokens as et
import opmods
from wasmgen import module_for, encode, arg_vectors, decode, v8
from wasmgen import wasm_ast as A

GENS = [("Macros", "gen_macros"), ("EmitTable", "gen_emit"), ("AtomicEmit", "gen_atomic_emit"),
        ("Mangle", "gen_mangle")]        # Model.Render (the driver's import names) interprets the regenerated module-name rule
CORPUS = os.path.join(vlib.TOOLS, "corpus")


# ------------------------------------------------------------------------------- proof part (optional)
def prove_if_present(chk, names, gens=None):
    """Build + audit the Props modules that exist; without any the check is a translation validation."""
    import common
    mods = ["W2c2Verif.Props." + n for n in names
            if os.path.exists(os.path.join(vlib.LEAN, "W2c2Verif", "Props", n + ".lean"))]
    res = {"modules": mods, "driver_ok": True, "build_ok": True, "errors": []}
    gens = gens or GENS
    if mods:
        pr = common.prove(chk, mods, gens)
        res.update(pr)
        res["modules"] = mods
    else:
        g = vlib.regenerate(gens)
        for name, r in g.items():
            if not r["ok"]:
                res["errors"].append({"kind": "extract-fail", "gen": name, "msg": r["error"]})
        ok, out = vlib.lake_build(["driver"])
        res["driver_ok"] = ok and not res["errors"]
        if not ok:
            res["errors"].append({"kind": "driver-build", "msg": out[-2000:]})
        chk.notes.append("theorems pending")
    if chk.coverage["obligations"] == 0:
        chk.level = "translation_validation"
    return res


# ------------------------------------------------------------------------------- module specs
def spec_id(spec):
    tag = ("+" + spec["opt_tag"]) if spec.get("opt_tag") else ""        # option variants (`option_variant`) of one module are distinct cases
    if "hex" in spec:
        return (spec.get("id") or ("hex:" + spec["hex"][:24])) + ("+nostart" if spec.get("no_start") else "") + tag
    return "%s:%s:%d%s" % (spec["seed"], spec["profile"], spec["index"], ("+core" if spec.get("core_variant") else "") + ("+nostart" if spec.get("no_start") else "")) + tag


OPTION_SETS = (("-p",), ("-m",), ("-p", "-m"))


def option_variant(spec, opts):
    """The same module translated by the real w2c2 with output options `opts` (a subset of -p, -m); the options travel in the
    spec (`w2c2_opts`) so that a replay file reproduces them.  None when the module cannot be translated with -m for the recorded
    reason (C09 `m-prefix-export-named-fN-collides`: a function export literally named f<N>; generated modules get neutral names)."""
    s = dict(spec, w2c2_opts=list(spec.get("w2c2_opts") or []) + list(opts), opt_tag="".join(opts))
    if "-m" in opts:
        if "hex" in spec:
            m = decode(bytes.fromhex(spec["hex"]))
            if any(e.kind == "func" and re.fullmatch(rb"f\d+", bytes(e.name)) for e in m.exports):
                return None
        else:
            s["rename_exports"] = True
    return s


def option_variants(specs, per_set, sets=OPTION_SETS):
    """`per_set` modules for every option set, taken round-robin from `specs` (every set sees different modules first)"""
    out = []
    if not specs:
        return out
    for k, opts in enumerate(sets):
        n = 0
        for j in range(len(specs)):
            if n >= per_set:
                break
            v = option_variant(specs[(j + k * per_set) % len(specs)], opts)
            if v is not None:
                out.append(v)
                n += 1
    return out


def load_module(spec):
    """spec = {'seed','profile','index'} (wasmgen.module_for) or {'hex', 'imports_spec'?} -> (module, bytes, imports_spec, exports)"""
    if "hex" in spec:
        b = bytes.fromhex(spec["hex"])
        m = decode(b)
        imp = spec.get("imports_spec") or {}
        fill = imp.get("mem_fill")
        imp = {"globals": {int(k): int(v) for k, v in (imp.get("globals") or {}).items()}}
        if fill:
            imp["mem_fill"] = {int(k): [[int(o), str(h)] for o, h in v] for k, v in fill.items()}
        exports = []
        seen = set()
        for e in m.exports:
            if e.kind == "func" and bytes(e.name) not in seen:
                seen.add(bytes(e.name))
                exports.append((bytes(e.name), e.index))
        if spec.get("no_start") and m.start is not None:
            m.start = None
            b = encode(m)
        return m, b, imp, exports
    m = module_for(spec["seed"], spec["profile"], spec["index"])
    if spec.get("core_variant"):
        meta = m.meta
        m = core_variant(m, m.meta["imports_spec"])
        m.meta = meta
    if spec.get("no_start"):
        m.start = None
    if spec.get("rename_exports"):
        # -m collides with exports called f<N> (a recorded finding of C09): use neutral names
        ren = {}
        for e in m.exports:
            new = b"x_" + bytes(e.name)
            ren[bytes(e.name)] = new
            e.name = new
        m.meta["exports"] = [(ren.get(bytes(n), n), f) for n, f in m.meta["exports"]]
    return m, encode(m), m.meta["imports_spec"], list(m.meta["exports"])


def make_calls(spec, module, exports, per_func=3, cap=48):
    rng = random.Random("%s:args" % spec_id(spec))
    per = []
    for nm, f in exports:
        per.append([(nm, v) for v in arg_vectors(rng, module, f, per_func)])
    calls = []
    k = 0
    while any(per) and len(calls) < cap:       # round robin so that state carried between functions is exercised
        if per[k % len(per)]:
            calls.append(per[k % len(per)].pop(0))
        k += 1
    if "calls" in spec:
        calls = [(bytes.fromhex(n), [(t, int(b)) for t, b in a]) for n, a in spec["calls"]]
    return calls


def corpus_specs(prop):
    d = os.path.join(CORPUS, prop)
    out = []
    if os.path.isdir(d):
        for f in sorted(os.listdir(d)):
            if f.endswith(".json"):
                s = json.load(open(os.path.join(d, f)))
                s.setdefault("id", "corpus/%s/%s" % (prop, f))
                s["corpus"] = f
                out.append(s)
    return out


def gen_specs(seed, profile, n, start=0, **extra):
    return [dict(seed=str(seed), profile=profile, index=start + i, **extra) for i in range(n)]


class Env(object):
    """Scratch copy of /repo + the real w2c2 built from it."""

    def __init__(self, d):
        self.dir = d
        self.repo = vlib.copy_repo(os.path.join(d, "repo"))
        self.w2c2 = opmods.build_w2c2(self.repo, d)
        self.join = et.EnumJoin(self.repo)
        self.work = os.path.join(d, "work")
        os.makedirs(self.work, exist_ok=True)
        # private copy of the Lean driver (other checks may rebuild lean/.lake concurrently)
        self.driver = os.path.join(d, "driver")
        with vlib.lake_lock():
            if os.path.exists(vlib.DRIVER):
                shutil.copy2(vlib.DRIVER, self.driver)
            else:
                self.driver = None

    def tuple(self):
        return (self.repo, self.w2c2, self.work)


# ------------------------------------------------------------------------------- e2e jobs (worker side)
def _init_worker():
    v8._default = None        # every worker talks to its own node process


def v8_dict(r):
    return {"instantiate": r.instantiate, "results": r.results, "host_log": r.host_log, "mem": r.mem,
            "globals": {k.hex(): v for k, v in r.globals.items()}, "messages": r.messages[:3]}


def slim(real):
    d = real.to_dict()
    d.pop("host_calls", None)
    return d


def classify_build_error(msg):
    m = re.search(r"[‘'`](s[ijfd]\d+)[’'`] undeclared", msg) or re.search(r"undeclared identifier '(s[ijfd]\d+)'", msg)
    if m:
        return "stack-slot-used-but-never-declared"
    if "redefinition of" in msg or "conflicting types" in msg:
        return "duplicate-c-identifier"
    return "generated-c-does-not-compile"


def e2e_job(job):
    """One module: V8 run + one real run per build; returns plain data.
    job: spec, env=(repo, w2c2, work), per_func, opts, builds=[(cc, copts, sanitize)], two_instances, init_dump"""
    spec = job["spec"]
    repo, w2c2, work = job["env"]
    t0 = time.time()
    out = {"id": spec_id(spec), "spec": spec, "builds": [], "error": None}
    try:
        m, b, imp, exports = load_module(spec)
        calls = make_calls(spec, m, exports, job.get("per_func", 3), job.get("cap", 48))
        out["ncalls"] = len(calls)
        out["ops"] = e2e.op_histogram(m)
        out["shape"] = shape_of(m)
        mv, bv = m, b
        if len(m.all_mems()) > 1:
            mv = single_memory_variant(m)
            bv = encode(mv)
            out["v8_reference"] = "single-memory-variant"
        vr = v8.run(bv, calls, imp, mem_hash=True, module=mv)
        out["truncated_at"] = None
        for k, r in enumerate(vr.results):
            if r[0] == "trap" and r[1] in e2e.V8_ONLY_TRAPS:
                # w2c2 does no bounds/signature checks: the call is outside the properties; run the script up to it
                out["truncated_at"] = (k, r[1])
                calls = calls[:k]
                vr = v8.run(bv, calls, imp, mem_hash=True, module=mv)
                break
        if job.get("sim"):
            out["sim_calls_before_truncation"] = len(calls)
            plan = sim_script(m, exports, calls, vr.results)
            if plan["start"] != "skip" and plan["keep"] < len(calls):
                calls = calls[:plan["keep"]]
                vr = v8.run(bv, calls, imp, mem_hash=True, module=mv)
            out["sim_plan"] = plan
        out["ncalls"] = len(calls)
        out["calls_made"] = [[n.decode("latin-1"), [[t, b] for t, b in a]] for n, a in calls]
        out["v8"] = v8_dict(vr)
        out["v8_traps"] = sum(1 for r in vr.results if r[0] == "trap")
        v0 = None
        if job.get("init_dump"):
            v0 = v8.run(bv, [], imp, mem_hash=True, module=mv)
            out["v8_init"] = v8_dict(v0)
        name = "m" + re.sub(r"\W", "_", spec_id(spec))[-40:] + "_%d" % os.getpid()
        tr = e2e.translate(w2c2, work, name, b, tuple(job.get("opts", ())) + tuple(spec.get("w2c2_opts", ())))
        out["w2c2_stderr"] = tr.stderr[-300:] if not tr.ok else ""
        if tr.ok:
            ctext = "".join(open(f).read() for f in tr.cfiles)
            out["c_flags"] = {"LOAD_DATA": ctext.count("LOAD_DATA("), "InitMemories": "InitMemories(" in ctext,
                              "InitTables": "InitTables(" in ctext, "InitGlobals": "InitGlobals(" in ctext}
            fe = re.search(r"wasmFuncExport \w+FuncExports\[(\d+)\] = \{\n(.*?)\n\};\n", ctext, re.S)
            if fe:          # the emitted name table: declared size and, per written row, the function expression (`f<k>`, import name; NULL row = None)
                rows_ = [re.fullmatch(r"\{(?:\(wasmFunc\)(\w+),.*|NULL,NULL)\},?", ln.strip()) for ln in fe.group(2).split("\n")]
                out["func_exports_text"] = {"declared": int(fe.group(1)), "rows": [(r_.group(1) if r_ else "?") for r_ in rows_], "module": tr.name}
        try:
            base = None
            rrs = []
            for (cc, copts, san) in job["builds"]:
                rr = e2e.run_real(repo, work, w2c2, m, calls, imp, cc=cc, copts=tuple(copts), sanitize=san, translated=tr,
                                  init_dump=bool(job.get("init_dump")), keep_mem=bool(job.get("keep_mem")))
                diffs, info = e2e.compare(rr, vr)
                if rr.mem_bytes is not None and any(d["kind"] == "memory" for d in diffs) and rr.mem["pages"] == vr.mem["pages"]:
                    if nan_only_diff(rr.mem_bytes, v8_mem_bytes(m, b, calls, imp, len(rr.mem_bytes))):
                        diffs = [d for d in diffs if d["kind"] != "memory"]
                        out["nan_only_memory_difference"] = True
                ent = {"build": [cc, list(copts), san], "diffs": diffs, "info": info, "real": slim(rr)}
                if rr.instantiate[0] == "build_error":
                    ent["build_error_class"] = classify_build_error(rr.instantiate[1])
                if job.get("sim") and rr.mem_bytes is not None:
                    ent["final_mem_sparse"] = str(len(rr.mem_bytes)) + "".join("/%d:%s" % (mm.start(), mm.group(0).hex()) for mm in re.finditer(rb"[^\x00]+", rr.mem_bytes))
                if job.get("init_dump") and rr.init is not None and rr.init.get("mem_bytes") is not None:
                    data = rr.init["mem_bytes"]
                    ent["init_mem_sparse"] = str(len(data)) + "".join("/%d:%s" % (mm.start(), mm.group(0).hex()) for mm in re.finditer(rb"[^\x00]+", data))
                if job.get("init_dump") and rr.init is not None and v0 is not None:
                    ent["init_diffs"] = init_diffs(m, imp, rr, v0, b)
                if rr.table is not None and rr.instantiate == ("ok",):
                    exp = e2e.expected_table(m, imp)
                    if exp is not None and exp != rr.table:
                        ent.setdefault("init_diffs", []).append({"kind": "table", "real": rr.table, "spec": exp})
                if rr.instantiate and rr.instantiate[0] in ("ok", "trap") and rr.func_exports != "absent":
                    # the name table <module>FuncExports (instance.common.funcExports) = every function export, in export order, once,
                    # then the {NULL, NULL} row (names containing a NUL byte cannot be read back from a C string: skipped)
                    want = e2e.expected_func_exports(m)
                    if not any(b"\x00" in bytes.fromhex(x[1]) for x in want):
                        got = rr.func_exports
                        ok = got is not None and got["terminated"] and len(got["rows"]) == len(want) and all(
                            g[1] == w_[1] and (g[0] == w_[0] or _same_c_function(m, g[0], w_[0])) for g, w_ in zip(got["rows"], want))       # (incl. a repeated import)
                        if not ok:
                            ent.setdefault("init_diffs", []).append({"kind": "func-exports-table", "real": got, "spec": want})
                ent.setdefault("init_diffs", []).extend(accessor_diffs(m, imp, rr))
                if any(v is False for v in rr.bound.values()):
                    ent.setdefault("init_diffs", []).append({"kind": "import-not-bound", "real": rr.bound})
                if rr.mem_accessor_ok is False:
                    ent.setdefault("init_diffs", []).append({"kind": "memory-export-accessor", "real": "accessor != instance field"})
                if job.get("memdiag") and any(d["kind"] == "memory" for d in diffs) and rr.mem_bytes is not None:
                    ent["memdiag"] = mem_diag(m, b, calls, imp, rr)
                out["builds"].append(ent)
                if base is None:
                    base = rr
                rrs.append(((cc, list(copts), san), rr))
            if job.get("cross_build"):
                out["cross"] = cross_build(rrs)
            if job.get("two_instances") and base is not None and base.instantiate == ("ok",):
                out["two"] = two_instances(repo, work, w2c2, m, calls, imp, tr, base, job["builds"][0], spec)
            if job.get("family") and base is not None and base.instantiate == ("ok",):
                out["family"] = family(repo, work, w2c2, m, calls, imp, tr, job["builds"][0], spec)
        finally:
            if tr.dir:
                shutil.rmtree(tr.dir, ignore_errors=True)
    except (e2e.E2EError, v8.V8Error) as ex:
        out["error"] = "%s: %s" % (type(ex).__name__, ex)
    out["wall"] = round(time.time() - t0, 3)
    return out


def _same_c_function(m, f, g):
    """function indices f, g denote imports of the same (module, field): one C function"""
    imps = [i for i in m.imports if i.kind == "func"]
    return f < len(imps) and g < len(imps) and (bytes(imps[f].module), bytes(imps[f].field)) == (bytes(imps[g].module), bytes(imps[g].field))


def single_memory_variant(m):
    """This V8 accepts one memory per module.  The code of a w2c2-supported module only addresses memory 0, so its behaviour is that of
    the same module WITHOUT its other memories, their data segments and their exports: the V8 reference for modules with several
    memories (the other memories are judged against the independent statement `expected_memory_k`).  Only for modules without
    memory.init / data.drop (data segment indices would shift)."""
    import copy
    r = copy.deepcopy(m)
    n_mi = sum(1 for i in r.imports if i.kind == "memory")
    keep_imp = 0
    imps = []
    for i in r.imports:
        if i.kind == "memory":
            keep_imp += 1
            if keep_imp > 1:
                continue
        imps.append(i)
    r.imports = imps
    r.mems = [] if n_mi else r.mems[:1]
    r.datas = [d for d in r.datas if d.mode != "active" or (d.memory or 0) == 0]
    r.exports = [e for e in r.exports if not (e.kind == "memory" and e.index != 0)]
    if r.datacount is not None:
        r.datacount = len(r.datas)
    return r


def expected_memory_k(m, imp, k):
    """(pages, bytes) of memory k right after instantiation (no start function): declared minimum, zero, the embedder's pre-fill of an
    imported memory, then the active data segments of memory k in order"""
    mems = m.all_mems()
    data = bytearray(mems[k].min * 65536)
    mimp = [n for n, i in enumerate(m.imports) if i.kind == "memory"]
    mf = (imp or {}).get("mem_fill") or {}
    if k < len(mimp):
        for off, hx in (mf.get(mimp[k], mf.get(str(mimp[k]))) or []):
            data[int(off):int(off) + len(hx) // 2] = bytes.fromhex(hx)
    for seg in m.datas:
        if seg.mode == "active" and (seg.memory or 0) == k:
            off = e2e.const_value(m, seg.offset, imp) & 0xFFFFFFFF
            if off + len(seg.data) <= len(data):
                data[off:off + len(seg.data)] = seg.data
    return mems[k].min, bytes(data)


def accessor_diffs(m, imp, rr):
    """every exported memory read through its `<module>_<name>` accessor (final dump of one instance): the instance's memory of the
    export's index — object identity, and for memories other than 0 (no instruction addresses them) pages and bytes as right after
    instantiation"""
    import hashlib
    out = []
    n_mi = sum(1 for i_ in m.imports if i_.kind == "memory")
    for ordn, me in sorted(rr.mem_exports.items()):
        bad_ = None
        if me["index"] < n_mi:         # a memory imported once more is the memory of its first import entry
            me = dict(me, index=e2e.import_owner(m, "memory")[me["index"]])
        if not me["same_object"]:
            bad_ = "the accessor does not return the instance's memory %d" % me["index"]
        elif me["index"] == 0 and rr.mem is not None and (me["pages"] != rr.mem["pages"] or me["sha256"] != rr.mem["sha256"]):
            bad_ = "memory 0 read through the accessor differs from the instance's memory 0"
        elif me["index"] > 0:
            pg, data_ = expected_memory_k(m, imp, me["index"])
            if me["pages"] != pg or me["sha256"] != hashlib.sha256(data_).hexdigest():
                bad_ = "memory %d read through the accessor is not the declared minimum of zero pages with its data segments" % me["index"]
        if bad_:
            out.append({"kind": "memory-export-accessor", "export": ordn, "real": dict(me, bytes=None, why=bad_),
                        "spec": "memory %d of the instance" % me["index"]})
    return out


def shape_of(m):
    kinds = [i.kind for i in m.imports]
    return {"mem": "imported" if "memory" in kinds else ("defined" if m.mems else "none"),
            "table": "imported" if "table" in kinds else ("defined" if m.tables else "none"),
            "imp_globals": kinds.count("global"), "globals": len(m.globals), "imp_funcs": kinds.count("func"),
            "funcs": len(m.funcs), "active": sum(1 for d in m.datas if d.mode == "active"),
            "passive": sum(1 for d in m.datas if d.mode == "passive"), "elems": len(m.elems),
            "start": m.start is not None}


def init_diffs(m, imp, rr, v0, wasm=None):
    """State right after Instantiate: real vs V8 (no calls) vs the independent Python statement of the spec."""
    out = []
    ri = rr.init
    if v0.instantiate == ("ok",) and rr.instantiate == ("ok",):
        if v0.mem is not None and ri["mem"] is not None and (v0.mem["sha256"] != ri["mem"]["sha256"] or v0.mem["pages"] != ri["mem"]["pages"]) \
                and not (wasm is not None and ri.get("mem_bytes") is not None and v0.mem["pages"] == ri["mem"]["pages"]
                         and nan_only_diff(ri["mem_bytes"], v8_mem_bytes(m, wasm, [], imp, len(ri["mem_bytes"])))):
            out.append({"kind": "init-memory", "real": ri["mem"], "v8": {k: v0.mem[k] for k in ("sha256", "pages")}})
        if m.start is None and ri["mem"] is not None:
            import hashlib
            pages, data = e2e.expected_memory_after_init(m, imp)
            if hashlib.sha256(data).hexdigest() != ri["mem"]["sha256"] or pages != ri["mem"]["pages"]:
                out.append({"kind": "init-memory-vs-spec", "real": ri["mem"], "spec_pages": pages})
        for nm, (t, b) in sorted(v0.globals.items()):
            idx = [e.index for e in m.exports if e.kind == "global" and bytes(e.name) == nm]
            if idx and idx[0] in ri["all_globals"] and t in ("i32", "i64", "f32", "f64"):
                rt, rb = ri["all_globals"][idx[0]]
                if not e2e.same_vals([(rt, rb)], [(t, b)]):
                    out.append({"kind": "init-global", "index": idx[0], "real": (rt, rb), "v8": (t, b)})
        if m.start is None:
            # every global = value of its constant initialiser (independent statement)
            n_imp = sum(1 for i in m.imports if i.kind == "global")
            for k, g in enumerate(m.globals):
                want = e2e.const_value(m, g.init, imp)
                w = 32 if g.type.valtype in (A.I32, A.F32) else 64
                got = ri["all_globals"].get(n_imp + k)
                if got is not None and (got[1] != want & ((1 << w) - 1)) and not e2e.is_nan(got[0], got[1]):
                    out.append({"kind": "init-global-vs-spec", "index": n_imp + k, "real": got, "spec": want & ((1 << w) - 1)})
        exp = e2e.expected_table(m, imp)
        if exp is not None and ri["table"] is not None and exp != ri["table"]:
            out.append({"kind": "init-table", "real": ri["table"], "spec": exp})
    return out


def two_instances(repo, work, w2c2, m, calls, imp, tr, base, build, spec):
    """The same script on two live instances, randomly interleaved; each must equal the single-instance run."""
    rng = random.Random("%s:interleave" % spec_id(spec))
    a = [(0, n, v) for n, v in calls]
    b = [(1, n, v) for n, v in calls]
    script = []
    while a or b:
        src = a if (a and (not b or rng.random() < 0.5)) else b
        script.append(src.pop(0))
    cc, copts, san = build
    rs = e2e.run_real_multi(repo, work, w2c2, m, script, imp, instances=2, cc=cc, copts=tuple(copts), sanitize=san,
                            translated=tr)
    diffs = []
    for k, r in enumerate(rs):
        for fld in ("instantiate", "results", "host_log", "mem", "all_globals", "table", "host_inst_ok"):
            x, y = getattr(r, fld), getattr(base, fld)
            if fld == "results":
                same = len(x) == len(y) and all(e2e.same_result(p, q) or p == q for p, q in zip(x, y))
            else:
                same = x == y
            if not same:
                diffs.append({"kind": "two-instances-" + fld, "instance": k, "interleaved": x if fld != "results" else [p for p, q in zip(x, y) if p != q][:3],
                              "single": y if fld != "results" else [q for p, q in zip(x, y) if p != q][:3]})
    return {"diffs": diffs, "script_len": len(script), "order": "".join(str(s[0]) for s in script)[:80]}


# ------------------------------------------------------------------------------- families: instances derived through <module>NewChild
def _sparse(data):
    return str(len(data)) + "".join("/%d:%s" % (mm.start(), mm.group(0).hex()) for mm in re.finditer(rb"[^\x00]+", data))


def family_reference_modules(m, defines_memory=None):
    """(module for V8's first instantiations, module for V8's child instantiations | None = the same, note).
    V8 has no NewChild: a child is a further V8 instance made with the imported memories and globals of its parent (an imported table
    is per instance on both sides: a wasm table entry is a closure over its defining instance, w2c2's a C function pointer called with the
    caller's instance, so sharing a table between instances differs by design).  What `<module>NewChild` does
    differently from that is made explicit here, as the emitted code does it (Model/NewChild.lean, Props/C06Child.lean):
      * a SHARED defined memory of the child is the parent's object: for V8 that memory becomes an import (same index space: it is the
        only memory), so parent and child share it and the data segments are applied to it again, as InitMemories(child, self) does;
      * a module that defines no memory gets no InitMemories call in NewChild: its active data segments (into the imported memory) are
        not applied again: V8's child is made from a variant whose active data segments are empty."""
    import copy
    ref, child, note = m, None, None
    n_imp_mem = sum(1 for i in m.imports if i.kind == "memory")
    if len(m.mems) == 1 and m.mems[0].shared and n_imp_mem == 0:
        ref = copy.deepcopy(m)
        ref.imports.append(A.Import(b"__verif", b"shared_mem0", "memory", ref.mems.pop(0)))
        note = "shared-defined-memory-as-import"
    elif not (bool(m.mems) if defines_memory is None else defines_memory) and any(d.mode == "active" and len(d.data) for d in m.datas):
        # (defines_memory: of the REAL module, when `m` is its single-memory variant)
        child = copy.deepcopy(m)
        for d in child.datas:
            if d.mode == "active":
                d.data = b""
                d.offset = A.Instr("i32.const", 0)
        note = "child-without-data-segments"
    return ref, child, note


def family(repo, work, w2c2, m, calls, imp, tr, build, spec, cap=12):
    """Interleaved history on six live instances of ONE module: 0 = A (<module>Instantiate), 1 = B = A's common.newChild(A) made AFTER
    A's first calls, 2 = C (<module>Instantiate, independent), 3 = D = C's common.newChild(C) made before any call, 4 = E (independent;
    after the last call it is released with <module>FreeInstance and instantiated again: the new instance is judged against the
    independent statement of the initial state), 5 = F = B's common.newChild(B) (a grandchild), made late, then called in turn with B
    and A.  A module with several memories is compared with the V8 family of its single-memory variant; its other memories are judged
    by the independent statements (shared with the parent's memory of the SAME index iff declared shared; accessor bytes).  Every instance is
    compared with the corresponding V8 instance of `v8.run_family` (results, host trace, final memory, exported globals); the dumps
    taken around each NewChild are judged against independent statements: the parent's globals / table / (unshared) memory are the same
    before and after, a child's defined globals equal their initialisers, its table is the element segments applied in order, a defined
    memory is the parent's object iff it is declared shared."""
    rng = random.Random("%s:family" % spec_id(spec))
    cs = list(calls[:cap])
    q = [[(k, n, v) for n, v in cs] for k in range(4)] + [[(4, n, v) for n, v in cs[:4]]]
    n0 = max(1, len(cs) // 3) if cs else 0
    script = q[0][:n0]
    q[0] = q[0][n0:]
    at = len(script)
    while any(q):
        k = rng.choice([j for j in range(5) if q[j]])
        script.append(q[k].pop(0))
    # F = B's common.newChild(B) (a grandchild of A), made after all of that; then F, B and A are called in turn
    at2 = len(script)
    tail = [(5, n, v) for n, v in cs[:4]] + [(1, n, v) for n, v in cs[:2]] + [(0, n, v) for n, v in cs[:2]]
    rng.shuffle(tail)
    script += tail
    mm = m
    several = len(m.all_mems()) > 1
    if several:
        # this V8 has one memory per module: the reference family is that of the module without its other memories (the code addresses
        # memory 0 only); the other memories are judged by the independent statements below (identity with the parent's memory of the same
        # index iff shared, bytes as right after instantiation, read through the accessors)
        mm = single_memory_variant(m)
    ref, childmod, note = family_reference_modules(mm, defines_memory=bool(m.mems))
    if several:
        note = (note + "; " if note else "") + "V8 reference = single-memory variant"
    out = {"diffs": [], "script_len": len(script), "order": "".join(str(x[0]) for x in script)[:100], "reference": note, "child_created_at": at,
           "compared_calls": 0, "skipped": None}

    def plan_for(a):
        pl = [{"kind": "new"}, {"kind": "child", "parent": 0, "at": a}, {"kind": "new"}, {"kind": "child", "parent": 2, "at": 0}, {"kind": "new"},
              {"kind": "child", "parent": 1, "at": max(a, min(at2, len(script)))}]
        if childmod is not None:
            for p_ in pl:
                if p_["kind"] == "child":
                    p_["wasm"] = encode(childmod).hex()
        return pl
    refb = encode(ref)
    vs = v8.run_family(refb, plan_for(at), script, imp, module=ref)
    if any(v.instantiate[0] not in ("ok", "skip") for v in vs):
        out["skipped"] = "V8 instantiation: %r" % ([v.instantiate for v in vs],)
        return out
    # w2c2 emits no bounds / signature checks: the script ends before the first call on which V8 raises such a trap
    pos = [0] * 6
    cut = None
    for j, (k, n, a) in enumerate(script):
        r = vs[k].results[pos[k]] if pos[k] < len(vs[k].results) else None
        pos[k] += 1
        if r is not None and r[0] == "trap" and r[1] in e2e.V8_ONLY_TRAPS:
            cut = j
            break
    if cut is not None:
        script = script[:cut]
        at = min(at, cut)
        at2 = min(at2, cut)
        out["truncated_at"] = cut
        vs = v8.run_family(refb, plan_for(at), script, imp, module=ref)
    cc, copts, san = build
    at2 = max(at, min(at2, len(script)))
    rs = e2e.run_real_multi(repo, work, w2c2, m, script, imp, instances=6, cc=cc, copts=tuple(copts), sanitize=san, translated=tr,
                            children={1: (0, at), 3: (2, 0), 5: (1, at2)}, init_dump=True, keep_mem=True, reinst=[4])
    float_stores = any(i.op in FLOAT_STORES for f in m.funcs for i in _walk(f.body))
    for k, (r, v) in enumerate(zip(rs, vs)):
        if r.instantiate[0] == "skip" and v.instantiate[0] == "skip":
            continue
        if r.instantiate[0] in ("build_error", "w2c2_error"):
            out["skipped"] = "build: %s" % (r.instantiate[1][:200],)
            return out
        # host calls are compared family-wide below: V8's per-instance logs attribute a call to the instance whose closure ran, and a
        # child's element segments put ITS closures into a table it shares with the parent
        # (E's final state is that of its SECOND instantiation: only its calls are compared with V8)
        diffs, info = e2e.compare(r, v, what=("instantiate", "results", "mem", "globals") if k != 4 else ("instantiate", "results"))
        out["compared_calls"] += info["compared_calls"]
        if not r.host_inst_ok:
            out["diffs"].append({"kind": "family-host_instance", "instance": k, "role": "ABCDEF"[k],
                                 "real": "an imported function did not receive the calling instance", "v8": None})
        diffs, ndrop = nan_leak_filter(spec, [[n_.decode("latin-1") if isinstance(n_, bytes) else n_, a_] for n_, a_ in cs], diffs)
        if ndrop:
            out["nan_sign_leaks_tolerated"] = out.get("nan_sign_leaks_tolerated", 0) + ndrop
        for d in diffs:
            if d["kind"] == "memory" and float_stores:
                out["memory_hash_not_compared_float_stores"] = True       # NaN payloads of stored arithmetic results are left open
                continue
            out["diffs"].append(dict(d, kind="family-" + d["kind"], instance=k, role="ABCDEF"[k]))
        if any(x is False for x in r.bound.values()):
            out["diffs"].append({"kind": "family-import-not-bound", "instance": k, "role": "ABCDEF"[k], "real": r.bound})
    # a crash of the program ends every later call: report the crash, not the calls that could not run after it
    if any(dd["kind"] == "family-result" and dd["real"][0] in ("ub", "crash", "timeout") for dd in out["diffs"]):
        out["diffs"] = [dd for dd in out["diffs"] if not (dd["kind"] == "family-result" and dd["real"][0] == "missing")]
        out["diffs"].sort(key=lambda dd: not (dd["kind"] == "family-result" and dd["real"][0] in ("ub", "crash", "timeout")))
    # the host calls of the whole family, in the order they happened: (callee, argument bits); the calling instance is checked on the real side
    created_at = {1: at, 3: 0, 5: at2}
    seq = []
    for k, r in enumerate(rs):
        for n_, (cn, ent) in enumerate(zip(r.host_calls, r.host_log)):
            if cn == -2:            # the start function run by E's SECOND instantiation (no V8 counterpart)
                continue
            key = (cn, 0, n_) if cn >= 0 else ((created_at[k] - 0.5, k, n_) if k in created_at else (-1, k, n_))
            seq.append((key, ent))
    seq = [ent for key, ent in sorted(seq, key=lambda x: x[0])]
    vseq = getattr(vs[0], "family_log", [])
    out["host_calls_compared"] = len(vseq)
    if not any(dd["kind"] == "family-result" and dd["real"][0] in ("ub", "crash", "timeout", "missing") for dd in out["diffs"]):
        for n_ in range(max(len(seq), len(vseq))):
            a_ = seq[n_] if n_ < len(seq) else None
            b_ = vseq[n_] if n_ < len(vseq) else None
            if a_ is None or b_ is None or a_[0] != b_[0] or not e2e.same_vals(a_[1], b_[1]):
                if a_ is not None and b_ is not None and a_[0] == b_[0] and _nan_derived(("val", list(a_[1])), ("val", list(b_[1]))) and \
                        any(i.op in NAN_LEAK_OPS for f_ in m.funcs for i in _walk(f_.body)):
                    out["nan_sign_leaks_tolerated"] = out.get("nan_sign_leaks_tolerated", 0) + 1      # what follows may depend on it
                    out["diffs"] = [dd for dd in out["diffs"] if dd["kind"] not in ("family-result", "family-global", "family-memory")]
                else:
                    out["diffs"].append({"kind": "family-host_log", "entry": n_, "real": a_, "v8": b_, "role": "all"})
                break
    # E was released (<module>FreeInstance) and instantiated again in the same process: the new instance, built from recycled heap
    # chunks, must be in the initial state again (table = element segments over NULL slots, defined globals = initialisers, a defined
    # memory = zero pages + data segments)
    rd = rs[4].reinst_dump if len(rs) > 4 else None
    if rd is not None:
        out["reinstantiated"] = True
        exp_t = e2e.expected_table(m, imp)
        if exp_t is not None and rd["table"] is not None and exp_t != rd["table"]:
            out["diffs"].append({"kind": "reinstantiated-table", "instance": 4, "role": "E", "real": rd["table"], "spec": exp_t})
        if m.start is None:
            ngi_ = sum(1 for i in m.imports if i.kind == "global")
            for g_k, g in enumerate(m.globals):
                want = e2e.const_value(m, g.init, imp)
                wd = 32 if g.type.valtype in (A.I32, A.F32) else 64
                got = rd["all_globals"].get(ngi_ + g_k)
                if got is not None and got[1] != want & ((1 << wd) - 1) and not e2e.is_nan(got[0], got[1]):
                    out["diffs"].append({"kind": "reinstantiated-global", "instance": 4, "role": "E", "index": ngi_ + g_k, "real": got, "spec": want & ((1 << wd) - 1)})
                    break
            if m.mems and not any(i.kind == "memory" for i in m.imports) and rd.get("mem_bytes") is not None:
                pg, data_ = expected_memory_k(m, imp, 0)
                if rd["mem"]["pages"] != pg or rd["mem_bytes"] != data_:
                    k0 = next((i for i in range(min(len(data_), len(rd["mem_bytes"]))) if data_[i] != rd["mem_bytes"][i]), None)
                    out["diffs"].append({"kind": "reinstantiated-memory", "instance": 4, "role": "E", "real": {"pages": rd["mem"]["pages"], "first_diff": k0},
                                         "spec": {"pages": pg}})
    # the dumps around each NewChild
    n_gi = sum(1 for i in m.imports if i.kind == "global")
    n_mi = sum(1 for i in m.imports if i.kind == "memory")
    shares_memory = bool(n_mi) or any(l.shared for l in m.mems)
    # NewChild applies the active segments again: only those of memory 0 can change the dumped memory (0) of the parent
    reapplies = bool(m.mems) and any(d.mode == "active" and len(d.data) and (d.memory or 0) == 0 for d in m.datas)
    out["child_dumps"] = {}
    # every exported memory of every instance through its accessor (final state): memories other than 0 hold what instantiation put there
    for k, r in enumerate(rs):
        if k != 4 and r.instantiate and r.instantiate[0] == "ok":
            for d_ in accessor_diffs(m, imp, r):
                out["diffs"].append(dict(d_, kind="family-" + d_["kind"], instance=k, role="ABCDEF"[k]))
    for ck, pk in ((1, 0), (3, 2), (5, 1)):
        cd = rs[ck].child_dumps.get(ck) if ck < len(rs) else None
        if not cd or "self" not in cd:
            continue
        role = "ABCDEF"[ck]
        before, after, me = cd.get("parent_before"), cd.get("parent"), cd["self"]
        if before and after:
            # the parent's DEFINED globals are fields of its own struct (imported ones are shared cells the child's start function may write)
            bg = {g: tuple(x) for g, x in before["all_globals"].items() if g >= n_gi}
            ag = {g: tuple(x) for g, x in after["all_globals"].items() if g >= n_gi}
            if bg != ag and not (set(bg) == set(ag) and all(e2e.same_vals([bg[g]], [ag[g]]) for g in bg)):
                out["diffs"].append({"kind": "newchild-changes-parent-globals", "instance": pk, "role": "ABCDEF"[pk], "child": role,
                                     "real": ag, "spec": bg})
            if before["table"] != after["table"]:
                out["diffs"].append({"kind": "newchild-changes-parent-table", "instance": pk, "role": "ABCDEF"[pk], "child": role,
                                     "real": after["table"], "spec": before["table"]})
            # a memory the child shares may be written by the data segments applied again and by the child's start function
            if before["mem"] and after["mem"] and before["mem"] != after["mem"] and not (shares_memory and (reapplies or m.start is not None)):
                out["diffs"].append({"kind": "newchild-changes-parent-memory", "instance": pk, "role": "ABCDEF"[pk], "child": role,
                                     "real": after["mem"], "spec": before["mem"]})
        if m.start is None:
            for g_k, g in enumerate(m.globals):
                want = e2e.const_value(m, g.init, imp)
                wd = 32 if g.type.valtype in (A.I32, A.F32) else 64
                got = me["all_globals"].get(n_gi + g_k)
                if got is not None and got[1] != want & ((1 << wd) - 1) and not e2e.is_nan(got[0], got[1]):
                    out["diffs"].append({"kind": "child-global-vs-initialiser", "instance": ck, "role": role, "index": n_gi + g_k,
                                         "real": got, "spec": want & ((1 << wd) - 1)})
                    break
        exp = e2e.expected_table(m, imp)
        if exp is not None and me["table"] is not None and exp != me["table"]:
            out["diffs"].append({"kind": "child-table", "instance": ck, "role": role, "real": me["table"], "spec": exp})
        for idx, same in sorted((cd.get("shared") or {}).items()):
            want = bool(m.mems[idx - n_mi].shared)
            if same != want:
                out["diffs"].append({"kind": "child-memory-sharing", "instance": ck, "role": role, "memory": idx, "real": same, "spec": want})
        if any(x is False for x in me.get("bound", {}).values()):
            out["diffs"].append({"kind": "child-import-not-bound", "instance": ck, "role": role, "real": me["bound"]})
        out["child_dumps"][str(ck)] = {"globals": {str(g): v for g, v in me["all_globals"].items()}, "table": me["table"],
                                       "mem_sparse": _sparse(me["mem_bytes"]) if me.get("mem_bytes") is not None else None,
                                       "shared": {str(i): b_ for i, b_ in (cd.get("shared") or {}).items()},
                                       "parent_globals_after": {str(g): v for g, v in (after or {}).get("all_globals", {}).items()},
                                       "parent_unchanged": bool(before and after and {g: x for g, x in before["all_globals"].items() if g >= n_gi} ==
                                                                {g: x for g, x in after["all_globals"].items() if g >= n_gi})}
    return out


def cross_build(rrs):
    """Pairwise (against the first runnable build) differences between builds of the same generated C."""
    ok = [(b, r) for b, r in rrs if r.instantiate and r.instantiate[0] in ("ok", "trap") and not r.ub]
    out = []
    if len(ok) < 2:
        return out
    b0, r0 = ok[0]
    for b, r in ok[1:]:
        def add(field, x, y):
            out.append({"field": field, "build_a": b0, "build_b": b, "a": x, "b": y,
                        "cmd_a": (r0.build or [""])[-1], "cmd_b": (r.build or [""])[-1]})
        if r.instantiate != r0.instantiate:
            add("instantiate", r0.instantiate, r.instantiate)
            continue
        bad = [(k, p, q) for k, (p, q) in enumerate(zip(r0.results, r.results)) if not (p == q or e2e.same_result(p, q))]
        if bad or len(r0.results) != len(r.results):
            add("results", bad[:2] and [bad[0][0], bad[0][1]], bad[:2] and [bad[0][0], bad[0][2]])
        if len(r0.host_log) != len(r.host_log) or any(x[0] != y[0] or not e2e.same_vals(x[1], y[1]) for x, y in zip(r0.host_log, r.host_log)):
            add("host_log", len(r0.host_log), len(r.host_log))
        if (r0.mem is None) != (r.mem is None) or (r0.mem and (r0.mem["pages"] != r.mem["pages"] or (
                r0.mem["sha256"] != r.mem["sha256"] and not (r0.mem_bytes is not None and r.mem_bytes is not None and nan_only_diff(r0.mem_bytes, r.mem_bytes))))):
            add("memory", r0.mem, r.mem)
        for gi in sorted(set(r0.all_globals) | set(r.all_globals)):
            x, y = r0.all_globals.get(gi), r.all_globals.get(gi)
            if x is None or y is None or not e2e.same_vals([tuple(x)], [tuple(y)]):
                add("global", [gi, x], [gi, y])
                break
        if r0.table != r.table:
            add("table", r0.table, r.table)
    return out


def nan_only_diff(a, b):
    """True iff byte strings a, b (same length) differ only inside f32/f64 cells (any alignment) that hold a NaN on
    both sides (the specification leaves NaN payload/sign of arithmetic results open)."""
    if len(a) != len(b):
        return False
    if a == b:
        return True
    n = len(a)
    k = 0
    import struct
    while k < n:
        if a[k] == b[k]:
            k += 1
            continue
        ok = False
        for width, fmt, ty in ((4, "<I", "f32"), (8, "<Q", "f64")):
            for o in range(max(0, k - width + 1), min(k, n - width) + 1):
                x = struct.unpack_from(fmt, a, o)[0]
                y = struct.unpack_from(fmt, b, o)[0]
                if e2e.is_nan(ty, x) and e2e.is_nan(ty, y):
                    ok = True
                    k = o + width
                    break
            if ok:
                break
        if not ok:
            return False
    return True


def v8_mem_bytes(m, b, calls, imp, n):
    if len(m.all_mems()) > 1:
        m = single_memory_variant(m)
        b = encode(m)
    v = v8.session().run(b, calls, imp, mem_hash=True, module=m, mem_dump=n)
    return bytes.fromhex(v.mem.get("hex", "")) if v.mem else b""


def mem_diag(m, b, calls, imp, rr):
    """First differing byte between the real memory and V8's."""
    if len(m.all_mems()) > 1:
        m = single_memory_variant(m)
        b = encode(m)
    n = len(rr.mem_bytes)
    v = v8.session().run(b, calls, imp, mem_hash=True, module=m, mem_dump=n)
    vb = bytes.fromhex(v.mem.get("hex", "")) if v.mem else b""
    for k in range(min(len(vb), n)):
        if vb[k] != rr.mem_bytes[k]:
            return {"first_diff": k, "real": rr.mem_bytes[k:k + 16].hex(), "v8": vb[k:k + 16].hex()}
    return {"first_diff": None, "len_real": n, "len_v8": len(vb)}


def _nan_derived(a, b):
    """two results that may both come from ONE arithmetic NaN whose sign/payload the specification leaves open: floats equal up to
    the sign bit (fNN.copysign with a NaN as sign source), or values that are both NaN patterns of a float width (reinterpret)"""
    if a[0] != "val" or b[0] != "val" or len(a[1]) != len(b[1]):
        return False
    for (t1, x), (t2, y) in zip(a[1], b[1]):
        if t1 != t2:
            return False
        if x == y:
            continue
        w = 32 if t1 in ("i32", "f32") else 64
        sign = 1 << (w - 1)
        ft = "f32" if w == 32 else "f64"
        if t1 in ("f32", "f64") and (x | sign) == (y | sign):
            continue
        if e2e.is_nan(ft, x) and e2e.is_nan(ft, y):
            continue
        return False
    return True


# ------------------------------------------------------------------------------- NaN-sign sensitivity (dynamic)
_NAN_ARITH = {"add", "sub", "mul", "div", "sqrt", "min", "max", "ceil", "floor", "trunc", "nearest"}


def _nan_sign_variant(m, negative):
    """Copy of module m in which every float ARITHMETIC result (fNN.add/sub/mul/div/sqrt/min/max/ceil/floor/trunc/nearest, demote,
    promote — the instructions whose NaN results have a sign the specification leaves open) is replaced, when it is a NaN, by the
    canonical NaN with the chosen sign.  For every execution the specification allows this is again an allowed execution."""
    import copy
    from wasmgen.wasm_ast import Instr, F32, F64
    mm = copy.deepcopy(m)
    mm.meta = getattr(m, "meta", None)
    canon = {F32: 0x7fc00000 | (0x80000000 if negative else 0), F64: 0x7ff8000000000000 | (0x8000000000000000 if negative else 0)}
    for f in mm.funcs:
        nparams = len(mm.types[f.type].params)
        base = nparams + len(f.local_types())
        f.locals.append((1, F32))
        f.locals.append((1, F64))
        tmp = {F32: base, F64: base + 1}

        def fix(body):
            out = []
            for ins in body:
                if ins.body is not None:
                    ins.body = fix(ins.body)
                if ins.else_body is not None:
                    ins.else_body = fix(ins.else_body)
                out.append(ins)
                op = ins.op
                ty = F32 if op.startswith("f32.") else F64 if op.startswith("f64.") else None
                if ty is not None and (op.split(".", 1)[1] in _NAN_ARITH or op in ("f32.demote_f64", "f64.promote_f32")):
                    pre = "f32" if ty is F32 else "f64"
                    t = tmp[ty]
                    out += [Instr("local.set", t), Instr(pre + ".const", canon[ty]), Instr("local.get", t), Instr("local.get", t),
                            Instr("local.get", t), Instr(pre + ".ne"), Instr("select")]
            return out
        f.body = fix(f.body)
    return mm


_NAN_SENS_CACHE = {}


def nan_sign_sensitive_from(spec, m, imp, calls):
    """Index of the first call of the script whose V8 outcome (result or host calls) depends on the SIGN the arithmetic NaNs take
    (module instrumented to give them all a positive / all a negative sign; both are executions the specification allows), or None."""
    key = (spec_id(spec), len(calls))
    if key in _NAN_SENS_CACHE:
        return _NAN_SENS_CACHE[key]
    res = None
    try:
        if any(i.op in NAN_LEAK_OPS for f in m.funcs for i in _walk(f.body)):
            runs = []
            for neg in (False, True):
                mv = _nan_sign_variant(m, neg)
                if len(mv.all_mems()) > 1:
                    mv = single_memory_variant(mv)
                runs.append(v8.run(encode(mv), calls, imp, mem_hash=False, module=mv))
            a, b = runs
            if a.instantiate != b.instantiate:
                res = 0
            else:
                la, lb = list(a.host_log), list(b.host_log)
                for k in range(len(calls)):
                    ra = a.results[k] if k < len(a.results) else None
                    rb = b.results[k] if k < len(b.results) else None
                    if ra != rb:
                        res = k
                        break
                if la != lb:
                    res = 0          # the arguments handed to imported functions differ somewhere (the log does not say in which call): be conservative from the start
    except Exception:
        res = None
    _NAN_SENS_CACHE[key] = res
    return res


def nan_leak_filter(spec, calls_made, diffs):
    """Drop result differences that the specification allows: the called function can reach (statically) an instruction that makes the
    sign/payload of an arithmetic NaN visible in non-NaN bits (fNN.copysign, iNN.reinterpret_fNN; NAN_LEAK_OPS) and the two results
    differ only in such bits; everything the same script observes afterwards may depend on it and is dropped too.
    Returns (kept diffs, number dropped)."""
    if not any(d.get("kind") in ("result", "host_log") and d.get("call") is not None for d in diffs):
        return diffs, 0
    try:
        m, b, imp, exports = load_module(spec)
        nimp, omitted, reach = sim_plan(m)
        leaky = set(f for f in range(nimp, nimp + len(m.funcs))
                    if any(i.op in NAN_LEAK_OPS for i in _walk(m.funcs[f - nimp].body)))
        exd = {}
        for nm, f in exports:
            exd.setdefault(bytes(nm), f)
    except Exception:
        return diffs, 0
    kept, dropped, tainted_from = [], 0, None
    # dynamic evidence: from the first call whose outcome in V8 itself changes with the sign given to arithmetic NaNs, the script's
    # observations are not determined by the specification
    try:
        calls_b = [(n_.encode("latin-1") if isinstance(n_, str) else n_, [tuple(a_) for a_ in args_]) for n_, args_ in calls_made]
        tainted_from = nan_sign_sensitive_from(spec, m, imp, calls_b)
    except Exception:
        tainted_from = None
    for d in sorted(diffs, key=lambda d: (d.get("call") is None, d.get("call") or 0)):
        c = d.get("call")
        if tainted_from is not None and (c is None or c >= tainted_from):
            dropped += 1
            continue
        if d.get("kind") == "host_log" and c is not None and 0 <= c < len(calls_made) and d.get("real") and d.get("v8") and d["real"][0] == d["v8"][0]:
            # the arguments handed to an imported function
            f = exd.get(calls_made[c][0].encode("latin-1"))
            if f is not None and any(x in leaky for x in reach(f)) and \
                    _nan_derived(("val", [tuple(v) for v in d["real"][1]]), ("val", [tuple(v) for v in d["v8"][1]])):
                tainted_from = c
                dropped += 1
                continue
        if d.get("kind") == "result" and c is not None and c < len(calls_made):
            f = exd.get(calls_made[c][0].encode("latin-1"))
            real, ref = d.get("real"), d.get("v8", d.get("spec"))
            if f is not None and real and ref and any(x in leaky for x in reach(f)) and \
                    _nan_derived((real[0], [tuple(v) for v in real[1]]) if real[0] == "val" else tuple(real),
                                 (ref[0], [tuple(v) for v in ref[1]]) if ref[0] == "val" else tuple(ref)):
                tainted_from = c
                dropped += 1
                continue
        kept.append(d)
    return kept, dropped


def run_jobs(jobs, procs=None):
    if not jobs:
        return []
    procs = procs or min(16, os.cpu_count() or 4, len(jobs))
    if procs <= 1:
        return [e2e_job(j) for j in jobs]
    with multiprocessing.Pool(procs, initializer=_init_worker) as pool:
        return pool.map(e2e_job, jobs, chunksize=1)


# ------------------------------------------------------------------------------- emit-tokens (parent side)
def emit_tokens_batch(env, specs, multi=False, pretty=False, driver_ok=True):
    """Token comparison of every function of every module: real w2c2 vs Lean model (one driver batch).
    Returns {id: {'functions', 'mismatch': [{func, at, model, real}], 'skipped': reason|None}}"""
    res = {}
    lines = []
    todo = []
    opts = (["-p"] if pretty else []) + (["-m"] if multi else [])
    for spec in specs:
        sid = spec_id(spec)
        m, b, imp, exports = load_module(spec)
        try:
            ls, fl = et.module_lines(env.join, m, "m", multi, pretty)
        except et.Unsupported as ex:
            res[sid] = {"functions": 0, "mismatch": [], "skipped": "op %s outside the emit model" % ex}
            continue
        etdir = os.path.join(env.dir, "et")
        os.makedirs(etdir, exist_ok=True)
        text, err = et.run_w2c2(env.w2c2, b, etdir, opts)
        if text is None:
            res[sid] = {"functions": 0, "mismatch": [{"func": None, "at": None, "model": None, "real": "w2c2 failed: " + str(err)[:200]}], "skipped": None}
            continue
        real = et.real_functions(text, "m", multi)
        nimp = sum(1 for im in m.imports if im.kind == "func")
        todo.append((sid, len(lines), fl, real, nimp))
        lines += ls
    outl = vlib.DriverProc(env.driver).batch(lines, timeout=3600) if (lines and driver_ok and env.driver) else []
    for sid, base, fl, real, nimp in todo:
        mm = []
        for k, li in enumerate(fl):
            if not outl:
                mm.append({"func": nimp + k, "at": None, "model": "driver unavailable", "real": None})
                continue
            ans = outl[base + li]
            if not ans.startswith("text "):
                mm.append({"func": nimp + k, "at": None, "model": ans[:200], "real": None})
                continue
            mt = et.ctokens(et.subst_dec(ans[5:]))
            rt = et.ctokens(real.get(nimp + k, ""))
            if mt != rt:
                j = next((x for x in range(min(len(mt), len(rt))) if mt[x] != rt[x]), min(len(mt), len(rt)))
                mm.append({"func": nimp + k, "at": j, "model": " ".join(mt[max(0, j - 10):j + 8]), "real": " ".join(rt[max(0, j - 10):j + 8])})
        res[sid] = {"functions": len(fl), "mismatch": mm, "skipped": None}
    return res


# ------------------------------------------------------------------------------- evidence helpers
def merge_hist(dst, src):
    for k, v in src.items():
        dst[k] = dst.get(k, 0) + v
    return dst


def top(hist, n=40):
    return dict(sorted(hist.items(), key=lambda kv: -kv[1])[:n])


def sample_of(res, maxcalls=2):
    """A readable sample of one e2e case for the evidence."""
    b0 = res["builds"][0] if res.get("builds") else None
    return {"module": res["id"], "shape": res.get("shape"), "calls": res.get("ncalls"),
            "v8_first_results": [list(r) for r in (res.get("v8") or {}).get("results", [])[:maxcalls]],
            "real_first_results": [list(r) for r in (b0["real"]["results"][:maxcalls] if b0 else [])],
            "host_calls": len((res.get("v8") or {}).get("host_log", [])),
            "mem": (res.get("v8") or {}).get("mem")}


def replay_obj(res, extra=None):
    o = {"module": res["id"], "spec": res["spec"],
         "replay_cmd": "python3 -m wasmgen --replay %s -o m.wasm   # then: python3 tools/check.py <prop> --replay <this file>" % res["id"]}
    if extra:
        o.update(extra)
    return o


# ------------------------------------------------------------------------------- sim-semantics tie (Model/Sim.lean source semantics vs V8 vs real)
CORE_OPS = {"nop", "unreachable", "drop", "select", "local.get", "local.set", "local.tee", "block", "loop", "if", "br", "br_if",
            "br_table", "return", "call", "call_indirect", "i32.const", "i64.const", "f32.const", "f64.const"}


# instructions through which the payload/sign of an arithmetic NaN (left open by the specification; the soft-float NumSem returns the
# canonical NaN, the hardware propagates payloads) becomes visible in non-NaN bits
NAN_LEAK_OPS = {"i32.reinterpret_f32", "i64.reinterpret_f64", "f32.copysign", "f64.copysign"}


def _is_core_op(op):
    """instruction covered by Model/Sim.lean (still outside: data.drop, memory.atomic.wait/notify)"""
    if op in CORE_OPS or op in ("global.get", "global.set", "memory.size", "memory.grow", "memory.copy", "memory.fill", "memory.init"):
        return True
    o = A.OPS.get(op)
    if o is None:
        return False
    if o.imm == "memarg" and o.prefix is None:
        return True
    if o.prefix == 0xFE:                  # atomic load/store/rmw/cmpxchg and fence, as executed by one thread
        return op == "atomic.fence" or (o.imm == "memarg" and not op.startswith("memory.atomic."))
    return o.imm == "none" and o.prefix in (None, 0xFC)


def _walk(body):
    for ins in body:
        yield ins
        if ins.body:
            for x in _walk(ins.body):
                yield x
        if ins.else_body:
            for x in _walk(ins.else_body):
                yield x


def core_variant(m, imp):
    """A valid module in the core covered by Model/Sim.lean derived from m: every global.get becomes the constant the
    global is initialised with, every global.set a drop (memory instructions stay; such functions are left out)."""
    import copy
    m2 = copy.deepcopy(m)
    gts = m2.global_types()
    n_imp = sum(1 for i in m2.imports if i.kind == "global")
    ords = [n for n, i in enumerate(m2.imports) if i.kind == "global"]
    gl = (imp or {}).get("globals", {})

    def gval(k):
        if k < n_imp:
            return int(gl.get(ords[k], gl.get(str(ords[k]), 0)))
        return e2e.const_value(m2, m2.globals[k - n_imp].init, imp)

    def rewrite(body):
        out = []
        for ins in body:
            if ins.op == "global.get":
                vt = gts[ins.imm[0]].valtype
                w = 32 if vt in (A.I32, A.F32) else 64
                v = gval(ins.imm[0]) & ((1 << w) - 1)
                if vt in (A.I32, A.I64) and v >= 1 << (w - 1):
                    v -= 1 << w
                out.append(A.Instr(A.VT_NAME[vt] + ".const", v))
            elif ins.op == "global.set":
                out.append(A.Instr("drop"))
            else:
                if ins.body is not None:
                    ins.body = rewrite(ins.body)
                if ins.else_body is not None:
                    ins.else_body = rewrite(ins.else_body)
                out.append(ins)
        return out
    for f in m2.funcs:
        f.body = rewrite(f.body)
    return m2


WRITE_OPS = {"global.set", "memory.grow", "memory.copy", "memory.fill", "memory.init", "data.drop"}
FLOAT_STORES = {"f32.store", "f64.store"}


def _is_write_op(op):
    return op in WRITE_OPS or ".store" in op or ".atomic." in op


def sim_plan(m):
    """Static plan for the stateful simulation run: (number of imported functions, defined functions outside the
    modelled instruction set, reach(f) -> function indices reachable through call / call_indirect)"""
    nimp = sum(1 for i in m.imports if i.kind == "func")
    omitted, leaky, writers = set(), set(), set()
    direct = {}
    indirect = {}
    for k, f in enumerate(m.funcs):
        fi = nimp + k
        ops = list(_walk(f.body))
        if not all(_is_core_op(i.op) for i in ops):
            omitted.add(fi)
        if any(i.op in NAN_LEAK_OPS or i.op in FLOAT_STORES for i in ops):
            leaky.add(fi)
        if any(_is_write_op(i.op) for i in ops):
            writers.add(fi)
        direct[fi] = set(i.imm[0] for i in ops if i.op == "call")
        indirect[fi] = any(i.op == "call_indirect" for i in ops)
    tablefuncs = set(f for seg in m.elems for f in seg.funcs)
    sim_plan.leaky = leaky
    sim_plan.writers = writers

    def reach(f0):
        seen, todo = set(), [f0]
        while todo:
            f = todo.pop()
            if f in seen:
                continue
            seen.add(f)
            if f >= nimp:
                todo += list(direct[f])
                if indirect[f]:
                    todo += list(tablefuncs)
        return seen
    return nimp, omitted, reach


def sim_script(m, exports, calls, v8_results):
    """Which calls of an e2e script the stateful model run can follow.  Returns dict(keep = length of the usable script
    prefix, run = [bool per kept call], start = 'none'|'run'|'skip', final_valid, leaky = [bool per kept call]).
    A call is runnable when its static call graph reaches no imported function and no instruction outside the model
    (bulk memory, atomics).  A call that is not runnable, or that traps (the model does not advance its state on a trap,
    V8 keeps the partial effects), ends the script if anything it can reach writes globals/memory; otherwise it is
    state-neutral and the script goes on."""
    nimp, omitted, reach = sim_plan(m)
    writers, leaky = sim_plan.writers, sim_plan.leaky
    exd = {}
    for nm, f in exports:
        exd.setdefault(bytes(nm), f)

    def info(f):
        r = reach(f)
        return (not any(x < nimp or x in omitted for x in r), any(x in writers for x in r), any(x in leaky for x in r), len(r) > 1)
    plan = {"keep": len(calls), "run": [], "start": "none", "final_valid": True, "leaky": [], "callees": [], "funcs": []}
    if m.start is not None:
        ok, wr, lk, _ = info(m.start)
        if ok:
            plan["start"] = "run"
        elif wr:
            plan["start"] = "skip"
            plan["keep"] = 0
            plan["final_valid"] = False
            return plan
    for k, (nm, args) in enumerate(calls):
        f = exd[bytes(nm)]
        ok, wr, lk, callees = info(f)
        trapped = k < len(v8_results) and v8_results[k][0] == "trap"
        if not ok and wr:
            plan["keep"] = k
            break
        plan["run"].append(ok)
        plan["leaky"].append(lk)
        plan["callees"].append(callees)
        plan["funcs"].append(f)
        if ok and trapped and wr:
            plan["keep"] = k + 1
            plan["final_valid"] = False
            break
    return plan


def sim_lines(join, m, imp, calls, plan, depth=6000):
    """Driver lines of the stateful model run of one module.  Returns (lines, {call number: line index}, elem line | None,
    start line | None)."""
    nimp, omitted, reach = sim_plan(m)
    lines, fl = et.module_lines(join, m)
    for k, li in enumerate(fl):
        if nimp + k in omitted:
            lines[li] = None
    lines = [l for l in lines if l is not None]
    gts = m.global_types()
    n_gi = sum(1 for i in m.imports if i.kind == "global")
    ords = [n for n, i in enumerate(m.imports) if i.kind == "global"]
    gl = (imp or {}).get("globals", {})
    gv = []
    for k, gt in enumerate(gts):
        w = 32 if gt.valtype in (A.I32, A.F32) else 64
        v = int(gl.get(ords[k], gl.get(str(ords[k]), 0))) if k < n_gi else e2e.const_value(m, m.globals[k - n_gi].init, imp)
        gv.append("%s:%x" % (A.VT_NAME[gt.valtype], v & ((1 << w) - 1)))
    lines.append("E ginit " + (",".join(gv) or "-"))
    mems = m.all_mems()
    if mems:
        lines.append("E meminit %d %d" % (mems[0].min, mems[0].max if mems[0].max is not None else 65536))
        for seg in m.datas:
            if seg.mode == "active" and len(seg.data):
                lines.append("E data %d %s" % (e2e.const_value(m, seg.offset, imp) & 0xFFFFFFFF, bytes(seg.data).hex()))
        for seg in m.datas:                              # every segment, in index order: what memory.init reads
            lines.append("E seg %s" % (bytes(seg.data).hex() or "-"))
    elem_at = None
    tabs = m.all_tables()
    if tabs:
        segs = ";".join("%d:%s" % (e2e.const_value(m, sg.offset, imp) & 0xFFFFFFFF, ",".join(str(f) for f in sg.funcs)) for sg in m.elems) or "-"
        elem_at = len(lines)
        lines.append("E elem %d %s" % (tabs[0].limits.min, segs))
    start_at = None
    if plan["start"] == "run":
        start_at = len(lines)
        lines.append("E mrun %d %d -" % (depth, m.start))
    runs = {}
    for cn in range(plan["keep"]):
        if plan["run"][cn]:
            nm, args = calls[cn]
            runs[cn] = len(lines)
            lines.append("E mrun %d %d %s" % (depth, plan["funcs"][cn], ",".join("%s:%x" % (t, b) for t, b in args) or "-"))
    return lines, runs, elem_at, start_at


def parse_sim_out(s):
    """`val i32:ff` / `val ` / `trap 1` / other -> result in e2e shape, or None when outside val/trap"""
    w = s.split()
    if not w:
        return None
    if w[0] == "val":
        return ("val", [(x.split(":")[0], int(x.split(":")[1], 16)) for x in w[1:]])
    if w[0] == "trap":
        return ("trap", e2e.TRAP_CLASS.get(int(w[1]), "trap" + w[1]))
    return None


_SIDE = re.compile(r"^(?P<res>.*?)(?: g (?P<g>\S*) pages (?P<p>\d+))?(?: memeq (?P<m>[01]))?\s*$")


def parse_mrun(ans):
    """`src <out>[ g <vals> pages <n>] | tgt <out>[ g … pages n][ memeq b]` -> dict or None"""
    if not ans.startswith("src "):
        return None
    a, sep, b = ans[4:].partition(" | tgt ")
    if not sep:
        return None
    ma, mb = _SIDE.match(a), _SIDE.match(b)

    def gl(x):
        return None if x is None else [(t.split(":")[0], int(t.split(":")[1], 16)) for t in x.split(",") if t]
    return {"src_text": ma.group("res").strip(), "tgt_text": mb.group("res").strip(),
            "src": parse_sim_out(ma.group("res")), "tgt": parse_sim_out(mb.group("res")),
            "src_g": gl(ma.group("g")), "tgt_g": gl(mb.group("g")), "src_pages": ma.group("p") and int(ma.group("p")),
            "tgt_pages": mb.group("p") and int(mb.group("p")), "memeq": mb.group("m")}


def _sparse_runs(sparse, cap=64, maxlen=512):
    """[(offset, bytes)] of the non-zero runs of a `size/off:hex/…` string (first `cap` runs, each cut to maxlen)"""
    parts = sparse.split("/")
    out = []
    for t in parts[1:1 + cap]:
        o, h = t.split(":")
        out.append((int(o), bytes.fromhex(h)[:maxlen]))
    return int(parts[0]), out


def sim_tie(env, results, driver_ok=True, window=4096):
    """For every e2e job result made with sim=True: the Lean simulation's SOURCE semantics (Model/Sim.lean: control flow,
    locals, globals, loads/stores, memory.size/grow, stateful calls; `E mrun` threads ONE instance state through the
    script) vs V8 vs the real compiled output, call by call, and tgt = src; final globals / pages / memory windows vs the
    real instance.  Returns counters + disagreements."""
    out = {"cases": 0, "calls_considered": 0, "skipped": {}, "disagreements": [], "tables_compared": 0, "outcomes": {},
           "modules": 0, "modules_with_memory": 0, "modules_with_globals": 0, "calls_in_modules_with_memory": 0,
           "calls_in_modules_with_globals": 0, "start_functions_run": 0, "grows_observed": 0, "final_states_compared": 0,
           "memory_bytes_compared": 0, "global_values_compared": 0, "runs_whose_call_graph_has_callees": 0,
           "state_neutral_calls_skipped": 0}
    lines, plans = [], []

    def skip(k, n=1):
        out["skipped"][k] = out["skipped"].get(k, 0) + n
    for res in results:
        if res.get("error") or not res.get("builds") or "sim_plan" not in res:
            continue
        real = res["builds"][0]["real"]
        if tuple(real["instantiate"]) != ("ok",):
            continue
        plan = res["sim_plan"]
        out["calls_considered"] += res.get("sim_calls_before_truncation", len(res["calls_made"]))
        if plan["start"] == "skip":
            skip("start-function-leaves-model", 1)
            continue
        m, b, imp, exports = load_module(res["spec"])
        calls = [(n.encode("latin-1"), [(t, int(v)) for t, v in a]) for n, a in res["calls_made"]]
        try:
            ls, runs, elem_at, start_at = sim_lines(env.join, m, imp, calls, plan)
        except et.Unsupported:
            skip("module-outside-emit-model")
            continue
        base = len(lines)
        lines += ls
        # memory windows to read back at the end: the first `window` bytes, every active segment, every non-zero run of the real dump
        peeks = []
        fsp = res["builds"][0].get("final_mem_sparse")
        if plan["final_valid"] and fsp is not None and runs:
            size, rr_runs = _sparse_runs(fsp)
            want = [(0, min(window, size))]
            for seg in m.datas:
                if seg.mode == "active" and len(seg.data):
                    o = e2e.const_value(m, seg.offset, imp) & 0xFFFFFFFF
                    want.append((o, min(len(seg.data), 512)))
            want += [(o, len(bs)) for o, bs in rr_runs]
            # widen by one f64 cell on both sides (a NaN's zero bytes are not part of a non-zero run)
            want = [(max(0, o - 8), min(size, o + n + 8) - max(0, o - 8)) for o, n in want]
            for o, n in want:
                if n > 0 and o + n <= size:
                    peeks.append((len(lines), o, n))
                    lines.append("E mpeek %d %d" % (o, n))
        plans.append((res, m, plan, base, runs, elem_at, start_at, peeks))
    if not (lines and driver_ok and env.driver):
        return out
    ans = vlib.DriverProc(env.driver).batch(lines, timeout=7200)
    for res, m, plan, base, runs, elem_at, start_at, peeks in plans:
        sid = res["id"]
        real = res["builds"][0]["real"]
        v8r = res["v8"]["results"]
        has_mem = bool(m.all_mems())
        has_glob = bool(m.global_types())
        out["modules"] += 1
        out["modules_with_memory"] += has_mem
        out["modules_with_globals"] += has_glob

        def bad(what, **kw):
            out["disagreements"].append(dict({"module": sid, "what": what}, **kw))
        if elem_at is not None and real.get("table") is not None:
            a = ans[base + elem_at]
            if a.startswith("tbl"):
                mt = [None if x == "-" else int(x) for x in a[4:].split(",")] if a[4:] else []
                out["tables_compared"] += 1
                if e2e.canon_table(m, mt) != list(real["table"]):
                    bad("E elem (Model.initTable) vs table of the real instance", model=mt, real=real["table"])
            else:
                bad("E elem", model=a[:200])
        tainted = False           # a NaN payload (left open by the spec) may have leaked into integer bits / control flow
        alive = True
        last = None
        if start_at is not None:
            p = parse_mrun(ans[base + start_at])
            if p is None or p["src"] is None or p["src"][0] != "val":
                skip("start:" + (ans[base + start_at][:30]))
                alive = False
            else:
                out["start_functions_run"] += 1
                last = p
                if p["tgt"] != p["src"] or p["tgt_g"] != p["src_g"] or p["tgt_pages"] != p["src_pages"] or p["memeq"] != "1":
                    bad("start function: tgt != src", answer=ans[base + start_at][:300])
        pages_before = last["src_pages"] if last else None
        for cn in range(plan["keep"]):
            if not alive:
                break
            if not plan["run"][cn]:
                out["state_neutral_calls_skipped"] += 1
                continue
            a = ans[base + runs[cn]]
            p = parse_mrun(a)
            if p is None:
                skip("driver:" + a[:24])
                alive = False
                break
            if p["src"] is None:
                skip("src:" + " ".join(p["src_text"].split()[:2]))
                alive = False
                break
            tainted = tainted or plan["leaky"][cn]
            out["cases"] += 1
            out["calls_in_modules_with_memory"] += has_mem
            out["calls_in_modules_with_globals"] += has_glob
            out["runs_whose_call_graph_has_callees"] += bool(plan["callees"][cn])
            ok = p["src"][0] if p["src"][0] != "trap" else "trap:" + p["src"][1]
            out["outcomes"][ok] = out["outcomes"].get(ok, 0) + 1
            v = v8r[cn] if cn < len(v8r) else None
            r = real["results"][cn] if cn < len(real["results"]) else None
            v = (v[0], [tuple(x) for x in v[1]]) if v and v[0] == "val" else (tuple(v) if v else v)
            r = (r[0], [tuple(x) for x in r[1]]) if r and r[0] == "val" else (tuple(r) if r else r)
            problems = []
            if p["tgt"] is None or not (p["tgt"] == p["src"] or e2e.same_result(p["tgt"], p["src"])):
                problems.append("tgt != src")
            elif p["src"][0] == "val" and (p["tgt_g"] != p["src_g"] or p["tgt_pages"] != p["src_pages"] or p["memeq"] != "1"):
                problems.append("tgt state != src state")
            if v is None or not e2e.same_result(p["src"], v):
                problems.append("src != V8")
            if r is None or not e2e.same_result(r, p["src"]):
                problems.append("src != real")
            if p["src"][0] == "val":
                if pages_before is not None and p["src_pages"] is not None and p["src_pages"] != pages_before:
                    out["grows_observed"] += 1
                pages_before = p["src_pages"]
                last = p
            if problems:
                if tainted and not any(x.startswith("tgt") for x in problems) and v is not None and r is not None and e2e.same_result(r, v):
                    out["nan_payload_leaks_tolerated"] = out.get("nan_payload_leaks_tolerated", 0) + 1
                else:
                    bad(", ".join(problems), call=res["calls_made"][cn], answer=a[:400], v8=v, real=r)
                alive = False       # the states may have diverged
        # final state
        if alive and plan["final_valid"] and last is not None and plan["keep"] == len(res["calls_made"]):
            out["final_states_compared"] += 1
            fin = real.get("all_globals") or {}
            mg = last["src_g"] or []
            for k, (t, bits) in enumerate(mg):
                rg = fin.get(k, fin.get(str(k)))
                if rg is None:
                    continue
                out["global_values_compared"] += 1
                if not e2e.same_vals([(t, bits)], [tuple(rg)]):
                    if tainted:
                        out["nan_payload_leaks_tolerated"] = out.get("nan_payload_leaks_tolerated", 0) + 1
                    else:
                        bad("final value of global %d" % k, model=(t, bits), real=rg)
                    break
            if has_mem and real.get("mem") and last["src_pages"] is not None and last["src_pages"] != real["mem"]["pages"]:
                bad("final page count", model=last["src_pages"], real=real["mem"]["pages"])
            fsp = res["builds"][0].get("final_mem_sparse")
            if peeks and fsp is not None:
                size, rr_runs = _sparse_runs(fsp, cap=100000, maxlen=1 << 30)
                img = {}
                for o, bs in rr_runs:
                    img[o] = bs

                def real_bytes(o, n):
                    buf = bytearray(n)
                    for ro, bs in rr_runs:
                        lo, hi = max(o, ro), min(o + n, ro + len(bs))
                        if lo < hi:
                            buf[lo - o:hi - o] = bs[lo - ro:hi - ro]
                    return bytes(buf)
                for li, o, n in peeks:
                    a = ans[li]
                    if not a.startswith("bytes "):
                        bad("E mpeek", answer=a[:100])
                        break
                    mb = bytes.fromhex(a[6:].strip())
                    rb = real_bytes(o, n)
                    out["memory_bytes_compared"] += n
                    if mb != rb and nan_only_diff(mb, rb):
                        out["nan_payload_leaks_tolerated"] = out.get("nan_payload_leaks_tolerated", 0) + 1
                    elif mb != rb and tainted:
                        # bytes of an arithmetic NaN (payload left open by the specification; canonical in the model, propagated by
                        # the hardware) were moved out of their cell by a narrower store / memory.copy / an overlapping store: the
                        # real output's memory is judged against V8's by the e2e part of the same job, not against the model here
                        out["nan_payload_leaks_tolerated"] = out.get("nan_payload_leaks_tolerated", 0) + 1
                    elif mb != rb:
                        k = next(i for i in range(n) if mb[i] != rb[i])
                        bad("final memory at %d" % (o + k), model=mb[k:k + 16].hex(), real=rb[k:k + 16].hex())
                        break
    return out


def sim_directed_specs():
    """Hand-built modules that make the stateful part of the simulation tie deterministic: memory.grow up to and beyond the
    declared maximum, memory.size, stores/loads of every width at page ends and in grown pages, mutable globals of all four
    types, callees that write state their callers read."""
    I = A.Instr
    m = A.Module()
    m.types = [A.FuncType([A.I32], [A.I32]), A.FuncType([], [A.I32]), A.FuncType([A.I32, A.I32], [A.I32]), A.FuncType([A.I32, A.I64], [A.I64]),
               A.FuncType([A.I32, A.F64], [A.F64]), A.FuncType([A.I64], [A.I64]), A.FuncType([A.F32], [A.F32])]
    m.mems = [A.Limits(1, 4)]
    m.globals = [A.Global(A.GlobalType(A.I32, True), I("i32.const", 5)), A.Global(A.GlobalType(A.I64, True), I("i64.const", -3)),
                 A.Global(A.GlobalType(A.F32, True), I("f32.const", 0x3FC00000)), A.Global(A.GlobalType(A.F64, True), I("f64.const", 0x4000000000000000))]
    m.datas = [A.DataSegment("active", b"\x01\x02\x03\x04\xff\xfe", I("i32.const", 65530), 0), A.DataSegment("active", b"sim", I("i32.const", 8), 0)]
    F = []
    F.append((b"grow", 0, [I("local.get", 0), I("memory.grow")]))
    F.append((b"size", 1, [I("memory.size")]))
    F.append((b"st32", 2, [I("local.get", 0), I("local.get", 1), I("i32.store", 2, 0), I("local.get", 0), I("i32.load", 0, 0)]))
    F.append((b"st16ld8s", 2, [I("local.get", 0), I("local.get", 1), I("i32.store16", 0, 1), I("local.get", 0), I("i32.load8_s", 0, 2)]))
    F.append((b"st64", 3, [I("local.get", 0), I("local.get", 1), I("i64.store", 0, 3), I("local.get", 0), I("i64.load32_u", 0, 5)]))
    F.append((b"stf", 4, [I("local.get", 0), I("local.get", 1), I("f64.store", 3, 16), I("local.get", 0), I("f64.load", 0, 16)]))
    F.append((b"ld8u", 0, [I("local.get", 0), I("i32.load8_u", 0, 0)]))
    F.append((b"gadd", 0, [I("global.get", 0), I("local.get", 0), I("i32.add"), I("global.set", 0), I("global.get", 0)]))
    F.append((b"gmul", 5, [I("global.get", 1), I("local.get", 0), I("i64.mul"), I("global.set", 1), I("global.get", 1)]))
    F.append((b"gf", 6, [I("global.get", 2), I("local.get", 0), I("f32.add"), I("global.set", 2), I("global.get", 3), I("f64.const", 0x3FE0000000000000),
                        I("f64.mul"), I("global.set", 3), I("global.get", 2)]))
    # a caller that reads what its callees wrote: st32(a, g0) through call, then grow(1), then size*1000 + load
    F.append((b"chain", 0, [I("local.get", 0), I("i32.const", 7), I("call", 7), I("call", 2), I("drop"), I("i32.const", 1), I("call", 0), I("drop"),
                           I("call", 1), I("i32.const", 1000), I("i32.mul"), I("local.get", 0), I("call", 6), I("i32.add")]))
    for nm, ty, body in F:
        m.funcs.append(A.Function(ty, [], body))
        m.exports.append(A.Export(nm, "func", len(m.funcs) - 1))
    m.exports.append(A.Export(b"mem", "memory", 0))
    for k in range(4):
        m.exports.append(A.Export(b"g%d" % k, "global", k))
    P = 65536
    calls = [(b"size", []), (b"ld8u", [("i32", 65535)]), (b"ld8u", [("i32", 9)]), (b"grow", [("i32", 1)]), (b"size", []),
             (b"st32", [("i32", P + 4), ("i32", 0xDEADBEEF)]), (b"st16ld8s", [("i32", P - 3), ("i32", 0x80F1)]), (b"grow", [("i32", 5)]),
             (b"grow", [("i32", 0)]), (b"grow", [("i32", 2)]), (b"size", []), (b"st64", [("i32", 4 * P - 16), ("i64", 0x1122334455667788)]),
             (b"stf", [("i32", 100), ("f64", 0x400921FB54442D18)]), (b"gadd", [("i32", 0xFFFFFFFF)]), (b"gadd", [("i32", 100)]),
             (b"gmul", [("i64", 0x100000001)]), (b"gf", [("f32", 0x40200000)]), (b"gf", [("f32", 0xBF800000)]), (b"grow", [("i32", 1)]),
             (b"chain", [("i32", 300)]), (b"ld8u", [("i32", 300)]), (b"size", [])]
    spec = {"hex": encode(m).hex(), "imports_spec": {"globals": {}}, "id": "sim-directed/grow-store-globals-chain",
            "calls": [[n.hex(), [[t, b] for t, b in a]] for n, a in calls]}
    # the same module with max == min: every grow(>0) fails
    m.mems = [A.Limits(1, 1)]
    calls2 = [(b"grow", [("i32", 1)]), (b"size", []), (b"grow", [("i32", 0)]), (b"st32", [("i32", P - 4), ("i32", 77)]), (b"gadd", [("i32", 1)]), (b"size", [])]
    spec2 = {"hex": encode(m).hex(), "imports_spec": {"globals": {}}, "id": "sim-directed/grow-at-maximum",
             "calls": [[n.hex(), [[t, b] for t, b in a]] for n, a in calls2]}
    return [spec, spec2]


def sim_step(chk, PROP, env, specs, per_func, driver_ok, broken, judge=None, stats=None, behav=None, prefix="sim_semantics_"):
    """Run `specs` e2e with sim-friendly scripts, judge the e2e part with `judge(chk, PROP, res, stats) -> bool` (behavioural
    violation found), then the stateful sim-semantics tie; counters go to chk.coverage under `prefix`, disagreements that the e2e
    run does not explain to `broken` as correspondence `sim-semantics`."""
    behav = set() if behav is None else behav
    specs = sim_directed_specs() + list(specs)
    jobs = [dict(spec=s, env=env.tuple(), builds=[("gcc", ("-O1",), False)], per_func=per_func, keep_mem=True, memdiag=True, sim=True)
            for s in specs]
    results = run_jobs(jobs)
    for res in results:
        if judge is not None and judge(chk, PROP, res, stats):
            behav.add(res["id"])
    sim = sim_tie(env, results, driver_ok=driver_ok)
    chk.coverage["evaluations"] += sim["cases"]
    unexplained = [x for x in sim["disagreements"] if x["module"] not in behav]
    if unexplained:
        broken.append({"kind": "correspondence", "name": "sim-semantics",
                       "msg": "%d disagreement(s) between Model.Sim (src/tgt over the instance state), V8 and the real output; first: %r"
                              % (len(sim["disagreements"]), unexplained[0]),
                       "modules": sorted(set(x["module"] for x in unexplained))[:10]})
    cov = {prefix + "modules": sim["modules"], prefix + "cases": sim["cases"], prefix + "outcomes": sim["outcomes"],
           prefix + "skipped": sim["skipped"], prefix + "calls_considered": sim["calls_considered"],
           prefix + "disagreements": len(sim["disagreements"]),
           prefix + "nan_payload_leaks_tolerated": sim.get("nan_payload_leaks_tolerated", 0),
           prefix + "runs_whose_call_graph_has_callees": sim["runs_whose_call_graph_has_callees"],
           prefix + "tables_compared_with_E_elem": sim["tables_compared"],
           prefix + "modules_with_memory": sim["modules_with_memory"], prefix + "modules_with_globals": sim["modules_with_globals"],
           prefix + "calls_in_modules_with_memory": sim["calls_in_modules_with_memory"],
           prefix + "calls_in_modules_with_globals": sim["calls_in_modules_with_globals"],
           prefix + "grows_observed": sim["grows_observed"], prefix + "start_functions_run": sim["start_functions_run"],
           prefix + "final_states_compared": sim["final_states_compared"], prefix + "memory_bytes_compared": sim["memory_bytes_compared"],
           prefix + "global_values_compared": sim["global_values_compared"],
           prefix + "state_neutral_calls_skipped": sim["state_neutral_calls_skipped"]}
    for k, v in cov.items():
        if isinstance(v, int) and isinstance(chk.coverage.get(k), int):
            chk.coverage[k] += v
        elif isinstance(v, dict) and isinstance(chk.coverage.get(k), dict):
            merge_hist(chk.coverage[k], v)
        else:
            chk.coverage[k] = v
    return sim, results
