"""C19 — see memcheck.py (shared implementation for the memory accessor functions) and DESIGN.md §5 C19."""
import memcheck


def run(tier):
    return memcheck.run(tier, "C19")


def replay(path):
    return memcheck.replay(path, "C19")
