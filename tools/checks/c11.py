"""C11 — generated C is well-defined: same results for every compiler and -O level.

Obligations: theorems of Props/C11.lean when present (compile_no_ub, slots_unsigned, shifts_masked, div_guarded,
f2i_guarded, unaligned_via_memcpy, decls_cover_uses, labels_unique …).
The part of the statement that is about real compilers (DESIGN §5 C11) is covered by the compile/run matrix: the
output of the REAL w2c2 for generated modules (wasmgen profiles int/float/control/memory + corpus) is compiled with
{gcc 12, clang 14} x {-O0, -O2} (quick) / {-O0..-O3} x {-std=gnu89, default} (thorough) x {plain,
-fsanitize=address,undefined -fno-sanitize-recover=all}, always with `-Wall -Werror=implicit-function-declaration`;
every build runs the same call script (scripts stop before the first call that V8 answers with an out-of-bounds /
signature trap: w2c2 emits no such checks, those inputs are outside the property).  Required: every build compiles;
no sanitizer report; all builds print identical results (floats that are NaN on both sides compare by class: the
specification leaves payloads open) and equal V8.  Directed cases: names containing `"` or `\\` (pasted into C
string literals by w2c2).
"""
import json
import re

import vlib
import e2e
import e2e_common as ec
from wasmgen import wasm_ast as A, encode

PROP = "C11"
WARN = ("-Wall", "-Werror=implicit-function-declaration")
KEY_NAMES = "name-pasted-unescaped-into-c-string-literal"


def build_matrix(tier):
    out = []
    if tier == "quick":
        for cc in ("gcc", "clang"):
            for o in ("-O0", "-O2"):
                for san in (False, True):
                    out.append((cc, (o,) + WARN, san))
    else:
        for cc in ("gcc", "clang"):
            for o in ("-O0", "-O1", "-O2", "-O3"):
                for std in ((), ("-std=gnu89",)):
                    for san in (False, True):
                        out.append((cc, (o,) + std + WARN, san))
    return out


def name_specs():
    """valid modules whose import / export names contain characters that are special inside a C string literal"""
    I = A.Instr
    out = []
    for tag, (imod, ifld, ename) in (("quote-in-import-module", (b'a"b', b"g", b"e")), ("backslash-in-import-field", (b"env", b"g\\", b"e")),
                                     ("quote-in-export", (b"env", b"g", b'e"x')), ("backslash-in-export", (b"env", b"g", b"e\\")),
                                     ("backslash-n-in-import", (b"a\\n", b"g", b"e")), ("percent-and-utf8", ("%sä".encode(), b"%d", b"e%n"))):
        m = A.Module()
        m.types = [A.FuncType([], [A.I32])]
        m.imports = [A.Import(imod, ifld, "global", A.GlobalType(A.I32, False))]
        m.funcs = [A.Function(0, [], [I("global.get", 0)])]
        m.exports = [A.Export(ename, "func", 0)]
        out.append({"hex": encode(m).hex(), "imports_spec": {"globals": {"0": 42}}, "calls": [[ename.hex(), []]],
                    "id": "names/" + tag, "names_case": True})
    # import MODULE names starting with a digit: the C identifier <module>__<field> must still be an identifier (/repo ed458af; before it
    # `(import "1env" "f")` gave `U32 1env__f(void*,U32);`), for every kind of import
    for tag, imod in (("digit-module", b"1env"), ("digit-only-module", b"0"), ("digit-underscore-module", b"9x_"), ("digit-underscores", b"5__"),
                      ("digit-utf8-module", "3ä".encode())):
        m = A.Module()
        m.types = [A.FuncType([], [A.I32]), A.FuncType([A.I32], [A.I32])]
        m.imports = [A.Import(imod, b"g", "global", A.GlobalType(A.I32, False)), A.Import(imod, b"f", "func", 1),
                     A.Import(imod, b"m", "memory", A.Limits(1, 1)), A.Import(imod, b"t", "table", A.TableType(A.Limits(2, None)))]
        m.funcs = [A.Function(0, [], [I("global.get", 0), I("call", 0), I("i32.const", 0), I("i32.load8_u", 0, 0), I("i32.add")])]
        m.exports = [A.Export(b"e", "func", 1)]
        out.append({"hex": encode(m).hex(), "imports_spec": {"globals": {"0": 42}}, "calls": [["65", []]], "id": "names/" + tag})
    return out


def make_jobs(env, specs, builds):
    return [dict(spec=s, env=env.tuple(), builds=builds, per_func=3, keep_mem=True, cross_build=True) for s in specs]


def san_kind(line):
    m = re.search(r"runtime error: (.*)", line or "")
    if m:
        return re.sub(r"[-+]?\d[\d.e+x-]*", "N", m.group(1))[:60].strip().replace(" ", "-")
    m = re.search(r"AddressSanitizer: ([\w-]+)", line or "")
    return "asan-" + m.group(1) if m else "sanitizer-report"


def bname(b):
    return "%s %s%s" % (b[0], " ".join(b[1]), " +sanitizers" if b[2] else "")


def judge(chk, res, stats):
    sid = res["id"]
    if res.get("error"):
        stats["errors"].append("%s: %s" % (sid, res["error"]))
        return
    names_case = bool(res["spec"].get("names_case"))
    for b in res["builds"]:
        stats["builds"] += 1
        real = b["real"]
        ri = real["instantiate"]
        cmd = real["build"][-1:] if real["build"] else []
        stats["calls_compared"] += b["info"]["compared_calls"]
        if ri[0] == "w2c2_error":
            chk.violation("w2c2-rejects-valid-module:" + sid, "the real w2c2 fails on a valid module: %s" % (ri[1],), ec.replay_obj(res), True)
            return
        if ri[0] == "build_error":
            cls = b.get("build_error_class")
            if names_case:
                key = KEY_NAMES
                what = ("an import/export name containing `\"` or `\\` is pasted unescaped into a C string literal "
                        "(resolve(\"…\") / FuncExports): the generated C does not compile: %s" % ri[1][:200])
            else:
                key = cls if cls == "stack-slot-used-but-never-declared" else "%s:%s" % (cls, sid)
                what = "the C emitted for a valid module does not compile with `%s` (%s): %s" % (bname(b["build"]), cls, ri[1][:300])
            chk.violation(key, what, ec.replay_obj(res, {"command": cmd, "error": ri[1]}), True)
            return
        if real.get("ub") and names_case:
            chk.violation(KEY_NAMES, "an import name containing `\\` is pasted unescaped into the C string literal handed to resolve(): the embedder is asked "
                          "for a different name (`\\n` became a newline), the import stays unbound: %s" % real["ub"], ec.replay_obj(res, {"command": cmd, "report": real["ub"]}), True)
            continue
        if real.get("ub"):
            chk.violation("%s:%s" % (san_kind(real["ub"]), sid),
                          "sanitizer report while running the compiled output on an in-bounds input (build `%s`): %s" % (bname(b["build"]), real["ub"]),
                          ec.replay_obj(res, {"command": cmd, "report": real["ub"],
                                              "call": next((c for c, r in zip(res.get("calls_made", []), real["results"]) if r[0] == "ub"), None)}), True)
            continue
        for d in b["diffs"][:2]:
            call = res["calls_made"][d["call"]] if d.get("call") is not None and d["call"] < len(res.get("calls_made", [])) else None
            if names_case:
                chk.violation(KEY_NAMES, "an import/export name containing `\"` or `\\` is pasted unescaped into a C string literal: the embedder's "
                              "resolver is asked for a different name / the program misbehaves: %r" % (d,), ec.replay_obj(res, {"command": cmd, "disagreement": d}), True)
            else:
                chk.violation("e2e-%s:%s" % (d["kind"], sid),
                              "build `%s` of the real w2c2's output disagrees with the specification (V8) in %s: real %r, specified %r"
                              % (bname(b["build"]), d["kind"], d.get("real"), d.get("v8")),
                              ec.replay_obj(res, {"command": cmd, "disagreement": d, "call": call}), True)
    for d in res.get("cross", [])[:2]:
        stats["cross_pairs_differing"] += 1
        chk.violation("cross-build-%s:%s" % (d["field"], sid),
                      "two builds of the same generated C print different %s: `%s` -> %r, `%s` -> %r"
                      % (d["field"], bname(d["build_a"]), d["a"], bname(d["build_b"]), d["b"]),
                      ec.replay_obj(res, {"commands": [d["cmd_a"], d["cmd_b"]], "difference": d}), True)


def run(tier):
    chk = vlib.Check(PROP, tier)
    builds = build_matrix(tier)
    chk.coverage["trusted_base"] = list(vlib.GLOBAL_TRUSTED) + [
        "gcc 12.2 / clang 14 UBSan+ASan instrumentation reports the undefined behaviours it documents (signed overflow, shift, "
        "float-cast-overflow, alignment, bounds of heap objects); absence of a report is evidence, not proof, of absence of UB",
        "V8 (node 20) as reference for the printed results"]
    chk.assumptions = ["compiler acceptance is a fact about the compilers in the image (gcc 12.2, clang 14, x86-64 LE); it is tested over the matrix, not proved",
                       "forced big-endian builds are C19's subject"]
    # C04Ident: the C symbol of every import is a C identifier (regenerated mangling rule); C04Members: the instance struct declares the
    # C symbol of every imported global / memory / table exactly once, also when an object is imported several times (regenerated member writers)
    pr = ec.prove_if_present(chk, ["C11", "C11Ops", "C04Ident", "C04Members"], ec.GENS + [("Members", "gen_members")])
    broken = list(pr["errors"])
    n = {"quick": {"int": 40, "float": 40, "control": 60, "memory": 40},
         "thorough": {"int": 100, "float": 100, "control": 160, "memory": 100, "calls": 40, "init": 40}}[tier]
    stats = {"errors": [], "builds": 0, "calls_compared": 0, "cross_pairs_differing": 0}
    with vlib.scratch("c11-") as d:
        env = ec.Env(d)
        corpus = ec.corpus_specs(PROP)
        names = name_specs()
        gen = [s for prof, k in n.items() for s in ec.gen_specs(chk.seed, prof, k)]
        # the same compile/run matrix on the output written under the other output options (-p, -m, -p -m): a share of the generated modules
        optv = []
        nopt = 4 if tier == "quick" else 20
        for prof in n:
            for s_ in [g for g in gen if g.get("profile") == prof][:nopt]:
                for opts in ec.OPTION_SETS:
                    v = ec.option_variant(s_, opts)
                    if v is not None:
                        optv.append(v)
        specs = corpus + names + gen + optv
        results = ec.run_jobs(make_jobs(env, specs, builds))
        ops, outcomes, profs = {}, {}, {}
        for res in results:
            judge(chk, res, stats)
            if res.get("error"):
                continue
            ec.merge_hist(ops, res.get("ops", {}))
            for r in (res.get("v8") or {}).get("results", []):
                k = r[0] if r[0] != "trap" else "trap:" + r[1]
                outcomes[k] = outcomes.get(k, 0) + 1
            p = res["spec"].get("profile", "directed")
            profs[p] = profs.get(p, 0) + 1
            chk.count_case(("matrix", res["id"]), res.get("ncalls", 0) > 0,
                           dict(ec.sample_of(res), builds=len(res["builds"])) if len(chk.coverage["samples"]) < 6 and res.get("ncalls", 0) > 2 else None)
        # emit-tokens keeps the theorems' model tied to the same modules
        tok = ec.emit_tokens_batch(env, gen + names + corpus, driver_ok=pr["driver_ok"])      # (directed names: Model.Render's import identifiers)
        nfun = sum(t["functions"] for t in tok.values())
        bad = [(sid, t["mismatch"][0]) for sid, t in tok.items() if t["mismatch"]]
        if bad:
            broken.append({"kind": "correspondence", "name": "emit-tokens", "msg": "%d modules differ, first %s: %r" % (len(bad), bad[0][0], bad[0][1])})
        chk.coverage.update({
            "programs": len([r for r in results if not r.get("error")]),
            "disagreements_checked": stats["calls_compared"],
            "rule": "a case = one module (corpus / directed names / wasmgen seed:profile:index) x the whole build matrix; every build runs the same "
                    "call script (3 boundary-heavy argument vectors per exported function, truncated before V8-only traps); checked: compiles with "
                    "-Wall -Werror=implicit-function-declaration, no sanitizer report, pairwise identical output across builds, equal to V8; "
                    "non-trivial = at least one call executed",
            "build_matrix": [bname(b) for b in builds], "builds_run": stats["builds"],
            "modules_by_profile": profs, "call_outcomes": outcomes, "op_histogram": ec.top(ops, 60),
            "emit_tokens_functions": nfun, "emit_tokens_mismatching_modules": len(bad),
            "nan_only_memory_differences_tolerated": sum(1 for r in results if r.get("nan_only_memory_difference")),
            "traces_validated_against_impl": stats["calls_compared"],
        })
        numeric_ub_search(chk, env.repo, d, tier, pr, broken)
    if stats["errors"]:
        chk.notes.append({"tool_errors": stats["errors"][:10]})
        if len(stats["errors"]) > max(3, len(results) // 20):
            raise RuntimeError("too many e2e tool errors: %r" % stats["errors"][:5])
    if tier == "thorough" and pr.get("modules") and pr["build_ok"]:
        import common
        for mname, msg in common.leanchecker(chk, pr["modules"]):
            broken.append({"kind": "leanchecker", "msg": "%s: %s" % (mname, msg)})
    if broken and not chk.violations and not chk.known_hit:
        chk.violation("tie-or-proof-broken", "a proof obligation or the emit-tokens correspondence no longer checks; the compile/run matrix found "
                      "no module on which a build fails, a sanitizer fires or two builds differ", {"broken": broken[:20], "correspondence": "emit-tokens"}, False)
    elif broken:
        chk.notes.append({"broken": broken[:10]})
    return chk.finish()


OPS_BUILDS = {"quick": [("gcc", ("-O1",)), ("clang", ("-O2",))],
              "thorough": [("gcc", ("-O0",)), ("gcc", ("-O2",)), ("clang", ("-O0",)), ("clang", ("-O3",))]}
UBSAN = ("-fsanitize=undefined,float-cast-overflow", "-fno-sanitize-recover=all")   # float division by zero is defined (IEC 60559, Annex F)


def numeric_ub_search(chk, repo, d, tier, pr, broken):
    """Every numeric opcode through the whole pipeline (real w2c2 -> C -> gcc/clang with UBSan, trapping on the first
    report) on the boundary operands of its types (INT_MIN / -1, shift counts >= width, ±2^31, ±2^63, NaN, ±inf, …)
    plus random ones: a sanitizer abort, a crash, or an answer different from `Spec.numOp` is a failing input for
    the numeric part of C11 (Props/C11Ops)."""
    import os
    import subprocess
    import c01
    import opmods
    import runtime_ops as ro
    nops = opmods.numeric_ops()
    ecases = c01.e2e_cases(chk.rng, nops, 30 if tier == "quick" else 300)
    elines = [opmods.line_for(o, v) for o, v in ecases]
    espec = vlib.DriverProc().batch([opmods.spec_line_for(o, v) for o, v in ecases]) if pr["driver_ok"] else None
    ran = 0
    for cc, copts in OPS_BUILDS[tier]:
        wd = os.path.join(d, "ops_%s_%s" % (cc, "".join(c for c in "".join(copts) if c.isalnum())))
        os.makedirs(wd, exist_ok=True)
        try:
            exe, _ = opmods.build_harness(repo, wd, nops, cc=cc, copts=tuple(copts) + UBSAN)
        except Exception as e:
            broken.append({"kind": "e2e-build", "msg": "opcode module, %s %s: %s" % (cc, " ".join(copts), str(e)[-800:])})
            continue
        # one batch per opcode: an opcode whose emitted statement is undefined aborts on many operands; three crashing operands
        # are enough evidence, the rest of that opcode's operands is skipped (a crash is an answer, never a tool failure)
        by_op = {}
        for i, (op, vals) in enumerate(ecases):
            by_op.setdefault(op[0], []).append(i)
        real = [None] * len(ecases)
        for opname, idxs in by_op.items():
            pos = 0
            crashes = 0
            while pos < len(idxs) and crashes < 3:
                chunk = idxs[pos:]
                p = subprocess.run([exe], input="\n".join(elines[i] for i in chunk) + "\n", stdout=subprocess.PIPE, stderr=subprocess.PIPE, text=True, timeout=600)
                out = p.stdout.splitlines()
                for i, o in zip(chunk, out):
                    real[i] = o
                if len(out) >= len(chunk):
                    break
                msg = [l for l in p.stderr.splitlines() if "runtime error" in l][:1] or p.stderr.strip().splitlines()[-1:] or [""]
                real[chunk[len(out)]] = "crash rc=%s %s" % (p.returncode, msg[0][-160:])
                crashes += 1
                pos += len(out) + 1
        for i, (op, vals) in enumerate(ecases):
            if real[i] is None:
                continue
            ran += 1
            bad = real[i].startswith("crash") or (espec is not None and not ro.same_result(real[i], espec[i]))
            chk.count_case(("ops-ubsan", cc, copts, op[0], vals), True, None)
            if bad:
                chk.violation("%s-ubsan-%s" % (op[1], "crash" if real[i].startswith("crash") else "differs"),
                              "%s on %s: output of the real w2c2 compiled by %s %s with UBSan answers `%s`, the specification requires `%s`"
                              % (op[1], " ".join("%s:%x" % (t, v) for t, v in zip(op[2], vals)), cc, " ".join(copts), real[i], espec[i] if espec else "?"),
                              {"opsline": elines[i], "cc": cc, "copts": list(copts), "real": real[i], "spec": espec[i] if espec else None}, True)
    chk.coverage["numeric_opcode_ubsan_cases"] = ran
    chk.coverage["numeric_opcode_ubsan_builds"] = ["%s %s" % (cc, " ".join(co)) for cc, co in OPS_BUILDS[tier]]


def replay_opsline(r):
    import os
    import opmods
    import runtime_ops as ro
    with vlib.scratch("c11r-") as d:
        repo = vlib.copy_repo(os.path.join(d, "repo"))
        exe, _ = opmods.build_harness(repo, d, opmods.numeric_ops(), cc=r["cc"], copts=tuple(r["copts"]) + UBSAN)
        out = ro.run_lines(exe, [r["opsline"]])[0]
    print("replay `%s` (%s %s + UBSan): real `%s` specification `%s`" % (r["opsline"], r["cc"], " ".join(r["copts"]), out, r["spec"]))
    return 1 if out.startswith("crash") or (r["spec"] is not None and not ro.same_result(out, r["spec"])) else 0


def replay(path):
    r = json.load(open(path))
    if "opsline" in r:
        return replay_opsline(r)
    if "spec" not in r:
        print("replay: no module in this file: %r" % (r.get("broken"),))
        return 1
    tier = r.get("tier", "quick")
    with vlib.scratch("c11r-") as d:
        env = ec.Env(d)
        res = ec.e2e_job(make_jobs(env, [r["spec"]], build_matrix(tier))[0])
    if res.get("error"):
        raise RuntimeError(res["error"])
    bad = 0
    for b in res["builds"]:
        real = b["real"]
        st = "ok"
        if real["instantiate"][0] in ("build_error", "w2c2_error"):
            st = "%s: %s" % tuple(real["instantiate"][:2])
        elif real.get("ub"):
            st = "sanitizer: " + real["ub"]
        elif b["diffs"]:
            st = "differs from V8: %r" % (b["diffs"][0],)
        bad += st != "ok"
        print("%-60s %s" % (bname(b["build"]), st[:300]))
    for dd in res.get("cross", []):
        bad += 1
        print("cross-build difference in %s: `%s` %r vs `%s` %r" % (dd["field"], bname(dd["build_a"]), dd["a"], bname(dd["build_b"]), dd["b"]))
    print("replay %s: %d failing build(s)/difference(s)" % (res["id"], bad))
    return 1 if bad else 0
