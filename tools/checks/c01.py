"""C01 — integer instruction semantics and integer traps.

Obligations: theorems of Props/C01*.lean over the regenerated macros (Gen/Macros) and the
regenerated opcode→emitter table (Gen/EmitTable).
Tie: regeneration + runtime-ops (each generated AST vs the real macro compiled by gcc).
On break: boundary-operand search through the regenerated AST vs Spec, replayed on the real macro.
"""
import os
import vlib
import runtime_ops as ro
import opmods
from common import prove, leanchecker
from vlib import log

GENS = [("Macros", "gen_macros"), ("EmitTable", "gen_emit")]
CFG = {
  "C01": {"modules": ["W2c2Verif.Props.C01", "W2c2Verif.Props.C01Fallback", "W2c2Verif.Props.C01Ops"],
          "macro_ops": ro.int_ops, "is_mine": opmods.is_int_op, "spec": True},
  "C02": {"modules": ["W2c2Verif.Props.C02", "W2c2Verif.Props.C02Ops", "W2c2Verif.Props.C02Guards", "W2c2Verif.Props.C02TruncOps"],
          "macro_ops": ro.float_ops, "is_mine": lambda o: not opmods.is_int_op(o), "spec": False},
}


def spec_line(op, vals):
    name, w = op[4]
    return "s %s %d %s" % (name, w, " ".join("%x" % v for v in vals))


def spec_as_val(ans, rty):
    """Normalise a spec answer (`val <hex>`) to the macro protocol (`val <ty> <hex>`)."""
    p = ans.split()
    if p[0] == "val":
        return f"val {rty} {p[1]}"
    return ans


def cases_for(rng, ops, n_random):
    cases = []
    for op in ops:
        name, cfg, args, rty, spec = op
        bsets = [ro.boundary(t) for t in args]
        if len(args) == 1:
            for v in bsets[0]:
                cases.append((op, (v,)))
        else:
            small = [b for b in bsets[1] if b < 70] + [bsets[1][-1], bsets[1][-2], 1 << (ro.WIDTH[args[1]] - 1)]
            for x in bsets[0][::3] + [0, 1 << (ro.WIDTH[args[0]] - 1), (1 << ro.WIDTH[args[0]]) - 1]:
                for y in small:
                    cases.append((op, (x, y)))
        for _ in range(n_random):
            cases.append((op, tuple(ro.rand_val(rng, t) for t in args)))
    return cases


def run(tier, PROP="C01"):
    cfg = CFG[PROP]
    MODULES = cfg["modules"]
    chk = vlib.Check(PROP, tier)
    chk.coverage["trusted_base"] = list(vlib.GLOBAL_TRUSTED) + ([] if PROP == "C01" else ["CPU/libm float arithmetic (+ - * / sqrt ceil floor trunc nearbyint, int<->float and float<->float conversions) coincides with the exact soft-float CSem.Float (tested on every run, not proved)"]) + [
        "__builtin_clz/ctz/popcount(ll) mean what gcc documents (undefined at 0 for clz/ctz)"]
    chk.assumptions = ["emitted statements are evaluated by gcc/clang as CSem evaluates them (exercised by e2e)"]
    pr = prove(chk, MODULES, GENS)
    ops = cfg["macro_ops"]()
    n_random = 300 if tier == "quick" else 20000
    broken = []           # (description, details)
    if not pr["build_ok"]:
        for e in pr["errors"]:
            broken.append(e)
    with vlib.scratch(PROP.lower() + "-") as d:
        repo = vlib.copy_repo(os.path.join(d, "repo"))
        try:
            exe = ro.build(repo, d, ops)
        except Exception as e:
            broken.append({"kind": "harness-build", "msg": str(e)[-1500:]})
            exe = None
        cases = cases_for(chk.rng, ops, n_random)
        lines = [ro.line_for(op, vals) for op, vals in cases]
        real = ro.run_lines(exe, lines) if exe else None
        spec = vlib.DriverProc().batch([spec_line(op, vals) for op, vals in cases]) if (pr["driver_ok"] and cfg["spec"]) else None
        model = vlib.DriverProc().batch(lines) if pr["driver_ok"] else None
        chk.coverage["rule"] = ("every integer macro/fallback × boundary operands {0,1,-1,INT_MIN,INT_MAX,w-1,w,w+1,2^k,2^k-1,...} "
                                "and seeded random operands; a case is the (macro, cfg, operands) triple; non-trivial = distinct triple; "
                                "three-way comparison real macro (gcc) / regenerated Lean AST / Spec.Int")
        hist = {}
        for i, (op, vals) in enumerate(cases):
            key = (op[0], op[1], vals)
            sample = None
            if i % max(1, len(cases) // 10) == 0:
                sample = {"line": lines[i], "real": real[i] if real else None,
                          "model": model[i] if model else None, "spec": spec[i] if spec else None}
            chk.count_case(key, True, sample)
            hist[op[0] + "/" + op[1]] = hist.get(op[0] + "/" + op[1], 0) + 1
            s_ans = spec_as_val(spec[i], op[3]) if spec else None
            if not cfg["spec"] and model:   # float macros: the specification of the macro is the theorem; compare real vs model
                s_ans = None
            # 1. the property itself on the real code: real macro vs specification
            if real and s_ans and not ro.same_result(real[i], s_ans):
                chk.violation(f"{op[0]}-{op[1]}-real-vs-spec" if PROP == "C01" else f"{op[0]}-{op[1]}-real-vs-spec",
                              f"{op[0]} ({op[1]}) on the real header returns `{real[i]}`, the specification requires `{s_ans}`",
                              {"line": lines[i], "real": real[i], "spec": s_ans,
                               "replay_cmd": f"python3 tools/check.py {PROP} --replay <this file>"}, True)
            # 2. the tie: regenerated model vs real macro
            if real and model and not ro.same_result(real[i], model[i]):
                broken.append({"kind": "correspondence", "msg": f"runtime-ops: `{lines[i]}` real `{real[i]}` model `{model[i]}`"})
        chk.coverage["op_histogram"] = hist
        # ---- end-to-end per opcode: real w2c2 -> gcc  vs  model of the emitted statement  vs  Spec.numOp
        nops = [o for o in opmods.numeric_ops() if cfg["is_mine"](o)]
        try:
            oexe, oc = opmods.build_harness(repo, d, nops)
        except Exception as e:
            broken.append({"kind": "e2e-build", "msg": str(e)[-1500:]})
            oexe = None
        if oexe:
            ecases = e2e_cases(chk.rng, nops, n_random)
            elines = [opmods.line_for(o, v) for o, v in ecases]
            ereal = ro.run_lines(oexe, elines)
            emodel = vlib.DriverProc().batch(elines) if pr["driver_ok"] else None
            espec = vlib.DriverProc().batch([opmods.spec_line_for(o, v) for o, v in ecases]) if pr["driver_ok"] else None
            for i, (op, vals) in enumerate(ecases):
                chk.count_case(("e2e", op[0], vals), True,
                               {"line": elines[i], "real": ereal[i], "spec": espec[i] if espec else None} if i % max(1, len(ecases) // 6) == 0 else None)
                if espec and not ro.same_result(ereal[i], espec[i]):
                    chk.violation(f"{op[1]}-e2e-real-vs-spec",
                                  f"{op[1]}: output of the real w2c2 compiled by gcc returns `{ereal[i]}`, the specification requires `{espec[i]}`",
                                  {"line": elines[i], "real": ereal[i], "spec": espec[i], "kind": "e2e"}, True)
                if emodel and not ro.same_result(ereal[i], emodel[i]):
                    broken.append({"kind": "correspondence", "msg": f"e2e: `{elines[i]}` real `{ereal[i]}` model `{emodel[i]}`"})
            chk.coverage["e2e_cases"] = len(ecases)
            chk.coverage["emitted_statements_sample"] = dict(list(opmods.emitted_statements(oc, nops).items())[:8])
            # the same operands on the output written with -p (pretty printing has its own copies of several emitter format strings)
            try:
                pd = os.path.join(d, "ops_pretty")
                os.makedirs(pd, exist_ok=True)
                pexe, _ = opmods.build_harness(repo, pd, nops, w2c2_opts=("-p",))
                preal = ro.run_lines(pexe, elines)
                for i, (op, vals) in enumerate(ecases):
                    chk.count_case(("e2e-p", op[0], vals), True, None)
                    if espec and not ro.same_result(preal[i], espec[i]):
                        chk.violation(f"{op[1]}-e2e-pretty-real-vs-spec",
                                      f"{op[1]}: output of the real w2c2 -p compiled by gcc returns `{preal[i]}`, the specification requires `{espec[i]}`",
                                      {"line": elines[i], "real": preal[i], "spec": espec[i], "kind": "e2e", "w2c2_opts": ["-p"]}, True)
                chk.coverage["e2e_cases_pretty"] = len(ecases)
            except Exception as e:
                broken.append({"kind": "e2e-build", "msg": "-p: " + str(e)[-1200:]})
        # operands given as immediates (`t.const` of every LEB128 length, minimal and redundantly padded; float immediates): what an
        # instruction computes is only right if the constant reached it — reader -> literal -> compiler (the same pipeline C07 ties)
        try:
            import const_e2e
            tys = ("i32", "i64") if PROP == "C01" else ("f32", "f64")
            pipe = []
            for t in tys:
                bs = ro.boundary(t)
                bs = bs if tier == "thorough" or t[0] == "i" else bs[:: max(1, len(bs) // 300)]
                for k, b in enumerate(bs):
                    pipe.append((t, b, 0))
                    if t[0] == "i" and k % 3 == 0:
                        pipe.append((t, b, 1 + (b % 9)))
            got, _ = const_e2e.run(repo, d, pipe, tag="c01")
            npipe = len(pipe)
            for k, (t, b, pad) in enumerate(pipe):
                for via, v in (("function body", got[k]), ("global initialiser", got[npipe + k])):
                    if v != b:
                        chk.violation(f"{t}-const-operand",
                                      f"an operand given as {t}.const {b:#x} (immediate bytes {const_e2e.imm(t, b, pad).hex()}, in a {via}) reaches the compiled output of the real w2c2 as {v:#x}",
                                      {"type": t, "bits": "%x" % b, "pad": pad, "via": via, "got": "%x" % v, "kind": "const-operand"}, True)
            chk.coverage["const_operand_cases"] = npipe
        except Exception as e:
            broken.append({"kind": "const-pipeline", "msg": str(e)[-800:]})
        chk.coverage["traces_validated_against_impl"] = len(cases) if real else 0
    if tier == "thorough" and pr["build_ok"]:
        bad = leanchecker(chk, MODULES)
        for m, msg in bad:
            broken.append({"kind": "leanchecker", "msg": f"{m}: {msg}"})
    # a broken obligation / tie without a concrete failing input found above
    if broken and not chk.violations and not chk.known_hit:
        chk.violation("tie-or-proof-broken",
                      "proof obligation or correspondence no longer checks; boundary/random search found no operand on which the real macros disagree with the specification",
                      {"broken": broken[:20]}, False)
    elif broken:
        chk.notes.append({"broken": broken[:10]})
    return chk.finish()


def e2e_cases(rng, nops, n_random):
    """operand vectors for the per-opcode whole-pipeline harness: boundary values of every operand type (for binary
    opcodes a sub-grid that keeps small shift counts / divisors, the extremes and the sign bit) plus random ones"""
    ecases = []
    for op in nops:
        bs = [ro.boundary(t) for t in op[2]]
        if len(bs) == 1:
            ecases += [(op, (v,)) for v in bs[0]]
        else:
            small = [b for b in bs[1] if b < 70] + [bs[1][-1], 1 << (ro.WIDTH[op[2][1]] - 1)]
            ecases += [(op, (x, y)) for x in bs[0][::6] + [0, bs[0][-1], 1 << (ro.WIDTH[op[2][0]] - 1)] for y in small[::2] + [0, small[-2], small[-1]]]
        ecases += [(op, tuple(ro.rand_val(rng, t) for t in op[2])) for _ in range(n_random // 3)]
    return ecases


def replay(path, PROP="C01"):
    import json
    cfg = CFG[PROP]
    r = json.load(open(path))
    with vlib.scratch("c01r-") as d:
        repo = vlib.copy_repo(os.path.join(d, "repo"))
        if r.get("kind") == "const-operand":
            import const_e2e
            t, b, pad = r["type"], int(r["bits"], 16), r["pad"]
            got, _ = const_e2e.run(repo, d, [(t, b, pad)], tag="c01r")
            v = got[0] if r["via"] == "function body" else got[1]
            print(f"replay {t}.const {b:#x} (pad {pad}, {r['via']}): compiled output gives {v:#x}")
            return 0 if v == b else 1
        if r.get("kind") == "e2e":
            exe, _ = opmods.build_harness(repo, d, [o for o in opmods.numeric_ops() if cfg["is_mine"](o)], w2c2_opts=tuple(r.get("w2c2_opts", ())))
        else:
            exe = ro.build(repo, d, cfg["macro_ops"]())
        out = ro.run_lines(exe, [r["line"]])[0]
    print(f"replay {r['line']!r}: real `{out}`, specification `{r.get('spec')}`")
    return 0 if ro.same_result(out, r.get("spec", "")) else 1
