"""Shared implementation of the C05 / C16 / C19 checks (memory accessor functions)."""
import os
import vlib
import mem_ops as mo
import gen_loadstore as gl
from common import prove, leanchecker

GENS = [("Macros", "gen_macros"), ("LoadStore", "gen_loadstore")]

CFG = {
    "C05": {"modules": ["W2c2Verif.Props.C05"], "names": gl.PLAIN[0] + gl.PLAIN[1], "aligned": False,
            "trusted": ["memcpy between an object and memory assembles the object's value per host byte order (C object representation); out-of-bounds accesses are outside the property"]},
    # C16 holds on every host: the big-endian variants of DEFINE_ATOMIC_* (same anchors) are covered by C19's BE=LE theorems for the
    # atomic accessors (Props.C19: loads/stores, Props.C19Rmw: rmw/cmpxchg) and by the forced-BE runs below
    "C16": {"modules": ["W2c2Verif.Props.C16", "W2c2Verif.Props.C16Conc", "W2c2Verif.Props.C16Emit", "W2c2Verif.Props.C19", "W2c2Verif.Props.C19Rmw"], "names": gl.ATOMIC_LOADS + gl.ATOMIC_STORES + gl.rmw_names(), "aligned": True,
            "trusted": ["each __atomic_* builtin is ONE indivisible, sequentially consistent memory step on a naturally aligned cell (gcc/clang + hardware; assumed, exercised by a TSan stress run in the thorough tier)"]},
    "C19": {"modules": ["W2c2Verif.Props.C19", "W2c2Verif.Props.C19Rmw", "W2c2Verif.Props.C19Buf", "W2c2Verif.Props.C19Wasi", "W2c2Verif.Props.C19Futex"], "names": gl.PLAIN[0] + gl.PLAIN[1] + gl.ATOMIC_LOADS + gl.ATOMIC_STORES + gl.rmw_names(), "aligned": True,
            "trusted": ["no big-endian host or emulator exists in the image: the theorems are about the regenerated BE bodies with End.be; the real BE bodies are executed only in the forced-BE-on-this-LE-host configuration (model instantiated with body=be, host=le)"]},
}


def spec_expect(case, sig):
    """Expected answer per the specification for a little-endian access (computed here from the
    wasm semantics, independently of the Lean model)."""
    n, mem, a, vals = case
    ps, rt, w = sig[n]
    cell = int.from_bytes(mem[a:a + w], "little")
    rbits = 32 if rt in ("u32", "f32") else 64

    def newmem(v):
        return (mem[:a] + (v & ((1 << (8 * w)) - 1)).to_bytes(w, "little") + mem[a + w:]).hex()
    if "cmpxchg" in n:
        e, r = vals[0][1], vals[1][1]
        m2 = newmem(r) if cell == (e & ((1 << (8 * w)) - 1)) else mem.hex()
        return f"val {rt} {cell:x} mem {m2}"
    if "rmw" in n:
        v = vals[0][1] & ((1 << (8 * w)) - 1)
        op = n.split("_")[-2] if n.endswith("_u") else n.split("_")[-1]
        nv = {"add": cell + v, "sub": cell - v, "and": cell & v, "or": cell | v, "xor": cell ^ v, "xchg": v}[op]
        return f"val {rt} {cell:x} mem {newmem(nv)}"
    if "store" in n:
        return f"void mem {newmem(vals[0][1])}"
    # loads
    v = cell
    if n.endswith("_s"):
        if v >> (8 * w - 1):
            v -= 1 << (8 * w)
        v &= (1 << rbits) - 1
    return f"val {rt} {v:x} mem {mem.hex()}"


def run(tier, PROP):
    cfg = CFG[PROP]
    chk = vlib.Check(PROP, tier)
    chk.coverage["trusted_base"] = list(vlib.GLOBAL_TRUSTED) + cfg["trusted"]
    modules, gens = list(cfg["modules"]), list(GENS)
    if PROP == "C05":
        import c18
        modules += c18.GROW_CONTENT_MODULES                      # memory.grow: contents of the new pages (Props/C05Grow)
        modules += ["W2c2Verif.Props.C05Sim"]                    # memOK_concrete: C05's functions discharge the simulation's memory hypothesis
        gens += [("MemFuncs", "gen_memfuncs"), ("EmitTable", "gen_emit"), ("Literals", "gen_literals")]
    if PROP == "C19":
        gens += [("BufRead", "gen_bufread")]                     # the translator's reading of float immediates (Props/C19Buf)
        gens += [("WasiRaw", "gen_wasi_raw")]                    # every raw touch / accessor call of guest memory in wasi.c (Props/C19Wasi)
        gens += [("FutexLoads", "gen_futex_loads")]              # every guest-memory access of futex.c (Props/C19Futex)
    if PROP == "C16":
        gens += [("AtomicEmit", "gen_atomic_emit")]              # the translator's dispatch of the atomic instructions (Props/C16Emit)
    pr = prove(chk, modules, gens)
    broken = [e for e in pr["errors"]] if not pr["build_ok"] else []
    sig = mo.signatures()
    n_random = 150 if tier == "quick" else 3000
    with vlib.scratch(PROP.lower() + "-") as d:
        repo = vlib.copy_repo(os.path.join(d, "repo"))
        try:
            exe_le = mo.build(repo, d, big_endian=False)
            exe_be = mo.build(repo, d, big_endian=True) if PROP in ("C19", "C16") else None
        except Exception as e:
            broken.append({"kind": "harness-build", "msg": str(e)[-1500:]})
            exe_le = exe_be = None
        cases = mo.gen_cases(chk.rng, cfg["names"], n_random, aligned_only=cfg["aligned"])
        hist = {}
        if exe_le:
            lines = [mo.line_for(c, "le") for c in cases]
            real = mo_run(exe_le, lines)
            model = vlib.DriverProc().batch(lines) if pr["driver_ok"] else None
            for i, c in enumerate(cases):
                hist[c[0]] = hist.get(c[0], 0) + 1
                exp = spec_expect(c, sig)
                chk.count_case(("le", c[0], c[1], c[2], tuple(c[3])), True,
                               {"line": lines[i], "real": real[i], "spec": exp} if i % max(1, len(cases) // 8) == 0 else None)
                if PROP != "C19" and real[i] != exp:
                    chk.violation(f"{c[0]}-real-vs-spec", f"{c[0]} on the real header gives `{real[i]}`, the specification requires `{exp}`",
                                  {"line": lines[i], "real": real[i], "spec": exp}, True)
                if model and real[i] != model[i]:
                    broken.append({"kind": "correspondence", "msg": f"mem-ops LE: `{lines[i]}` real `{real[i]}` model `{model[i]}`"})
            if PROP == "C16":
                # atomic accesses are valid on memories that are NOT declared shared as well: same answers required
                real_u = mo_run(exe_le, lines, env={"MEMOPS_UNSHARED": "1"})
                for i, c in enumerate(cases):
                    exp = spec_expect(c, sig)
                    chk.count_case(("le-unshared", c[0], c[1], c[2], tuple(c[3])), True, None)
                    if real_u[i] != exp:
                        chk.violation(f"{c[0]}-unshared-real-vs-spec", f"{c[0]} on a memory that is not declared shared gives `{real_u[i]}`, the specification requires `{exp}`",
                                      {"line": lines[i], "real": real_u[i], "spec": exp, "unshared": True}, True)
        if exe_be:
            # the BE bodies on this LE host: validates the regenerated BE model; and the BE result must be the
            # byte-reversed image of the LE one (what a BE host would turn into the LE view)
            lines = [mo.line_for(c, "be") for c in cases]
            real = mo_run(exe_be, lines)
            model = vlib.DriverProc().batch(lines) if pr["driver_ok"] else None
            for i, c in enumerate(cases):
                chk.count_case(("be", c[0], c[1], c[2], tuple(c[3])), True,
                               {"line": lines[i], "real": real[i]} if i % max(1, len(cases) // 4) == 0 else None)
                if model and real[i] != model[i]:
                    broken.append({"kind": "correspondence", "msg": f"mem-ops forced-BE: `{lines[i]}` real `{real[i]}` model `{model[i]}`"})
                exp = be_on_le_expect(c, sig)
                if exp is not None and real[i] != exp:
                    chk.violation(f"{c[0]}-be-swap-width", f"forced big-endian {c[0]}: `{real[i]}`, a single byte reversal of the access width requires `{exp}`",
                                  {"line": lines[i], "real": real[i], "expected": exp, "build": "-DWASM_ENDIAN=WASM_BIG_ENDIAN"}, True)
        if exe_be and PROP == "C19":
            # the same forced-BE run with the header's PORTABLE mask-and-shift swaps (compilers without bswap intrinsics): every
            # accessor must give what the intrinsic build gives (Props.C19 swapU*_plain_correct on the proof side)
            try:
                exe_bp = mo.build_be_plain(repo, d)
                lines = [mo.line_for(c, "be") for c in cases]
                real_p = mo_run(exe_bp, lines)
                real_b = mo_run(exe_be, lines)
                for i, c in enumerate(cases):
                    chk.count_case(("be-plain", c[0], c[1], c[2], tuple(c[3])), True, None)
                    exp = be_on_le_expect(c, sig)
                    if real_p[i] != real_b[i] or (exp is not None and real_p[i] != exp):
                        chk.violation(f"{c[0]}-be-portable-swap", f"forced big-endian {c[0]} built with the portable mask-and-shift swaps: `{real_p[i]}`, with the "
                                      f"bswap intrinsics: `{real_b[i]}`" + (f", required `{exp}`" if exp is not None else ""),
                                      {"line": lines[i], "real": real_p[i], "expected": exp if exp is not None else real_b[i], "build": "be-plain"}, True)
            except Exception as e:
                broken.append({"kind": "harness-build", "msg": "be-plain: " + str(e)[-800:]})
        chk.coverage["op_histogram"] = hist
        if PROP == "C05":
            # memory.grow and the CONTENTS of the new pages (real wasmMemoryGrow with a dirty realloc vs Model.GrowContent)
            ok, out = vlib.lake_build(["concdriver"])
            if not ok:
                broken.append({"kind": "driver-build", "msg": out[-1500:]})
            else:
                c18.run_grow_content(chk, repo, d, tier, broken)
            # the emitted memory instructions: real w2c2 vs Model.Emit (tokens) and real output vs V8 (profile `memory`, plus the
            # directed corpus: memarg offsets at every LEB128 length boundary)
            import e2e_extra
            n_tok, n_e2e = (300, 60) if tier == "quick" else (4000, 600)
            os.makedirs(os.path.join(d, "e2e"), exist_ok=True)
            def data_mode_specs():
                import e2e_common as ec
                import initmem
                return [s_ for s_ in ec.corpus_specs("C09") + ec.corpus_specs("C06") if "segment" in s_.get("corpus", "")] + \
                    initmem.data_specs(chk.seed, 8 if tier == "quick" else 80)
            e2e_extra.run(chk, PROP, [("memory", 1.0)], n_tok, n_e2e, 3, pr["driver_ok"], broken, os.path.join(d, "e2e"), data_mode_specs=data_mode_specs)
        if PROP == "C19":
            run_bufread(chk, repo, d, tier, broken)
            import c19_wasi                                      # the WASI host: real wasi.c little-endian vs forced big-endian
            c19_wasi.run(chk, repo, d, tier, broken)
            import c19_futex                                    # the futex runtime: real futex.c little-endian vs forced big-endian
            c19_futex.run(chk, repo, d, tier, broken)
        if PROP == "C16":
            run_atomic_stress(chk, repo, d, tier, broken)
            # the emitted atomic instructions through the whole pipeline: real w2c2 -> gcc (-DWASM_THREADS_PTHREADS) vs V8; the
            # directed corpus module calls every one of the 63 instructions (old value and resulting cell)
            import e2e_extra
            n_tok, n_e2e = (60, 40) if tier == "quick" else (600, 400)
            os.makedirs(os.path.join(d, "e2e"), exist_ok=True)
            e2e_extra.run(chk, PROP, [("atomics", 1.0)], n_tok, n_e2e, 3, pr["driver_ok"], broken, os.path.join(d, "e2e"))
            # an atomic instruction that the real translator turns into a call of a NON-atomic accessor is a violation by itself (the
            # access is not atomic, whatever a single-threaded run returns): the token difference names module, function and position
            import re as _re
            for b in list(broken):
                if b.get("name") != "emit-tokens":
                    continue
                mm = _re.search(r"first (\S+): \{'func': (\d+), 'at': (\d+), 'model': '(.*?)', 'real': '(.*?)', 'n'", b.get("msg", ""))
                if not mm:
                    continue
                tm, tr = mm.group(4).split(), mm.group(5).split()
                k = next((i for i, (x, y) in enumerate(zip(tm, tr)) if x != y), None)
                if k is not None and "_atomic_" in tm[k] and "_atomic_" not in tr[k]:
                    chk.violation("atomic-instruction-translated-to-plain-access",
                                  "module %s, function %s: the real w2c2 emits a call of `%s` where the instruction is atomic (the function of its mnemonic is `%s`): "
                                  "the access is not atomic" % (mm.group(1), mm.group(2), tr[k], tm[k]),
                                  {"module": mm.group(1), "func": int(mm.group(2)), "model_token": tm[k], "real_token": tr[k], "kind": "atomic-plain"}, True)
        chk.coverage["rule"] = ("for every accessor function: random/boundary memory images × addresses (all alignments for plain, natural for atomic; first, last, middle) × boundary/random operands; "
                                "case = (function, memory image, address, operands); compared: real header function / regenerated Lean body / specification computed independently in Python")
    if tier == "thorough" and pr["build_ok"]:
        for m, msg in leanchecker(chk, cfg["modules"]):
            broken.append({"kind": "leanchecker", "msg": f"{m}: {msg}"})
    if broken and not chk.violations and not chk.known_hit:
        chk.violation("tie-or-proof-broken", "proof obligation or correspondence no longer checks; no operand found on which the real functions disagree with the specification",
                      {"broken": broken[:20]}, False)
    elif broken:
        chk.notes.append({"broken": broken[:10]})
    return chk.finish()


def run_atomic_stress(chk, repo, d, tier, broken):
    """Real threads on the real accessor functions (add / xchg / cmpxchg of every width): a lost update, a value returned
    twice or never, or two successful CASes on the same old value is a history no total order explains."""
    import atomic_stress
    threads, iters = (8, 100000) if tier == "quick" else (16, 1000000)
    try:
        exe = atomic_stress.build(repo, d)
        res = atomic_stress.run(exe, threads, iters)
    except Exception as e:
        broken.append({"kind": "harness-build", "msg": "atomic-stress: " + str(e)[-800:]})
        return
    for r in res:
        chk.count_case(("atomic-stress", r[0], threads, iters), True, None)
        if r[1] != "ok":
            chk.violation(r[0] + "-concurrent-history", "%s under %d real threads: %s" % (r[0], threads, r[2] if len(r) > 2 else r[1]),
                          {"atomic_stress": r[0], "threads": threads, "iters": iters, "observed": " ".join(r)}, True)
    chk.coverage["atomic_stress"] = {"flavours": len(res), "threads": threads, "operations_per_thread": iters,
                                     "note": "a stress run can only exhibit a failure, never show its absence: the concurrency claim rests on Props/C16Conc + the single-step assumption"}


def run_bufread(chk, repo, d, tier, broken):
    """bufferReadF32/F64 of the real buffer.h: little-endian build (must give the little-endian reading) and forced
    big-endian build (must give exactly one full-width byte reversal of it: what a big-endian host turns into the
    little-endian reading).  A difference is a failing input: the immediate's bytes."""
    import bufread
    cs = bufread.cases(chk.rng, 40 if tier == "quick" else 2000)
    n = 0
    for be in (False, True):
        try:
            exe = bufread.build(repo, d, be)
            out = bufread.run(exe, cs)
        except Exception as e:
            broken.append({"kind": "harness-build", "msg": "bufread: " + str(e)[-800:]})
            continue
        for (kind, data), o in zip(cs, out):
            exp = bufread.expect(kind, data, be)
            n += 1
            chk.count_case(("bufread", be, kind, data), True, {"kind": kind, "bytes": data.hex(), "real": o} if n % 40 == 0 else None)
            if o != exp:
                chk.violation("bufferRead%s-%s" % ("F32" if kind == "f32" else "F64", "forced-be" if be else "le"),
                              "bufferRead%s on the immediate bytes %s gives `%s`; the little-endian reading%s requires `%s`"
                              % ("F32" if kind == "f32" else "F64", data.hex(), o, " (byte-reversed once at full width, forced big-endian build on this host)" if be else "", exp),
                              {"bufread": kind, "bytes": data.hex(), "real": o, "expected": exp, "big_endian": be}, True)
    chk.coverage["bufread_cases"] = n


def be_on_le_expect(case, sig):
    """What the BE body must produce on THIS little-endian host: the access of width w with its
    bytes reversed exactly once (loads return the value of the reversed cell; stores leave the
    reversed bytes)."""
    n, mem, a, vals = case
    ps, rt, w = sig[n]
    rev = mem[:a] + mem[a:a + w][::-1] + mem[a + w:]
    exp = spec_expect((n, rev, a, vals), sig)
    # result memory: reverse the cell back
    head, mhex = exp.rsplit(" mem ", 1)
    mb = bytes.fromhex(mhex)
    mb = mb[:a] + mb[a:a + w][::-1] + mb[a + w:]
    return head + " mem " + mb.hex()


def mo_run(exe, lines, env=None):
    import subprocess
    p = subprocess.run([exe], input="\n".join(lines) + "\n", stdout=subprocess.PIPE, stderr=subprocess.PIPE, text=True, timeout=900,
                       env=dict(os.environ, **env) if env else None)
    out = p.stdout.splitlines()
    if len(out) != len(lines):
        raise RuntimeError(f"mem harness answered {len(out)} lines for {len(lines)}: {p.stderr[-300:]}")
    return out


def replay(path, PROP):
    import json
    r = json.load(open(path))
    if r.get("kind") == "atomic-plain":
        import e2e_common as ec
        import emit_tokens as et
        with vlib.scratch("memr-") as d:
            os.makedirs(os.path.join(d, "e2e"), exist_ok=True)
            env = ec.Env(os.path.join(d, "e2e"))
            specs = [s_ for s_ in ec.corpus_specs("C16") if ec.spec_id(s_) == r["module"]] or \
                [dict(seed=r["module"].split(":")[0], profile=r["module"].split(":")[1], index=int(r["module"].split(":")[2]))]
            tok = ec.emit_tokens_batch(env, specs, driver_ok=True)
        bad = [t for t in tok.values() if t["mismatch"]]
        print("replay %s: %s" % (r["module"], ("real w2c2 differs from the model: %r" % (bad[0]["mismatch"][0],)) if bad else "tokens equal"))
        return 1 if bad else 0
    if "atomic_stress" in r:
        import atomic_stress
        with vlib.scratch("memr-") as d:
            repo = vlib.copy_repo(os.path.join(d, "repo"))
            res = atomic_stress.run(atomic_stress.build(repo, d), r["threads"], r["iters"])
        bad = [x for x in res if x[0] == r["atomic_stress"] and x[1] != "ok"]
        print("replay atomic-stress %s (%d threads x %d): %s" % (r["atomic_stress"], r["threads"], r["iters"], " ".join(bad[0]) if bad else "ok"))
        return 1 if bad else 0
    if "wasi_endian" in r:
        import c19_wasi
        return c19_wasi.replay(r)
    if "futex_endian" in r:
        import c19_futex
        return c19_futex.replay(r)
    if "bufread" in r:
        import bufread
        with vlib.scratch("memr-") as d:
            repo = vlib.copy_repo(os.path.join(d, "repo"))
            out = bufread.run(bufread.build(repo, d, r["big_endian"]), [(r["bufread"], bytes.fromhex(r["bytes"]))])[0]
        print(f"replay bufferRead {r['bufread']} {r['bytes']} (big_endian={r['big_endian']}): real `{out}` expected `{r['expected']}`")
        return 0 if out == r["expected"] else 1
    if "spec" in r and "line" not in r:   # an e2e violation of an emitted memory instruction
        import c03
        return c03.replay(path, PROP="C03")
    if str(r.get("args", r.get("line", ""))).startswith("content") or r.get("kind") == "grow-content":
        import c18
        return c18.replay(path)
    with vlib.scratch("memr-") as d:
        repo = vlib.copy_repo(os.path.join(d, "repo"))
        exe = mo.build_be_plain(repo, d) if r.get("build") == "be-plain" else mo.build(repo, d, big_endian=("build" in r))
        out = mo_run(exe, [r["line"]], env={"MEMOPS_UNSHARED": "1"} if r.get("unshared") else None)[0]
    exp = r.get("spec", r.get("expected"))
    print(f"replay {r['line']!r}: real `{out}` expected `{exp}`")
    return 0 if out == exp else 1
