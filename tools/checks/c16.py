"""C16 — see memcheck.py (shared implementation for the memory accessor functions) and DESIGN.md §5 C16."""
import memcheck


def run(tier):
    return memcheck.run(tier, "C16")


def replay(path):
    return memcheck.replay(path, "C16")
