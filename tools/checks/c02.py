"""C02 — floating point and numeric conversions (see c01.py for the shared implementation).

Obligations: Props/C02 (FMIN/FMAX for all operand pairs; NaN behaviour of all 16 truncations)
and Props/C02Ops (for each of the 70 float/conversion opcodes the emitted statement computes the
specified IEEE operation / cast chain).  Ties: regenerated macros and emit table; runtime-ops
(regenerated macro AST vs gcc-compiled macro on boundary neighbours of every conversion
constant, NaN payloads, ±0, ±inf, subnormals, random patterns); e2e per opcode (real w2c2 →
gcc vs model vs Spec.numOp, i.e. the exact soft-float against the hardware).
"""
import c01


def run(tier):
    return c01.run(tier, "C02")


def replay(path):
    return c01.replay(path, "C02")
