"""C20 — the translator touches only its own output files.

Obligations: theorems of Props/C20.lean over Model.Files, which interprets Gen/Files.lean
(regenerated from c.h / c.c / main.c / file.c on every run: name length, sprintf format, prefix
characters, `datasegments`, glob pattern, every character test of the clean predicate, fopen modes,
order of main()'s steps, the complete list of file-system call sites).

Tie (all against code built from a scratch copy of /repo's working tree):
  A  clean-inproc : the REAL `cleanImplementationFiles` (static, #included) run in generated directories
                    holding hundreds of near-miss names  vs  Model.cleanDecision per name, and — with the listing
                    the function really iterated over (its glob() call is recorded) — vs the model's match loop as a
                    fold with the scan flag as carried state (Model.cleanLoopF, driver `cleandir`);
  B  impl-name    : the REAL `wasmCWriteImplementationFile` creating files for boundary/random U32 indices
                    vs  Model.implName;
  C  paths        : the dirname/basename the translator is built with (glibc and the bundled compat.c)
                    vs  Model.dirnameC / basenameC;
  D  runs         : the REAL w2c2 binary under strace in populated directory trees (snapshots with
                    names, sizes, SHA-256, mtimes before/after) vs the event list of Model.runC.
Independently of the model, every observed run is judged against the property itself (P1): a write or
delete outside {basename, header, [sd][0-9]{10}.c, datasegments in external modes} in dirname(out),
or a modified input, is a VIOLATION with the directory listing + command line as replay.  So is (P2, "with the clean option
it additionally deletes files in that directory whose names match the implementation-file pattern") a matching name that a
clean run / the real cleanImplementationFiles did not even try to remove: directories mixing several dozen stale s*/d* files
with 13-character decoys holding a non-digit, wrong lengths, wrong prefixes and other extensions, created in several orders
(kinds `clean-mix-*`; seeded C20/11: the scan flag was no longer reset per entry).
"""
import json
import os
import re
import subprocess
import sys
import time

import vlib
import files_obs as fo
from common import prove, leanchecker
from vlib import log

PROP = "C20"
MODULES = ["W2c2Verif.Props.C20"]
GENS = [("Files", "gen_files")]
FILESDRIVER = os.path.join(vlib.LEAN, ".lake", "build", "bin", "filesdriver")

IMPL_RE = re.compile(rb"^[sd][0-9]{10}\.c$")
NEAR_MISS = [b"s000000000.c", b"s00000000000.c", b"x0000000000.c", b"s00000000a0.c", b"s0000000000.h",
             b"S0000000000.c", b".s0000000000.c"]
MORE_NEAR = [b"s0000000000.C", b"s0000000000.c~", b"s0000000000.cc", b"s0000000000c", b"0000000000s.c",
             b"ss000000000.c", b"s 000000000.c", b"s-000000001.c", b"s+000000001.c", b"d0000000000.o",
             b"sd000000000.c", b"s0000000000", b"d000000000x.c", b"s00000000\xc3\xa9.c", b"d0000000000.c.bak",
             b"D0000000000.c", b"t0000000000.c", b"c0000000000.c", b"e0000000000.c", b"r0000000000.c",
             b"s000000000/.c", b"s0x00000000.c", b"s00000000:0.c", b"s0000000000.d", b"s0000000000.",
             b"s000000000..c", b"d00000 0000.c", b"s\xff000000000.c", b"\xf30000000000.c", b"s000000000\x7f.c"]
MATCHING = [b"s0000000000.c", b"s0000000001.c", b"s0000000002.c", b"d0000000000.c", b"d0000000001.c",
            b"s4294967295.c", b"d9999999999.c", b"s0000000007.c", b"d1234567890.c"]
UNRELATED = [b"main.c", b"util.c", b"notes.txt", b"Makefile", b"a.c", b"c", b"lib.h", b"README", b"x.wasm"]
SPECIAL_MODES = ["gnu-ld", "sectcreate1", "sectcreate2"]
# whether a write that reaches a file OUTSIDE dirname(out) through a pre-existing symbolic link at an
# output name counts as a property violation (the property is read at the level of names; see report)
SYMLINK_WRITE_THROUGH_IS_VIOLATION = False


# ----------------------------------------------------------------------------- spec side (Python, independent of the model)

def spec_basename(p):
    if not p:
        return b"."
    q = p.rstrip(b"/")
    if not q:
        return b"/"
    return q.rsplit(b"/", 1)[-1]


def spec_dirname(p):
    if not p:
        return b"."
    q = p.rstrip(b"/")
    if not q:
        return b"/"
    if b"/" not in q:
        return b"."
    q = q.rsplit(b"/", 1)[0].rstrip(b"/")
    return q if q else b"/"


def spec_header(b):
    i = b.rfind(b".")
    return (b[:i] if i >= 0 else b) + b".h"


# ----------------------------------------------------------------------------- tiny module builder

def _leb(n):
    out = b""
    while True:
        b = n & 0x7f
        n >>= 7
        if n:
            out += bytes([b | 0x80])
        else:
            return out + bytes([b])


def _vec(items):
    return _leb(len(items)) + b"".join(items)


def _sec(i, payload):
    return bytes([i]) + _leb(len(payload)) + payload


def const_module(ks, data=False):
    """Functions `() -> i32` returning the constants ks (equal constants = equal SHA-1)."""
    out = b"\x00asm\x01\x00\x00\x00"
    out += _sec(1, _vec([b"\x60\x00\x01\x7f"]))
    out += _sec(3, _vec([b"\x00"] * len(ks)))
    if data:
        out += _sec(5, _vec([b"\x00\x01"]))
    bodies = []
    for k in ks:
        body = b"\x00\x41" + _leb(k) + b"\x0b"
        bodies.append(_leb(len(body)) + body)
    out += _sec(10, _vec(bodies))
    if data:
        out += _sec(11, _vec([b"\x00\x41\x10\x0b" + _vec([b"h", b"e", b"l", b"l", b"o"])]))
    return out


def module_pool(rng, tier):
    pool = []
    pool.append(("const6", const_module([1, 2, 3, 4, 5, 5])))
    pool.append(("const6-data", const_module([1, 2, 3, 4, 5, 5], data=True)))
    pool.append(("const1", const_module([7])))
    pool.append(("const0", const_module([])))
    pool.append(("const9-data", const_module(list(range(20, 29)), data=True)))
    try:
        sys.path.insert(0, vlib.TOOLS)
        from wasmgen import module_for, encode
        want = [("calls", 3), ("init", 3), ("control", 2), ("memory", 1)]
        if tier != "quick":
            want += [("calls", 5), ("init", 7), ("int", 4), ("names", 2)]
        for prof, idx in want:
            m = module_for(vlib.seed_from_env(), prof, idx)
            pool.append((f"wasmgen:{vlib.seed_from_env()}:{prof}:{idx}", encode(m)))
    except Exception as e:      # wasmgen is another component; the const modules suffice for the tie
        log("C20: wasmgen unavailable:", e)
    refs = {"ref-partial": const_module([2, 3, 5, 9]), "ref-none": const_module([100, 101])}
    return pool, refs


# ----------------------------------------------------------------------------- model access

class Model:
    """The Lean model behind filesdriver.  When Gen/Files could not be regenerated or the driver does
    not build, `available` is False: answers are None and only the model-independent judgement of the
    property (P1) is applied to what the real code does."""
    available = True

    def ask(self, lines):
        if not Model.available:
            return [None] * len(lines)
        return vlib.DriverProc(FILESDRIVER).batch(lines) if lines else []


def parse_events(ans):
    """model answer → list of tuples"""
    if ans.startswith("ub ") or ans.startswith("err") or ans in ("oof",) or ans.startswith("trap"):
        return None
    evs = []
    for e in ans.split(";"):
        p = e.split(" ")
        if p[0] == "r":
            evs.append(("read", fo.unhx(p[1]), True))
        elif p[0] == "cd":
            evs.append(("chdir", fo.unhx(p[1]), p[2] == "1"))
        elif p[0] == "glob":
            evs.append(("glob", p[2].encode(), p[1] == "1"))
        elif p[0] == "rm":
            evs.append(("rm", fo.unhx(p[2]), p[3] == "1", p[1] == "1"))
        elif p[0] == "w":
            evs.append(("write", fo.unhx(p[2]), p[4] == "1", p[1] == "1", p[3]))
        elif p[0] == "exit":
            evs.append(("exit", int(p[1])))
        else:
            raise RuntimeError("bad model event " + e)
    return evs


# ----------------------------------------------------------------------------- A: clean in process

def edits(rng, name, n):
    out = set()
    palette = b"0123456789sdSDxc.h/ aA-+~\x00\xff\xc3_"
    for attempt in range(20 * n):
        if len(out) >= n:
            break
        b = bytearray(name)
        for _ in range(1 if attempt < 4 * n else rng.randrange(1, 4)):      # one edit first, then up to three
            k = rng.randrange(3)
            if k == 0 and len(b) > 1:
                del b[rng.randrange(len(b))]
            elif k == 1:
                b.insert(rng.randrange(len(b) + 1), rng.choice(palette))
            else:
                b[rng.randrange(len(b))] = rng.choice(palette)
        b = bytes(b)
        if b and b"/" not in b and b"\x00" not in b and b not in (b".", b".."):
            out.add(b)
    return out


def gen_clean_names(rng, n_random):
    names = set(NEAR_MISS + [x for x in MORE_NEAR if b"/" not in x] + MATCHING + UNRELATED)
    valid = b"s0123456789.c"
    # every single-byte substitution / deletion / insertion at every position of a valid name
    for pos in range(13):
        for ch in b"0959sd/SDaz.cCh :~\x2f\x30\x39\x3a\x7f\x80\xff":
            b = bytearray(valid)
            b[pos] = ch
            names.add(bytes(b))
        b = bytearray(valid)
        del b[pos]
        names.add(bytes(b))
        for ch in b"0sd.c9a":
            b = bytearray(valid)
            b.insert(pos, ch)
            names.add(bytes(b))
    for base in (b"d4294967295.c", b"s0000000000.c", b"d9876543210.c"):
        names |= edits(rng, base, n_random // 3)
    for _ in range(n_random // 4):
        c = rng.choice(b"sd")
        names.add(bytes([c]) + b"%010d" % rng.randrange(10**10) + b".c")
    return sorted(x for x in names if x and b"/" not in x and b"\x00" not in x and x not in (b".", b"..") and len(x) < 200)


def corr_clean(chk, exes, d, n_random, broken):
    rng = chk.rng
    names = gen_clean_names(rng, n_random)
    kinds = {}
    for variant in ("fh_lg1",):
        work = os.path.join(d, "cleandir").encode()
        tdir = os.path.join(d, "cleantargets").encode()
        os.makedirs(work)
        os.makedirs(tdir)
        for i, n in enumerate(names):
            r = rng.random()
            kind = "f" if r < 0.8 else rng.choice(["de", "dn", "lf", "ld", "lx"])
            kinds[n] = kind
            fo.put(os.path.join(work, n), kind, rng, (tdir, i))
        before = fo.snapshot(d.encode())
        obs = fo.harness_lines(exes[variant], ["cleanobs " + fo.hx(work)], d)[0].split(" ")
        after = fo.snapshot(d.encode())
        created, deleted, modified = fo.diff(before, after)
        ans = Model().ask([f"clean 1 {fo.hx(n)}" for n in names] + [f"clean 0 {fo.hx(n)}" for n in names])
        # the match loop as a whole: the listing the real function iterated over (its own glob call, recorded), in that order
        if obs[0] != "ok" or len(obs) != 3 or obs[1] != "1":
            broken.append({"kind": "correspondence", "msg": f"clean-inproc: cleanImplementationFiles did not call glob exactly once: {' '.join(obs)[:120]}"})
        else:
            listing = [fo.unhx(x) for x in obs[2].split(",")] if obs[2] != "-" else []
            fold = Model().ask([f"cleandir 1 {obs[2]}"])[0]
            if fold is not None:
                if fold.startswith(("ub", "trap", "oof", "err")):
                    broken.append({"kind": "correspondence", "msg": f"clean-inproc: model loop over the observed listing answers `{fold[:80]}`"})
                else:
                    m_rm = {fo.unhx(x) for x in fold.split(",")} if fold != "-" else set()
                    m_gone = {n for n in m_rm if kinds.get(n) != "dn"}
                    r_gone = {p[len(b"cleandir/"):] for p in deleted if p.startswith(b"cleandir/") and b"/" not in p[len(b"cleandir/"):]}
                    if m_gone != r_gone:
                        only_m, only_r = sorted(m_gone - r_gone)[:5], sorted(r_gone - m_gone)[:5]
                        broken.append({"kind": "correspondence", "msg": f"clean-inproc: match loop over the {len(listing)} entries glob returned: "
                                                                          f"model removes {len(m_gone)}, real {len(r_gone)}; only model {only_m}, only real {only_r}"})
            chk.coverage["clean_inproc_listing"] = {"entries_glob_returned": len(listing), "of_names_created": len(names)}
        hist = {"removed": 0, "kept": 0}
        for i, n in enumerate(names):
            rel = b"cleandir/" + n
            gone = rel in deleted
            m1, m0 = ans[i], ans[len(names) + i]
            spec = bool(IMPL_RE.match(n))
            chk.count_case(("clean", n), True, {"name": repr(n), "kind": kinds[n], "removed": gone, "model": m1} if i % 97 == 0 else None)
            hist["removed" if gone else "kept"] += 1
            # property: only matching names disappear
            if gone and not spec:
                chk.violation(f"clean-removes-{n.hex()}", f"cleanImplementationFiles removed {n!r}, which does not match [sd][0-9]{{10}}.c",
                              {"kind": "clean-inproc", "names": [x.hex() for x in names], "kinds": kinds_json(kinds), "offending": n.hex(),
                               "replay_cmd": "python3 tools/check.py C20 --replay <this file>"}, True)
            # property: every matching name is removed (a non-empty directory of that name cannot be)
            if spec and not gone and kinds[n] != "dn":
                chk.violation("clean-leaves-matching", f"cleanImplementationFiles left {n!r} ({kinds[n]}) in place although it matches [sd][0-9]{{10}}.c "
                              f"(directory of {len(names)} entries; {sum(1 for x in names if IMPL_RE.match(x) and kinds[x] != 'dn' and (b'cleandir/' + x) not in deleted)} matching ones left)",
                              {"kind": "clean-inproc", "names": [x.hex() for x in names], "kinds": kinds_json(kinds), "offending": n.hex(),
                               "listing_in_creation_order": [x.decode("latin1") for x in names][:4000],
                               "call": "cleanImplementationFiles() with this directory as the current directory (what `w2c2 -c …` does after chdir)",
                               "replay_cmd": "python3 tools/check.py C20 --replay <this file>"}, True)
            if m1 is None:
                continue
            want = m1 == "val true" and kinds[n] != "dn"
            if m1 != m0:
                broken.append({"kind": "correspondence", "msg": f"clean: model depends on char signedness for {n!r}: {m1} / {m0}"})
            if m1.startswith("ub") or gone != want:
                broken.append({"kind": "correspondence", "msg": f"clean-inproc: {n!r} ({kinds[n]}): real removed={gone}, model `{m1}`"})
            if (m1 == "val true") != spec:
                broken.append({"kind": "model-vs-spec", "msg": f"clean: model `{m1}` for {n!r} but pattern match is {spec}"})
        other = sorted(created | modified) + [p for p in deleted if not p.startswith(b"cleandir/")]
        for p in other:
            chk.violation(f"clean-touches-{p.hex()}", f"cleanImplementationFiles changed {p!r}",
                          {"kind": "clean-inproc", "names": [x.hex() for x in names], "kinds": kinds_json(kinds), "offending": p.hex()}, True)
        chk.coverage["clean_inproc"] = {"names": len(names), **hist,
                                        "kinds": {k: list(kinds.values()).count(k) for k in set(kinds.values())}}
        fo.rmtree(work)
        fo.rmtree(tdir)
    return len(names)


def kinds_json(kinds):
    return {k.hex(): v for k, v in kinds.items()}


# ----------------------------------------------------------------------------- B: implementation file names

def corr_implnames(chk, exes, d, n_random, broken):
    rng = chk.rng
    idx = {0, 1, 9, 10, 99, 100, 2**31 - 1, 2**31, 2**32 - 1, 2**32 - 2, 4294967295, 999999999, 1000000000, 4000000000}
    for k in range(1, 10):
        idx |= {10**k - 1, 10**k, 10**k + 1}
    for k in range(0, 32):
        idx |= {2**k, 2**k - 1}
    for _ in range(n_random):
        idx.add(rng.randrange(2**32))
        idx.add(rng.randrange(2 ** rng.randrange(1, 33)))
    cases = [(c, i) for i in sorted(idx) for c in (115, 100)]
    work = os.path.join(d, "impldir").encode()
    os.makedirs(work)
    model = Model().ask([f"implname {c} {i}" for c, i in cases])
    lines = [f"impl {fo.hx(work)} {c} {i}" for c, i in cases]
    ans = fo.harness_lines(exes["fh_lg1"], lines, d)
    got = set(os.listdir(work))
    want = set()
    for (c, i), m, a in zip(cases, model, ans):
        if m is None:
            m = fo.hx(b"%c%010d.c" % (c, i))       # no model: the property's own pattern
        n = fo.unhx(m)
        want.add(n)
        chk.count_case(("implname", c, i), True, {"prefix": chr(c), "index": i, "model": n.decode("latin1")} if i in (0, 4294967295) else None)
        if a != "ok":
            broken.append({"kind": "correspondence", "msg": f"impl-name: real writer failed for ({chr(c)}, {i})"})
        if not IMPL_RE.match(n) or len(n) != 13:
            broken.append({"kind": "model-vs-spec", "msg": f"impl-name: model name {n!r} for ({chr(c)}, {i}) is not [sd][0-9]{{10}}.c"})
    for n in got - want:
        if not IMPL_RE.match(n):
            chk.violation(f"impl-name-{n.hex()}", f"wasmCWriteImplementationFile created {n!r}, not of the form [sd][0-9]{{10}}.c",
                          {"kind": "impl-name", "created": n.hex()}, True)
        broken.append({"kind": "correspondence", "msg": f"impl-name: real created {n!r}, model did not predict it"})
    for n in want - got:
        broken.append({"kind": "correspondence", "msg": f"impl-name: model predicts {n!r}, real did not create it"})
    fo.rmtree(work)
    chk.coverage["impl_names"] = {"indices": len(idx), "cases": len(cases)}
    return len(cases)


# ----------------------------------------------------------------------------- C: dirname / basename

def gen_paths(rng, n):
    comps = [b"a", b"b", b"..", b".", b"out.c", b"x.y.z", b".h", b"s0000000000.c", b"d i r", b"\xc3\xbc", b"c"]
    out = {b"", b".", b"..", b"/", b"//", b"///", b"a", b"a/", b"a//", b"/a", b"//a", b"///a", b"a/b", b"a//b", b"a/b/",
           b"/a/b", b"//a//b//", b"./x/../y/out.c", b"x/..", b"x/.", b"./", b"../", b".c", b"a.b.c", b"/.", b"/..", b"//a/"}
    while len(out) < n:
        k = rng.randrange(1, 5)
        p = b"/" * rng.choice([0, 0, 1, 1, 2, 3])
        for j in range(k):
            p += rng.choice(comps)
            if j < k - 1:
                p += b"/" * rng.choice([1, 1, 1, 2, 3])
        p += b"/" * rng.choice([0, 0, 0, 1, 2])
        out.add(p)
    return sorted(out)


def corr_paths(chk, exes, d, n, broken):
    paths = gen_paths(chk.rng, n)
    lines = []
    for p in paths:
        lines += [f"dirname {fo.hx(p)}", f"basename {fo.hx(p)}"]
    model = Model().ask(lines + [f"header {fo.hx(spec_basename(p))}" for p in paths])
    real0 = fo.harness_lines(exes["fh_lg0"], lines, d)      # bundled compat.c versions
    real1 = fo.harness_lines(exes["fh_lg1"], lines, d)      # glibc
    diffs_glibc = 0
    for i, p in enumerate(paths):
        if model[2 * i] is None:
            md, mb, mh = spec_dirname(p), spec_basename(p), spec_header(spec_basename(p))
        else:
            md, mb = fo.unhx(model[2 * i]), fo.unhx(model[2 * i + 1])
            mh = fo.unhx(model[len(lines) + i])
        chk.count_case(("path", p), True, {"path": repr(p), "dirname": repr(md), "basename": repr(mb), "header": repr(mh)} if i % 211 == 0 else None)
        for which, real in (("compat.c", real0), ("glibc", real1)):
            rd, rb = fo.unhx(real[2 * i]), fo.unhx(real[2 * i + 1])
            if which == "glibc" and rd == b"//" + md.lstrip(b"/") and md.startswith(b"/"):
                diffs_glibc += 1        # POSIX: a leading `//` may be kept (same directory on Linux)
                rd = md
            if rd != md or rb != mb:
                broken.append({"kind": "correspondence", "msg": f"paths({which}): {p!r}: real ({rd!r}, {rb!r}) model ({md!r}, {mb!r})"})
        if md != spec_dirname(p) or mb != spec_basename(p) or mh != spec_header(mb):
            broken.append({"kind": "model-vs-spec", "msg": f"paths: {p!r}: model ({md!r}, {mb!r}, {mh!r}) vs POSIX ({spec_dirname(p)!r}, {spec_basename(p)!r}, {spec_header(mb)!r})"})
    chk.coverage["paths"] = {"strings": len(paths), "glibc_keeps_double_slash": diffs_glibc}
    return len(paths)


# ----------------------------------------------------------------------------- D: whole runs under strace

OUT_KINDS = ["rel", "rel-nested", "abs", "dotdot", "trail-new", "trail-dir", "noext", "dotfile", "dots",
             "hdr-is-out", "dot-c", "multi-slash", "enddot", "nodir", "dotdot-base", "utf8", "abs-nested", "impl-like"]


def _long_dir(lens):
    """nested directory path whose components are 'A'*n0 / 'B'*n1 / … (each at most NAME_MAX = 255 bytes)"""
    return b"/".join(bytes([65 + i % 26]) * n for i, n in enumerate(lens))


# Output paths of every LENGTH class (seeded change C20/5: the path was cut to NAME_MAX = 255 bytes before dirname(), so
# everything was written, and cleaned, in an ancestor directory): kind -> (component lengths of the directory below
# inv/ or the absolute root, absolute?, forced options).  Lengths of the relative path = sum + separators + len("out.c"):
# 228 (inside 200..255), exactly 255, exactly 256 (first one cut, same dirname), 300, an absolute one of ~290, and one
# near PATH_MAX (3623 bytes; the sandbox root must stay below PATH_MAX as a whole for the snapshots).  All below PATH_MAX,
# so Model.runC predicts them (longer ones are `.ub`, C10's matter).  The module is always valid and the option sets are
# fixed per kind: with and without -c, single- and multi-file, one and several threads.
LONG_KINDS = {
    "long-rel-228": ([100, 100, 20], False, {"c": 1, "fpf": 1, "t": 1}),
    "long-rel-255": ([100, 100, 47], False, {"c": 0, "fpf": 2, "t": 2}),
    "long-rel-256": ([100, 100, 48], False, {"c": 1, "fpf": 0, "t": 1}),
    "long-rel-300": ([100, 100, 92], False, {"c": 1, "fpf": 1, "t": 2}),
    "long-rel-300-noclean": ([100, 92, 100], False, {"c": 0, "fpf": 0, "t": 0}),
    "long-abs-290": ([100, 100, 40], True, {"c": 1, "fpf": 2, "t": 1}),
    "long-rel-pathmax": ([200] * 18, False, {"c": 1, "fpf": 1, "t": 4}),
}
OUT_KINDS += list(LONG_KINDS)

# Directories for the SECOND half of the property ("with the clean option it additionally deletes files … whose names match the
# pattern"): several dozen stale implementation files of both prefixes mixed with decoys that pass every test but the digit scan
# (13 characters, s/d first, `.c` last, a non-digit inside), plus wrong lengths / prefixes / extensions — created in several
# orders, so that in ANY readdir order (creation order, reverse, hashed) some stale files come after some decoys.  Seeded C20/11:
# the scan flag was not reset per entry; everything after the first decoy stayed.
CLEAN_MIX_KINDS = {"clean-mix-stale-first": "stale-first", "clean-mix-decoys-first": "decoys-first", "clean-mix-shuffled": "shuffled",
                   "clean-mix-interleaved": "interleaved"}
OUT_KINDS += list(CLEAN_MIX_KINDS)
DECOYS13 = [b"sha1_helper.c", b"deadbeef_00.c", b"s00000000a0.c", b"d000000000x.c", b"s-000000001.c", b"d00000 0000.c", b"s0x00000000.c",
            b"dispatcher1.c", b"stringutils.c", b"sX000000000.c", b"s000000000_.c", b"d_000000000.c",
            b"s000000\xc3\xa900.c", b"d123456789a.c", b"s1234o67890.c"]


def make_case(rng, idx, pool, refs, forced_kind=None):
    """A case = tree spec + argv (all bytes), independent of the scratch location: the token
    b'@ROOT@' in paths stands for the sandbox root."""
    # every kind is forced once per run (corr_runs); random cases take a long-path kind only now and then (deep trees are slow)
    kind = forced_kind or (rng.choice(sorted(LONG_KINDS)) if rng.random() < 0.06 else
                           rng.choice(sorted(CLEAN_MIX_KINDS)) if rng.random() < 0.05 else
                           rng.choice(OUT_KINDS[:len(OUT_KINDS) - len(LONG_KINDS) - len(CLEAN_MIX_KINDS)]))
    tree = []           # (relpath, kind, content|None)
    dirs = {b"inv", b"other", b"targets", b"inputs"}
    if kind in LONG_KINDS:
        return make_long_case(rng, idx, pool, refs, kind, tree, dirs)
    if kind in CLEAN_MIX_KINDS:
        return make_clean_mix_case(rng, idx, pool, refs, kind, tree, dirs)
    outdir = {"rel": b"inv", "rel-nested": b"inv/sub/deep", "abs": b"abs dir", "dotdot": b"inv/y", "trail-new": b"inv/sub",
              "trail-dir": b"inv/sub", "noext": b"inv/sub", "dotfile": b"inv/sub", "dots": b"inv/sub", "hdr-is-out": b"inv/sub",
              "dot-c": b"inv/sub", "multi-slash": b"inv/sub/deep", "enddot": b"inv/sub", "nodir": None, "dotdot-base": b"inv/sub",
              "utf8": b"inv/s\xc3\xbcb", "abs-nested": b"abs dir/n1/n2", "impl-like": b"inv/sub"}[kind]
    outarg = {"rel": b"out.c", "rel-nested": b"sub/deep/out.c", "abs": b"@ROOT@/abs dir/out.c", "dotdot": b"./x/../y/out.c",
              "trail-new": b"sub/newout/", "trail-dir": b"sub/adir/", "noext": b"sub/out", "dotfile": b"sub/.hidden",
              "dots": b"sub/a.b.c", "hdr-is-out": b"sub/out.h", "dot-c": b"sub/.c", "multi-slash": b"sub//deep///out.c",
              "enddot": b"sub/out.", "nodir": b"missing/out.c", "dotdot-base": b"sub/..", "utf8": b"s\xc3\xbcb/\xc3\xb6ut.c",
              "abs-nested": b"@ROOT@/abs dir/n1/n2/../n2/o.c", "impl-like": b"sub/d0000000000.c"}[kind]
    if outdir:
        dirs.add(outdir)
    if kind == "dotdot":
        dirs.add(b"inv/x")
    if kind == "trail-dir":
        dirs.add(b"inv/sub/adir")
    # modules
    mname, mbytes = rng.choice(pool)
    modarg = b"m.wasm"
    modplace = rng.choice(["inv", "inputs", "outdir"]) if outdir else "inv"
    if modplace == "inv":
        tree.append((b"inv/m.wasm", "F", mbytes))
    elif modplace == "inputs":
        tree.append((b"inputs/m.wasm", "F", mbytes))
        modarg = rng.choice([b"../inputs/m.wasm", b"@ROOT@/inputs/m.wasm"])
    else:
        tree.append((outdir + b"/in.wasm", "F", mbytes))
        modarg = b"@ROOT@/" + outdir + b"/in.wasm"
    modstate = rng.choices(["ok", "missing", "garbage"], [14, 1, 1])[0]
    if modstate == "missing":
        modarg = b"nonexistent.wasm"
    elif modstate == "garbage":
        tree.append((b"inv/garbage.wasm", "F", b"\x00asm\x01\x00\x00\x00\x0a\xff\xff"))
        modarg = b"garbage.wasm"
    ref = rng.choices([None, "same", "ref-partial", "ref-none", "missing", "garbage"], [8, 3, 4, 2, 1, 1])[0]
    refarg = None
    refbytes = None
    if ref == "same":
        refbytes = mbytes
    elif ref in ("ref-partial", "ref-none"):
        refbytes = refs[ref]
    elif ref == "garbage":
        refbytes = b"not a module"
    if ref == "missing":
        refarg = b"noref.wasm"
    elif ref is not None:
        tree.append((b"inputs/ref.wasm", "F", refbytes))
        refarg = rng.choice([b"../inputs/ref.wasm", b"@ROOT@/inputs/ref.wasm"])
    # options
    argv = []
    opts = {"fpf": 0, "t": 0, "p": 0, "g": 0, "m": 0, "c": 0, "d": "arrays"}
    if rng.random() < 0.75:
        opts["fpf"] = rng.choice([0, 1, 1, 2, 2, 3, 1000, 4294967295])
        argv += [b"-f", str(opts["fpf"]).encode()]
    if rng.random() < 0.6:
        opts["t"] = rng.choice([1, 1, 2, 4, 0])
        argv += [b"-t", str(opts["t"]).encode()]
    for k in ("p", "m"):
        if rng.random() < 0.3:
            opts[k] = 1
            argv.append(b"-" + k.encode())
    if rng.random() < 0.15 and opts["t"] == 1:
        opts["g"] = 1
        argv.append(b"-g")
    if rng.random() < 0.65:
        opts["c"] = 1
    r = rng.random()
    if r < 0.45:
        opts["d"] = rng.choice(SPECIAL_MODES)
        argv += [b"-d", opts["d"].encode()]
    elif r < 0.55:
        argv += [b"-d", b"arrays"]
    elif r < 0.58:
        opts["d"] = "bogus"
        argv += [b"-d", b"bogus"]
    if refarg is not None:
        argv += [b"-r", refarg]
    # populate directories
    link_n = [0]

    def populate(dirrel, heavy):
        names = set()
        if heavy:
            names |= set(NEAR_MISS)
            names |= set(rng.sample([x for x in MORE_NEAR if b"/" not in x], rng.randrange(3, 10)))
            names |= set(rng.sample(MATCHING, rng.randrange(2, len(MATCHING))))
        else:
            names |= set(rng.sample(NEAR_MISS, 2)) | set(rng.sample(MATCHING, 2))
        names |= set(rng.sample(UNRELATED, rng.randrange(1, 5)))
        base = spec_basename(outarg)
        if heavy and rng.random() < 0.5:
            names |= {base, spec_header(base)} - {b".", b"..", b"/", b"/.h"}
        if heavy and rng.random() < 0.4:
            names.add(b"datasegments")
        for n in sorted(names):
            rel = dirrel + b"/" + n
            if any(rel == t[0] or t[0].startswith(rel + b"/") for t in tree) or rel in dirs or any(x.startswith(rel + b"/") for x in dirs):
                continue
            if IMPL_RE.match(n):
                k = rng.choices(["f", "de", "dn", "lf", "ld", "lx"], [10, 2, 2, 2, 1, 2])[0]
            elif n in (base, spec_header(base), b"datasegments"):
                k = rng.choices(["f", "de", "lf", "lx", "ld"], [8, 1, 2, 1, 1])[0]
            else:
                k = rng.choices(["f", "de", "dn", "lf", "lx"], [12, 1, 1, 1, 1])[0]
            tree.append((rel, k, None))
    for dr in sorted(dirs):
        if dr in (b"targets",):
            continue
        populate(dr, heavy=(dr == outdir or dr == b"inv"))
    if opts["c"]:
        argv.insert(0, b"-c")
    argv += [modarg, outarg]
    return {"id": idx, "kind": kind, "tree": tree, "dirs": sorted(dirs), "argv": argv, "outarg": outarg, "outdir": outdir,
            "opts": opts, "module": mname, "mbytes": mbytes, "modstate": modstate, "ref": ref, "refbytes": refbytes,
            "modarg": modarg, "refarg": refarg}


def make_long_case(rng, idx, pool, refs, kind, tree, dirs):
    """Long output paths (LONG_KINDS): valid module in inv/, fixed options, every ancestor of the output directory and
    the output directory itself populated with names the run must not touch (matching, near-miss, same-named outputs)."""
    lens, absolute, forced = LONG_KINDS[kind]
    sub = _long_dir(lens)
    outdir = (b"abs dir/" if absolute else b"inv/") + sub
    outarg = (b"@ROOT@/abs dir/" if absolute else b"") + sub + b"/out.c"
    dirs.add(outdir)
    mname, mbytes = rng.choice([p for p in pool if len(fo.function_hashes(p[1])) >= 3] or pool)
    tree.append((b"inv/m.wasm", "F", mbytes))
    opts = {"fpf": forced["fpf"], "t": forced["t"], "p": 0, "g": 0, "m": 0, "c": forced["c"], "d": "arrays"}
    argv = []
    if opts["fpf"]:
        argv += [b"-f", str(opts["fpf"]).encode()]
    if opts["t"]:
        argv += [b"-t", str(opts["t"]).encode()]
    if rng.random() < 0.5:
        opts["d"] = "gnu-ld"
        argv += [b"-d", b"gnu-ld"]
    ref, refarg, refbytes = None, None, None
    if rng.random() < 0.4:
        ref, refbytes, refarg = "ref-partial", refs["ref-partial"], b"../inputs/ref.wasm"
        tree.append((b"inputs/ref.wasm", "F", refbytes))
        argv += [b"-r", refarg]
    # the output directory, each of its ancestors below the start directory, and inv/ hold stale implementation files,
    # near misses and files named like the outputs
    anc = []
    parts = outdir.split(b"/")
    for k in range(1, len(parts) + 1):
        anc.append(b"/".join(parts[:k]))
    for dr in sorted(set(anc + [b"inv", b"other"])):
        names = set(rng.sample(MATCHING, 3)) | set(rng.sample(NEAR_MISS, 2)) | {b"out.c", b"out.h", b"datasegments", rng.choice(UNRELATED)}
        for n in sorted(names):
            rel = dr + b"/" + n
            if rel in dirs or any(rel == t[0] for t in tree):
                continue
            tree.append((rel, "f", None))
    if opts["c"]:
        argv.insert(0, b"-c")
    argv += [b"m.wasm", outarg]
    return {"id": idx, "kind": kind, "tree": tree, "dirs": sorted(dirs), "argv": argv, "outarg": outarg, "outdir": outdir,
            "opts": opts, "module": mname, "mbytes": mbytes, "modstate": "ok", "ref": ref, "refbytes": refbytes,
            "modarg": b"m.wasm", "refarg": refarg}


def make_clean_mix_case(rng, idx, pool, refs, kind, tree, dirs):
    """`w2c2 -c … gen/out.c` in a directory that mixes many stale implementation files with near-miss decoys (CLEAN_MIX_KINDS);
    the order of `tree` IS the creation order of the directory entries."""
    order = CLEAN_MIX_KINDS[kind]
    outdir, outarg = b"inv/gen", b"gen/out.c"
    dirs.add(outdir)
    mname, mbytes = rng.choice([p for p in pool if len(fo.function_hashes(p[1])) >= 3] or pool)
    tree.append((b"inv/m.wasm", "F", mbytes))
    opts = {"fpf": rng.choice([0, 1, 2]), "t": rng.choice([0, 1, 2]), "p": 0, "g": 0, "m": 0, "c": 1, "d": rng.choice(["arrays", "gnu-ld"])}
    argv = [b"-c"]
    if opts["fpf"]:
        argv += [b"-f", str(opts["fpf"]).encode()]
    if opts["t"]:
        argv += [b"-t", str(opts["t"]).encode()]
    if opts["d"] != "arrays":
        argv += [b"-d", opts["d"].encode()]
    ns, nd = rng.randrange(24, 40), rng.randrange(16, 28)
    stale = [b"s%010d.c" % i for i in range(ns)] + [b"d%010d.c" % i for i in range(nd)]
    stale += [b"%c%010d.c" % (rng.choice(b"sd"), rng.randrange(10**10)) for _ in range(6)] + [b"s4294967295.c", b"d9999999999.c"]
    decoys = list(rng.sample(DECOYS13, rng.randrange(5, len(DECOYS13))))
    for _ in range(4):
        body = bytearray(b"%010d" % rng.randrange(10**10))
        body[rng.randrange(10)] = rng.choice(b"abcxyz_-+ ~AZ")
        decoys.append(bytes([rng.choice(b"sd")]) + bytes(body) + b".c")
    others = rng.sample(NEAR_MISS + [x for x in MORE_NEAR if b"/" not in x and len(x) != 13], 12) + rng.sample(UNRELATED, 4) + [b"out.c", b"out.h"]
    stale = sorted(set(stale))
    decoys = sorted(set(decoys) - set(stale))
    others = sorted(set(others) - set(stale) - set(decoys))
    if order == "stale-first":
        names = stale + decoys + others
    elif order == "decoys-first":
        names = decoys + others + stale
    elif order == "shuffled":
        names = stale + decoys + others
        rng.shuffle(names)
    else:                           # a decoy after every few stale files
        names, dq = [], decoys + others
        for i, n in enumerate(stale):
            names.append(n)
            if i % 4 == 3 and dq:
                names.append(dq.pop(0))
        names += dq
    for n in names:
        k = "f"
        if IMPL_RE.match(n) and rng.random() < 0.12:
            k = rng.choice(["de", "lf", "lx", "dn"])
        tree.append((outdir + b"/" + n, k, None))
    for n in rng.sample(stale, 5) + rng.sample(decoys, 2):          # the start directory must stay as it is
        tree.append((b"inv/" + n, "f", None))
    argv += [b"m.wasm", outarg]
    return {"id": idx, "kind": kind, "tree": tree, "dirs": sorted(dirs), "argv": argv, "outarg": outarg, "outdir": outdir,
            "opts": opts, "module": mname, "mbytes": mbytes, "modstate": "ok", "ref": None, "refbytes": None,
            "modarg": b"m.wasm", "refarg": None}


def build_tree(root, case):
    """Materialise the tree spec under root (bytes path).  Returns {relpath: link target relpath}."""
    links = {}
    for dr in case["dirs"]:
        os.makedirs(os.path.join(root, dr), exist_ok=True)
    n = 0
    for rel, kind, content in case["tree"]:
        p = os.path.join(root, rel)
        if kind == "F":
            with open(p, "wb") as f:
                f.write(content)
            os.utime(p, ns=(fo.OLD_TIME * 10**9, fo.OLD_TIME * 10**9))
        else:
            t = fo.put(p, kind, None, (os.path.join(root, b"targets"), n))
            if t is not None:
                links[rel] = os.path.relpath(t, root)
            n += 1
    return links


def subst(b, root):
    return b.replace(b"@ROOT@", root)


def model_line(case, root, before):
    o = case["opts"]
    outdir = case["outdir"]

    def entries(dirrel):
        res = []
        if dirrel is None:
            return res
        res += [(b".", "dn"), (b"..", "dn")]        # real directory entries: fopen("..", "w") fails with EISDIR
        pre = dirrel + b"/"
        for p, v in sorted(before.items()):
            if p.startswith(pre) and b"/" not in p[len(pre):]:
                n = p[len(pre):]
                if v[0] == "f":
                    k = "f"
                elif v[0] == "d":
                    k = "dn" if any(q.startswith(p + b"/") for q in before) else "de"
                else:
                    t = os.path.join(os.path.join(root, dirrel), v[1])
                    k = "ld" if os.path.isdir(t) else ("lf" if os.path.exists(t) else "lx")
                res.append((n, k))
        return res
    e_out = entries(outdir)
    e_inv = entries(b"inv")
    mh = fo.function_hashes(case["mbytes"]) if case["modstate"] == "ok" else []
    refok = case["ref"] in ("same", "ref-partial", "ref-none")
    rh = fo.function_hashes(case["refbytes"]) if refok else None
    ns, nd = fo.split_counts(mh, rh)
    fs = ",".join(f"{fo.hx(n)}:{k}" for n, k in e_out) or "-"
    fs0 = ",".join(f"{fo.hx(n)}:{k}" for n, k in e_inv) or "-"
    ls = ",".join(fo.hx(n) for n, _ in e_out) or "-"
    ls0 = ",".join(fo.hx(n) for n, _ in e_inv) or "-"
    return ("run mod=%s ref=%s out=%s fpf=%d t=%d p=%d g=%d m=%d c=%d d=%s modok=%d refok=%d nfuncs=%d nstatic=%d ndyn=%d "
            "chdirok=%d pathmax=4096 sg=1 ls=%s ls0=%s fs=%s fs0=%s") % (
        fo.hx(subst(case["modarg"], root)), fo.hx(subst(case["refarg"], root)) if case["refarg"] is not None else "-",
        fo.hx(subst(case["outarg"], root)), o["fpf"], o["t"], o["p"], o["g"], o["m"], o["c"], o["d"],
        1 if case["modstate"] == "ok" else 0, 1 if refok else 0, len(mh), ns, nd,
        1 if outdir is not None else 0, ls, ls0, fs, fs0), (len(mh), ns, nd)


def real_events(calls):
    """classified strace calls → model-like events (read/chdir/write/rm) of interest + stray mutations."""
    evs = []
    stray = []
    i = 0
    while i < len(calls):
        kind, path, ok, raw = calls[i]
        if kind == "unlink":
            if not ok and "EISDIR" in raw and i + 1 < len(calls) and calls[i + 1][0] == "rmdir" and calls[i + 1][1] == path:
                evs.append(("rm", path, calls[i + 1][2]))
                i += 2
                continue
            evs.append(("rm", path, ok))
        elif kind == "rmdir":
            evs.append(("rm", path, ok))
        elif kind == "chdir":
            evs.append(("chdir", path, ok))
        elif kind == "write":
            evs.append(("write", path, ok))
        elif kind == "read":
            evs.append(("read", path, ok))
        else:
            stray.append(raw)
        i += 1
    return evs, stray


def judge_property(case, root, before, after, links):
    """P1, independent of the model: returns list of (key, text) violations."""
    created, deleted, modified = fo.diff(before, after)
    bad = []
    outdir = case["outdir"]
    base = spec_basename(case["outarg"])
    allowed = {base, spec_header(base)}
    if case["opts"]["d"] in SPECIAL_MODES:
        allowed.add(b"datasegments")
    through = []
    for p in sorted(created | modified):
        d, n = (p.rsplit(b"/", 1) + [None])[:2] if b"/" in p else (b"", p)
        if after[p][0] == "d" and p in modified:
            continue
        if outdir is not None and d == outdir and (n in allowed or IMPL_RE.match(n)):
            continue
        # reached through a pre-existing symbolic link at an allowed name in the output directory?
        src = [l for l, t in links.items() if t == p
               and outdir is not None and os.path.dirname(l) == outdir
               and (os.path.basename(l) in allowed or IMPL_RE.match(os.path.basename(l)))]
        if src:
            through.append((p, src[0]))
            if SYMLINK_WRITE_THROUGH_IS_VIOLATION:
                bad.append(("write-through-symlink", f"{p!r} outside the output directory was written through the pre-existing link {src[0]!r}"))
            continue
        bad.append((f"writes-{case['kind']}-{n.hex()[:40]}", f"run created/overwrote {p!r} (allowed in {outdir!r}: {sorted(allowed)} + [sd][0-9]{{10}}.c)"))
    for p in sorted(deleted):
        d, n = p.rsplit(b"/", 1) if b"/" in p else (b"", p)
        if case["opts"]["c"] and d == outdir and IMPL_RE.match(n):
            continue
        if any(p.startswith(q + b"/") for q in deleted):
            continue        # content of a removed directory cannot exist (only empty ones are removable)
        bad.append((f"deletes-{case['kind']}-{n.hex()[:40]}", f"run deleted {p!r} (clean={case['opts']['c']})"))
    for rel, kind, content in case["tree"]:
        if kind == "F" and after.get(rel) != before.get(rel):
            n = os.path.basename(rel)
            if not (os.path.dirname(rel) == outdir and (n in allowed or IMPL_RE.match(n))):
                bad.append((f"input-modified-{case['kind']}", f"input {rel!r} was modified"))
    return bad, through


def judge_clean_complete(case, before, calls, rc):
    """P2, independent of the model: a run with the clean option that got as far as cleaning (it ended with exit code 0, or it
    removed / tried to remove something) must have called remove on EVERY pre-existing entry of dirname(out) whose name matches
    the implementation-file pattern (a non-empty directory of such a name is tried and legitimately stays).
    Returns list of (key, text)."""
    outdir = case["outdir"]
    if not case["opts"]["c"] or outdir is None:
        return []
    tried = {os.path.basename(path) for kind, path, ok, raw in calls if kind in ("unlink", "rmdir")}
    if rc != 0 and not tried:
        return []
    pre = outdir + b"/"
    stale = sorted(p[len(pre):] for p in before if p.startswith(pre) and b"/" not in p[len(pre):] and IMPL_RE.match(p[len(pre):]))
    left = [n for n in stale if n not in tried]
    if not left:
        return []
    return [("clean-leaves-matching-run",
             f"run with the clean option (exit {rc}) never tried to remove {left[0]!r} in {outdir!r} although it matches [sd][0-9]{{10}}.c: "
             f"{len(left)} of the {len(stale)} stale implementation files stay (first ones {[x.decode('latin1') for x in left[:4]]})")]


def judge_syscalls(case, root, calls):
    """P1 at the level of system calls: every creating/truncating open, unlink, rmdir, rename, mkdir …
    must name (after resolving against the current directory) an allowed name directly in dirname(out).
    Returns (violations [(key, text)], suspicious [text])."""
    bad, sus = [], []
    outdir = case["outdir"]
    base = spec_basename(case["outarg"])
    allowed = {base, spec_header(base)}
    if case["opts"]["d"] in SPECIAL_MODES:
        allowed.add(b"datasegments")
    cwd = os.path.join(root, b"inv")
    out_abs = os.path.realpath(os.path.join(root, outdir)) if outdir is not None else None
    for kind, path, ok, raw in calls:
        if kind == "chdir":
            if ok:
                cwd = os.path.realpath(os.path.join(cwd, path))
            continue
        if kind == "read":
            continue
        if b"/" not in path:
            dirn, name = cwd, path                      # an entry of the current directory (also `..`)
        else:
            full = os.path.normpath(os.path.join(cwd, path))
            dirn, name = os.path.dirname(full), os.path.basename(full)
        fine = out_abs is not None and os.path.realpath(dirn) == out_abs
        if kind == "write":
            fine = fine and (name in allowed or bool(IMPL_RE.match(name)))
            mutating = ok and (any(f in raw for f in ("O_CREAT", "O_TRUNC", "O_APPEND")) or raw.startswith("creat"))
            if not fine:
                (bad if mutating else sus).append(
                    (f"syscall-write-{name.hex()[:40]}", f"{raw[:160]} in cwd {os.path.relpath(cwd, root)!r}: not an own output of the run"))
        elif kind in ("unlink", "rmdir"):
            fine = fine and bool(IMPL_RE.match(name)) and bool(case["opts"]["c"])
            if not fine:
                (bad if ok else sus).append((f"syscall-remove-{name.hex()[:40]}", f"{raw[:160]} in cwd {os.path.relpath(cwd, root)!r}: not a stale implementation file"))
        else:
            bad.append((f"syscall-{raw.split('(')[0]}", f"unexpected file-system call {raw[:160]}"))
    return bad, [t for _, t in sus]


def run_case(chk, exes, d, case, model_ans_for, broken, stats, variant):
    root = os.path.join(d, f"case{case['id']}").encode()
    os.makedirs(root)
    try:
        links = build_tree(root, case)
        before = fo.snapshot(root)
        line, facts = model_line(case, root, before)
        ans = Model().ask([line])[0]
        argv = [subst(a, root) for a in case["argv"]]
        rc, err, calls = fo.run_traced(exes[variant], argv, os.path.join(root, b"inv"), os.path.join(d, "trace.txt"))
        after = fo.snapshot(root)
        replay = case_replay(case, variant)
        # ---- the property itself
        bad, through = judge_property(case, root, before, after, links)
        stats["write_through_symlink"] += len(through)
        bad2, sus = judge_syscalls(case, root, calls)
        allbad = bad + bad2 + judge_clean_complete(case, before, calls, rc)
        for key, text in allbad[:4]:          # one run in a wrong directory touches dozens of names: the first few identify it
            chk.violation(key, text + (f" (+{len(allbad) - 4} more in this run)" if len(allbad) > 4 else ""), replay, True)
        for t in sus:
            broken.append({"kind": "suspicious-open", "msg": t, "command_line": replay["command_line"]})
        # ---- correspondence with the model
        revs0, stray0 = real_events(calls)
        if ans is None:
            stats["runs"] += 1
            stats["kinds"][case["kind"]] = stats["kinds"].get(case["kind"], 0) + 1
            chk.count_case(("run", case["id"], case["kind"], tuple(case["argv"])), True, None)
            return
        evs = parse_events(ans)
        if evs is None:
            broken.append({"kind": "correspondence", "msg": f"runs: model answered `{ans[:80]}` for case {case['id']} ({case['kind']})"})
            return
        revs, stray = revs0, stray0
        mexit = [e for e in evs if e[0] == "exit"][-1][1]
        inputs = {subst(case["modarg"], root)} | ({subst(case["refarg"], root)} if case["refarg"] is not None else set())
        r_main = [(k, p, ok or k == "read") for k, p, ok in revs if k != "read" or p in inputs]
        m_main = [(e[0], e[1], e[2]) for e in evs if e[0] in ("read", "chdir", "rm", "write")]
        is_impl = lambda e: e[0] == "write" and IMPL_RE.match(e[1]) and e[1] != spec_basename(case["outarg"])
        r_rm = sorted(e for e in r_main if e[0] == "rm")
        m_rm = sorted(e for e in m_main if e[0] == "rm")
        r_impl = sorted(e for e in r_main if is_impl(e))
        m_impl = sorted(e for e in m_main if is_impl(e))
        r_seq = [e for e in r_main if e[0] != "rm" and not is_impl(e)]
        m_seq = [e for e in m_main if e[0] != "rm" and not is_impl(e)]
        exact_impl = (mexit == 0) or case["opts"]["t"] == 1
        # a failing fopen in one writer thread ends the process while other threads are still writing: with more
        # than one thread only "every implementation file opened is one of the plan's" is deterministic
        ok = (r_seq == m_seq and r_rm == m_rm and
              (r_impl == m_impl if exact_impl else {e[1] for e in r_impl} <= set(plan_names(case, facts))))
        # order: chdir before any mutation, removals before writes
        order_ok = True
        seen_cd = False
        seen_w = False
        for k, p, okk in r_main:
            if k == "chdir":
                seen_cd = seen_cd or okk
            elif k in ("rm", "write"):
                if not seen_cd:
                    order_ok = False
                if k == "write":
                    seen_w = True
                elif seen_w:
                    order_ok = False
        # every mutation seen by strace is predicted by the model
        pred = {(e[0], e[1]) for e in m_main} | {("write", n) for n in plan_names(case, facts)}
        unpred = [(k, p) for k, p, _ in r_main if k in ("rm", "write", "chdir") and (k, p) not in pred]
        if not ok or not order_ok or unpred:
            broken.append({"kind": "correspondence",
                           "msg": f"runs: case {case['id']} ({case['kind']}, argv {[a.decode('latin1') for a in case['argv']]}): "
                                  f"real seq {short(r_seq)} rm {short(r_rm)} impl {short(r_impl)} | model seq {short(m_seq)} rm {short(m_rm)} impl {short(m_impl)} "
                                  f"order_ok={order_ok} unpredicted={short(unpred)}", "command_line": replay["command_line"]})
        # snapshot diff vs the effects the model's events imply
        created, deleted, modified = fo.diff(before, after)
        exp_w, exp_d = set(), set()
        removed = set()
        for e in evs:
            if e[0] == "rm" and e[2]:
                base = case["outdir"] if e[3] else b"inv"
                removed.add(base + b"/" + e[1])
                exp_w.discard(base + b"/" + e[1])
            elif e[0] == "write" and e[2]:
                base = case["outdir"] if e[3] else b"inv"
                p = os.path.normpath(base + b"/" + e[1]) if not e[1].startswith(b"/") else None
                if p is None:
                    continue
                if p in links and p not in removed:
                    p = links[p]
                exp_w.add(p)
        exp_d = {p for p in removed if p not in exp_w}
        act_w = {p for p in (created | modified) if after[p][0] != "d" or p in created}
        act_w = {p for p in act_w if not (after[p][0] == "d")} | {p for p in created if after[p][0] == "d"}
        act_d = {p for p in deleted if not any(p.startswith(q + b"/") for q in deleted)}
        if exact_impl:
            snap_ok = act_w == exp_w and act_d == exp_d
        else:
            extra = {case["outdir"] + b"/" + n for n in plan_names(case, facts)} if case["outdir"] is not None else set()
            extra |= {links[p] for p in extra if p in links and p not in removed}
            impl_w = {p for p in exp_w if p in extra}
            snap_ok = (exp_w - impl_w) <= act_w <= (exp_w | extra) and act_d == {p for p in removed if p not in act_w}
        if not snap_ok:
            broken.append({"kind": "correspondence",
                           "msg": f"runs: case {case['id']} ({case['kind']}): snapshot written {short(sorted(act_w))} deleted {short(sorted(act_d))} "
                                  f"| model written {short(sorted(exp_w))} deleted {short(sorted(exp_d))}", "command_line": replay["command_line"]})
        if (rc == 0) != (mexit == 0):
            stats["exit_mismatch"] += 1
            broken.append({"kind": "correspondence", "msg": f"runs: case {case['id']} ({case['kind']}): exit {rc} vs model {mexit}; stderr {err[-200:]!r}", "command_line": replay["command_line"]})
        stats["runs"] += 1
        stats["kinds"][case["kind"]] = stats["kinds"].get(case["kind"], 0) + 1
        stats["exit"][str(mexit)] = stats["exit"].get(str(mexit), 0) + 1
        stats["removed"] += len(act_d)
        stats["written"] += len(act_w)
        stats["impl_files"] += len(r_impl)
        for k in ("c", "p", "m", "g"):
            if case["opts"][k]:
                stats["opts"]["-" + k] = stats["opts"].get("-" + k, 0) + 1
        stats["opts"]["-d " + case["opts"]["d"]] = stats["opts"].get("-d " + case["opts"]["d"], 0) + 1
        stats["opts"]["-f %d" % case["opts"]["fpf"]] = stats["opts"].get("-f %d" % case["opts"]["fpf"], 0) + 1
        stats["opts"]["-t %d" % case["opts"]["t"]] = stats["opts"].get("-t %d" % case["opts"]["t"], 0) + 1
        stats["opts"]["-r " + str(case["ref"])] = stats["opts"].get("-r " + str(case["ref"]), 0) + 1
        sample = None
        if stats["runs"] % 17 == 1:
            sample = {"argv": [a.decode("latin1") for a in case["argv"]], "kind": case["kind"], "exit": rc,
                      "written": [p.decode("latin1") for p in sorted(act_w)][:8], "deleted": [p.decode("latin1") for p in sorted(act_d)][:8]}
        chk.count_case(("run", case["id"], case["kind"], tuple(case["argv"])), True, sample)
    finally:
        fo.rmtree(root)


def short(l):
    s = repr(l)
    return s if len(s) < 600 else s[:600] + "…"


def plan_names(case, facts):
    """all implementation-file names the run may create (Python mirror, only used to bound
    non-deterministic multi-thread failure cases)"""
    nf, ns, nd = facts
    fpf = case["opts"]["fpf"] or nf
    if fpf >= nf and nd == 0:
        return []

    def count(n):
        if n == 0:
            return 0
        f = fpf or 0xffffffff
        return 1 + (n - 1) // f
    return [b"s%010d.c" % i for i in range(count(ns))] + [b"d%010d.c" % i for i in range(count(nd))]


def case_replay(case, variant):
    return {"kind": "run", "variant": variant, "cwd": "inv",
            "argv": [a.hex() for a in case["argv"]],
            "command_line": "w2c2 " + " ".join(a.decode("latin1") for a in case["argv"]) + "   (cwd = <root>/inv, @ROOT@ = sandbox root)",
            "dirs": [x.hex() for x in case["dirs"]],
            "tree": [[rel.hex(), k, c.hex() if c is not None else None] for rel, k, c in case["tree"]],
            "listing": [f"{rel.decode('latin1')} [{k}]" for rel, k, c in case["tree"]],
            "outarg": case["outarg"].hex(), "outdir": case["outdir"].hex() if case["outdir"] is not None else None,
            "opts": case["opts"], "case_kind": case["kind"],
            "replay_cmd": "python3 tools/check.py C20 --replay <this file>"}


def corr_runs(chk, exes, d, n_cases, broken, deadline):
    pool, refs = module_pool(chk.rng, chk.tier)
    # baseline: the model assumes translation of the module itself succeeds — drop modules w2c2 rejects
    good = []
    for name, b in pool:
        bd = os.path.join(d, "baseline")
        os.makedirs(bd, exist_ok=True)
        with open(os.path.join(bd, "m.wasm"), "wb") as f:
            f.write(b)
        p = subprocess.run([exes["w2c2_lg1"], "-f", "2", "-t", "1", "m.wasm", "o.c"], cwd=bd, stdout=subprocess.PIPE, stderr=subprocess.PIPE)
        if p.returncode == 0:
            good.append((name, b))
        fo.rmtree(bd)
    chk.coverage["modules"] = [f"{n} ({len(fo.function_hashes(b))} functions)" for n, b in good]
    stats = {"runs": 0, "kinds": {}, "exit": {}, "opts": {}, "removed": 0, "written": 0, "impl_files": 0,
             "write_through_symlink": 0, "exit_mismatch": 0}
    i = 0
    kinds_cycle = list(CLEAN_MIX_KINDS) + [k for k in OUT_KINDS if k not in CLEAN_MIX_KINDS]     # every kind is forced once; the clean mixes first
    while i < n_cases and time.time() < deadline:
        forced = kinds_cycle[i] if i < len(kinds_cycle) else None
        case = make_case(chk.rng, i, good, refs, forced)
        variant = "w2c2_lg1" if i % 3 else "w2c2_lg0"
        run_case(chk, exes, d, case, None, broken, stats, variant)
        i += 1
    chk.coverage["runs"] = stats
    return stats["runs"]


# ----------------------------------------------------------------------------- the check

def run(tier):
    chk = vlib.Check(PROP, tier)
    t0 = time.time()
    chk.coverage["trusted_base"] = list(vlib.GLOBAL_TRUSTED[:3]) + [
        "tools/extract/gen_files.py (C → Gen/Files.lean): shape-checked extraction, ExtractFail on anything unexpected",
        "glob(3), remove(3), chdir(2), fopen(3) behave as POSIX specifies (glob: `*` does not match a leading period; GLOB_NOSORT only affects order)",
        "hand-modelled parts (dirname/basename of compat.c, order of opens in wasmCWriteModule*, file-count arithmetic) are tied by the strace/snapshot and in-process correspondences of this check",
        "strace reports every file-system call of the traced process tree",
    ]
    chk.assumptions = [
        "paths are shorter than PATH_MAX (longer ones overflow outputDir/outputName/headerName: modelled as .ub, belongs to C10)",
        "the property is read at the level of names in dirname(out): a pre-existing symbolic link AT an output name is followed by fopen (observed, counted in coverage.runs.write_through_symlink, not reported)",
        "remove() of an EMPTY DIRECTORY whose name matches the pattern succeeds (it is a `file whose name matches`)",
        "module/reference paths do not alias an output name (if the user names the module like an output, the run overwrites/cleans it by request)",
        "the process is not killed between operations; fopen failures for other reasons than the entry kind (permissions, disk full) are not generated (the check runs as root)",
    ]
    pr = prove(chk, MODULES, GENS)
    broken = []
    if not pr["build_ok"]:
        broken += pr["errors"]
    ok, out = vlib.lake_build(["filesdriver"]) if pr["gen_ok"] else (False, "Gen/Files not regenerated")
    if not ok:
        broken.append({"kind": "driver-build", "msg": out[-2000:]})
    Model.available = ok
    quick = tier == "quick"
    with vlib.scratch("c20-") as d:
        repo = vlib.copy_repo(os.path.join(d, "repo"))
        exes = fo.build_all(repo, d)
        chk.coverage["rule"] = ("a case is (A) one directory-entry name given to the real cleanImplementationFiles, (B) one (prefix, U32 index) given to the real "
                                "wasmCWriteImplementationFile, (C) one path string given to the dirname/basename the translator links, or (D) one run of the "
                                "real w2c2 binary under strace in a generated populated tree (argv + tree); non-trivial = distinct case; "
                                "each case is compared with the Lean model (filesdriver) and judged against the property")
        corr_clean(chk, exes, d, 1500 if quick else 12000, broken)
        corr_implnames(chk, exes, d, 300 if quick else 6000, broken)
        corr_paths(chk, exes, d, 1500 if quick else 12000, broken)
        budget = 40 if quick else 480
        n = corr_runs(chk, exes, d, 400 if quick else 4000, broken, time.time() + budget)
        chk.coverage["traces_validated_against_impl"] = n if ok else 0
        if not ok:
            chk.notes.append("model unavailable (Gen/driver broken): the real code was only judged against the property's own pattern")
    if tier == "thorough" and pr["build_ok"]:
        for m, msg in leanchecker(chk, MODULES):
            broken.append({"kind": "leanchecker", "msg": f"{m}: {msg}"})
    if broken and not chk.violations and not chk.known_hit:
        chk.violation("tie-or-proof-broken",
                      "a proof obligation or a correspondence of C20 no longer checks; the populated-directory search found no run of the real translator "
                      "that writes or deletes outside its own output names",
                      {"broken": broken[:20]}, False)
    elif broken:
        chk.notes.append({"broken": broken[:10]})
    chk.coverage["wall_parts"] = {"total_s": round(time.time() - t0, 1)}
    return chk.finish()


def replay(path):
    r = json.load(open(path))
    if r.get("kind") == "clean-inproc":
        names = [bytes.fromhex(x) for x in r["names"]]
        kinds = {bytes.fromhex(k): v for k, v in r["kinds"].items()}
        with vlib.scratch("c20r-") as d:
            repo = vlib.copy_repo(os.path.join(d, "repo"))
            exes = fo.build_all(repo, d)
            work = os.path.join(d, "cleandir").encode()
            tdir = os.path.join(d, "t").encode()
            os.makedirs(work)
            os.makedirs(tdir)
            for i, n in enumerate(names):
                fo.put(os.path.join(work, n), kinds.get(n, "f"), None, (tdir, i))
            fo.harness_lines(exes["fh_lg1"], ["clean " + fo.hx(work)], d)
            left = set(os.listdir(work))
            gone = [n for n in names if n not in left and not IMPL_RE.match(n)]
            kept = [n for n in names if n in left and IMPL_RE.match(n) and kinds.get(n, "f") != "dn"]
        print(f"replay clean-inproc: {len(names)} names, removed non-matching: {gone}; matching ones left in place: {len(kept)} {kept[:6]}")
        return 1 if gone or kept else 0
    if r.get("kind") != "run":
        print("replay: this file names a broken obligation/correspondence, not an input:", json.dumps(r.get("broken", r))[:1500])
        return 1
    case = {"id": 0, "kind": r["case_kind"], "dirs": [bytes.fromhex(x) for x in r["dirs"]],
            "tree": [(bytes.fromhex(rel), k, bytes.fromhex(c) if c is not None else None) for rel, k, c in r["tree"]],
            "argv": [bytes.fromhex(a) for a in r["argv"]], "outarg": bytes.fromhex(r["outarg"]),
            "outdir": bytes.fromhex(r["outdir"]) if r["outdir"] is not None else None, "opts": r["opts"]}
    with vlib.scratch("c20r-") as d:
        repo = vlib.copy_repo(os.path.join(d, "repo"))
        exes = fo.build_all(repo, d)
        root = os.path.join(d, "case").encode()
        os.makedirs(root)
        links = build_tree(root, case)
        before = fo.snapshot(root)
        argv = [subst(a, root) for a in case["argv"]]
        rc, err, calls = fo.run_traced(exes[r.get("variant", "w2c2_lg1")], argv, os.path.join(root, b"inv"), os.path.join(d, "trace.txt"))
        after = fo.snapshot(root)
        bad, through = judge_property(case, root, before, after, links)
        bad += judge_syscalls(case, root, calls)[0]
        bad += judge_clean_complete(case, before, calls, rc)
        created, deleted, modified = fo.diff(before, after)
    print("replay:", r["command_line"])
    print(" exit", rc, "| created", sorted(created), "| modified", sorted(modified), "| deleted", sorted(deleted))
    for key, text in bad:
        print(" PROPERTY VIOLATED:", text)
    if through:
        print(" written through symbolic links:", through)
    return 1 if bad else 0
