"""emit-tokens + e2e for additional wasmgen profiles, callable from checks whose main tie is something else
(C05: `memory`; C16: could add `atomics`).  Same judgement as c03.py: a behavioural difference (real w2c2 -> gcc vs
V8) is a violation with the module + call as replay; a token difference without one is a broken correspondence."""
import vlib
import e2e_common as ec
import c03


def run(chk, PROP, profiles, n_tok, n_e2e, per_func, driver_ok, broken, workdir, data_mode_specs=None):
    stats = {"errors": [], "calls_compared": 0, "host_calls": 0}
    env = ec.Env(workdir)
    corpus = ec.corpus_specs(PROP)
    gen = [ec.gen_specs(chk.seed, prof, max(1, int(n_tok * share))) for prof, share in profiles]
    tok_specs = corpus + [s for g in gen for s in g]
    by_id = {ec.spec_id(s): s for s in tok_specs}
    tok_bad = {}
    nfun = 0
    tok = ec.emit_tokens_batch(env, tok_specs, driver_ok=driver_ok)
    for sid, t in tok.items():
        nfun += t["functions"]
        chk.count_case(("tok", sid), t["functions"] > 0, None)
        if t["mismatch"] and sid not in tok_bad:
            tok_bad[sid] = dict(t["mismatch"][0], n=len(t["mismatch"]))
    e2e_specs = corpus + [by_id[s] for s in tok_bad if s in by_id and by_id[s] not in corpus]
    for g, (prof, share) in zip(gen, profiles):
        e2e_specs += [s for s in g[: max(1, int(n_e2e * share))] if ec.spec_id(s) not in tok_bad]
    jobs = c03.make_jobs(env, e2e_specs, per_func)
    if data_mode_specs:
        # memory.init / active segments with the data blob linked in (-d gnu-ld): the bytes moved must be the segment's
        import initmem
        jobs += initmem.mode_jobs(env, data_mode_specs(), modes=("gnu-ld",))
    results = ec.run_jobs(jobs)
    behav = set()
    ops = {}
    for res in results:
        if c03.judge(chk, PROP, res, stats):
            behav.add(res["id"])
        if not res.get("error"):
            ec.merge_hist(ops, res.get("ops", {}))
            chk.count_case(("e2e", res["id"]), res.get("ncalls", 0) > 0, None)
    if tok_bad:
        unexplained = [s for s in tok_bad if s not in behav]
        if unexplained:
            s0 = unexplained[0]
            broken.append({"kind": "correspondence", "name": "emit-tokens",
                           "msg": "%d module(s) differ between real w2c2 and Model.Emit/Render; first %s: %r" % (len(tok_bad), s0, tok_bad[s0]),
                           "modules": unexplained[:10]})
    # sim-semantics: the simulation's source semantics over the instance state (globals, loads/stores, memory.size/grow, stateful
    # calls) vs V8 vs the real output on the same profiles (e2e_common.sim_step)
    sim_specs = [s for g, (prof, share) in zip(gen, profiles) for s in g[: max(1, int(n_e2e * share))]]
    ec.sim_step(chk, PROP, env, sim_specs, per_func, driver_ok, broken, judge=c03.judge, stats=stats, behav=behav)
    chk.coverage.update({
        "e2e_profiles": [p for p, _ in profiles], "emit_tokens_functions": nfun, "emit_tokens_mismatching_modules": len(tok_bad),
        "e2e_modules": len([r for r in results if not r.get("error")]), "e2e_calls_compared": stats["calls_compared"],
        "e2e_op_histogram": ec.top(ops, 40), "e2e_corpus_modules": len(corpus)})
    if stats["errors"]:
        chk.notes.append({"e2e_tool_errors": stats["errors"][:10]})
        if len(stats["errors"]) > max(3, len(results) // 10):
            raise RuntimeError("too many e2e tool errors: %r" % stats["errors"][:5])


def replay(spec_obj, PROP):
    """replay of an e2e violation object produced by c03.judge"""
    import json
    import tempfile
    f = tempfile.NamedTemporaryFile("w", suffix=".json", delete=False)
    json.dump(spec_obj, f)
    f.close()
    return c03.replay(f.name, PROP="C03")
