"""C04 — direct, indirect, recursive and imported calls reach the right function (implementation shared with c03.py).

Obligations: theorems of Props/C04.lean when present (compile_sim (call/call_indirect), call_args_in_order,
func_index_space, elem_init_correct, mangle_injective_on_distinct_imports_partial …).
Tie: emit-tokens on the wasmgen profile `calls` (0-4 imports, 1-12 functions, up to 8 parameters of all four types,
mutual recursion behind a depth guard, element segments with constant and imported-global offsets into defined and
imported tables, re-exported imports) and `init`, in plain/-p/-m/-p -m rendering.
Search: e2e with host imports that log (callee index, instance pointer identity, argument bit patterns in order) and
return a hash of their arguments, so a permuted/dropped argument or a wrong callee changes results and the trace;
table 0 is dumped as function identities and compared with the element segments applied in order.
"""
import c03


def run(tier):
    return c03.run(tier, "C04")


def replay(path):
    return c03.replay(path, "C04")
