"""C04 — direct, indirect, recursive and imported calls reach the right function (implementation shared with c03.py).

Obligations: theorems of Props/C04.lean when present (compile_sim (call/call_indirect), call_args_in_order,
func_index_space, elem_init_correct, mangle_injective_on_distinct_imports_partial …).
Tie: emit-tokens on the wasmgen profile `calls` (0-4 imports, 1-12 functions, up to 8 parameters of all four types,
mutual recursion behind a depth guard, element segments with constant and imported-global offsets into defined and
imported tables, re-exported imports) and `init`, in plain/-p/-m/-p -m rendering.
Module-level text and names: (a) the e2e part also runs under the output options -p / -m / -p -m (table dump vs element segments,
results, host trace vs V8); (b) `inittables-text` (tools/checks/inittables.py): the body of <module>InitTables of the real w2c2 in all four
option sets = Model.InitTables.render over Gen/InitTables (regenerated from wasmCWriteInitTables with BOTH branches of every `if (pretty)`);
Props/C04Tables.lean: -p prints the same tokens, one entry = one store into offset + POSITION of the LISTED function, a segment's text
denotes Model.writeSeg; (c) import names: Gen/Mangle (the escaping rule regenerated from both copies in c.c) + Props/C04Mangle.lean
(escape_injective, mangle_injective for module names without "__" / trailing "_", export_symbol_injective, Model.Render's hand-written
escapeName = the regenerated rule) + directed corpus tools/corpus/C04 (escape look-alikes "a.b"/"aX2Eb", "X"/"X58", empty names, same field
in different modules, struct-field imports).  RECORDED FINDING (known_findings.txt, key import-mangling-underscore-at-module-field-boundary):
("a_","b") and ("a","_b") are mangled to one identifier; every module hit by it is reported under that one key, any other collision is a violation.
Search: e2e with host imports that log (callee index, instance pointer identity, argument bit patterns in order) and
return a hash of their arguments, so a permuted/dropped argument or a wrong callee changes results and the trace;
table 0 is dumped as function identities and compared with the element segments applied in order.
"""
import c03


def run(tier):
    return c03.run(tier, "C04")


def replay(path):
    return c03.replay(path, "C04")
