"""C05 — see memcheck.py (shared implementation for the memory accessor functions) and DESIGN.md §5 C05."""
import memcheck


def run(tier):
    return memcheck.run(tier, "C05")


def replay(path):
    return memcheck.replay(path, "C05")
