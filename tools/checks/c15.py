"""C15 — WASI process services: args, environment, clocks, randomness, exit, thread spawn.

Obligations: theorems of Props/C15.lean over Model/WasiProc.lean (args/environ copy loops,
clock conversion, getentropy chunk loop, proc_exit, thread-spawn transition system) with strides,
`strlen + 1` accounting, clock table, chunk size and thread-id counter regenerated from
wasi/wasi.c (Gen/WasiPath.lean).

Ties (real code = wasi/wasi.c of a scratch copy of /repo, #included into
tools/harness/wasi_paths.c, ASan+UBSan; model = compiled Lean `pathsdriver`; the property is
additionally evaluated on the real answers by an independent Python reference):
  args/environ  generated vectors (0–64 strings, lengths 0–4096, bytes 1–255) × buffer placements
                (both orders, regions ending exactly at the end of memory): whole memory image compared
  clock         interposed host clock: ids 0–5 × precisions {0,1,999999,10^6,10^9,2^63,random,…} × boundary/random
                (sec, nsec) incl. the I64 overflow boundary (UBSan ↔ `.ub signedOverflow`): value AND which host
                clock was read; histories of calls on the real host clocks in both ABI name spaces with ids and
                precisions cycling: every reading bracketed by two direct readings of the host clock the
                specification names (no tolerances), non-settable clocks never decrease; clock_res_get
  random_get    lengths {0,1,255,256,257,512,4096,2^20}: success, every byte of the region written,
                nothing outside it
  proc_exit     codes in a forked child, exit status observed
  thread-spawn  stub module instance, concurrent spawner threads: ids, start calls, child wiring;
                export lookup: directed + generated export tables with look-alike names (prefixes, extensions,
                case variants, duplicates, positions, empty table), each export with its own marker function
"""
import os
import struct
import time

import vlib
import wasi_paths as wp
from common import prove, leanchecker
from vlib import log

PROP = "C15"
MODULES = ["W2c2Verif.Props.C15"]
GENS = [("WasiPath", "gen_wasipath")]
PATHSDRIVER = os.path.join(vlib.LEAN, ".lake", "build", "bin", "pathsdriver")


def fnv(b):
    h = 2166136261
    for x in b:
        h = ((h ^ x) * 16777619) & 0xFFFFFFFF
    return h


# ----------------------------------------------------------------------------- args / environ

def gen_vector(rng, tier, big=False):
    n = rng.choice([0, 1, 2, 3, rng.randrange(0, 12), rng.randrange(0, 65)])
    if big:
        n = 64
    v = []
    for _ in range(n):
        L = rng.choice([0, 1, 2, rng.randrange(0, 16), rng.randrange(0, 200)])
        if big:
            L = rng.choice([4096, 4095, rng.randrange(0, 4097)])
        alpha = rng.choice([b"abcXYZ=/-_.", bytes(range(1, 256))])
        v.append(bytes(rng.choice(alpha) for _ in range(L)))
    return v


def vec_cases(rng, tier):
    cases = []
    n = 80 if tier == "quick" else 800
    for i in range(n):
        big = (i % 40 == 39)
        v = gen_vector(rng, tier, big)
        total = sum(len(a) + 1 for a in v)
        np = 4 * len(v)
        pad = rng.choice([0, 0, 1, 7, rng.randrange(0, 64)])
        order = rng.randrange(4)
        if order == 0:        # pointers first, strings end the memory
            p = rng.choice([8, 8 + rng.randrange(0, 16)])
            b = p + np + pad
            msize = b + total
        elif order == 1:      # strings first, pointer array ends the memory
            b = rng.choice([8, 8 + rng.randrange(0, 16)])
            p = b + total + pad
            msize = p + np
        elif order == 2:
            p = 8 + rng.randrange(0, 8)
            b = p + np + pad
            msize = b + total + rng.randrange(0, 32)
        else:
            b = 8 + rng.randrange(0, 8)
            p = b + total + pad
            msize = p + np + rng.randrange(0, 32)
        msize = max(msize, 8)
        kind = "env" if i % 2 else "args"
        line = f"{kind} {msize} {p} {b} 0 4 {len(v)}" + "".join(" " + wp.hexs(a) for a in v)
        cases.append((line, kind, v, msize, p, b))
    return cases


def vec_expected(v, msize, p, b):
    mem = bytearray(b"\xaa" * msize)
    off = b
    for k, a in enumerate(v):
        mem[off:off + len(a) + 1] = a + b"\0"
        mem[p + 4 * k:p + 4 * k + 4] = struct.pack("<I", off)
        off += len(a) + 1
    total = sum(len(a) + 1 for a in v)
    img = mem.hex() if msize <= 2048 else "fnv:%08x" % fnv(bytes(mem))
    return f"0 {len(v)} {total} 0 {img}"


def run_vectors(chk, exe, tier, broken, model_ok):
    cases = vec_cases(chk.rng, tier)
    lines = [c[0] for c in cases]
    real = wp.batch_once(exe, lines)
    model = vlib.DriverProc(PATHSDRIVER).batch(lines, timeout=3000) if model_ok else None
    hist = {"args": 0, "env": 0}
    sizes = {"strings": [], "bytes": []}
    for i, (line, kind, v, msize, p, b) in enumerate(cases):
        exp = vec_expected(v, msize, p, b)
        hist[kind] += 1
        sizes["strings"].append(len(v))
        sizes["bytes"].append(sum(len(a) + 1 for a in v))
        chk.count_case(line[:200], True, {"line": line[:100], "real": real[i][:80]} if i % 20 == 0 else None)
        if real[i] != exp:
            what = "crash" if real[i].startswith("crash") else "layout"
            chk.violation(f"{kind}-{what}", f"{kind}_sizes_get/{kind}_get on a vector of {len(v)} strings ({sum(len(a) + 1 for a in v)} bytes), pointer array at {p}, buffer at {b}, memory {msize}: real `{real[i][:120]}`, the property requires `{exp[:120]}`",
                          {"kind": "vector", "line": line[:100000], "real": real[i][:4000], "expected": exp[:4000]}, True)
        if model is not None and model[i] != real[i]:
            broken.append({"kind": "correspondence", "msg": f"{line[:80]}: real `{real[i][:80]}` model `{model[i][:80]}`"})
    chk.coverage["vectors"] = {"cases": len(cases), "by_call": hist, "max_strings": max(sizes["strings"]), "max_bytes": max(sizes["bytes"]),
                               "empty_vectors": sizes["strings"].count(0)}


def run_argc(chk, exe, tier, broken, model_ok):
    """wasiInit(argc, argv, …) with an argv ARRAY longer than argc (any NULL-terminated argv passed with a smaller
    count), argc = 0 with a NULL and with a non-NULL argv: sizes and layout are those of the first argc entries."""
    rng = chk.rng
    cases = [(0, None), (0, []), (0, [b"a"]), (0, [b"prog", b"x", b"y"]), (1, [b"prog", b"--hidden", b"zz"]), (2, [b"a", b"bc", b"def", b"ghij"]),
             (3, [b"a", b"", b"c"]), (1, [b"only"]), (2, [b"p", b"q", b"r" * 300])]
    for _ in range(25 if tier == "quick" else 300):
        n = rng.randrange(0, 10)
        arr = [bytes(rng.choice(b"abcXYZ=-_.") for _ in range(rng.choice([0, 1, 3, 17, 120]))) for _ in range(n)]
        cases.append((rng.randrange(0, n + 1), arr))
    lines, exps = [], []
    for argc, arr in cases:
        v = (arr or [])[:argc]
        total = sum(len(a) + 1 for a in v)
        p, b = 8, 8 + 4 * argc + rng.choice([0, 3])
        msize = b + total + rng.choice([0, 0, 16])
        msize = max(msize, 8)
        n = -1 if arr is None else len(arr)
        lines.append(f"argsx {msize} {p} {b} 0 4 {argc} {n}" + "".join(" " + wp.hexs(a) for a in (arr or [])))
        exps.append(vec_expected(v, msize, p, b))
    real = wp.batch_once(exe, lines)
    model = vlib.DriverProc(PATHSDRIVER).batch(lines) if model_ok else None
    shapes = {"argv_null": 0, "argc_zero": 0, "argc_lt_array": 0, "argc_eq_array": 0}
    for i, (argc, arr) in enumerate(cases):
        shapes["argv_null" if arr is None else "argc_zero" if argc == 0 else "argc_lt_array" if argc < len(arr) else "argc_eq_array"] += 1
        chk.count_case(lines[i][:200], True, {"line": lines[i][:100], "real": real[i][:60]} if i % 12 == 0 else None)
        if real[i] != exps[i]:
            crash = real[i].startswith("crash")
            rt, et = real[i].split(), exps[i].split()
            key = "args-crash-argv-null" if crash and arr is None else "args-crash" if crash else "args-sizes-ignore-argc" if rt[1:3] != et[1:3] else "args-layout"
            chk.violation(key, f"wasiInit(argc={argc}, argv={'NULL' if arr is None else f'array of {len(arr)} strings + NULL'}), then args_sizes_get/args_get: real `{real[i][:100]}`, required `{exps[i][:100]}` "
                               f"(errno, count, buffer size, errno, memory): count and size are those of the first argc entries only",
                          {"kind": "argsx", "argc": argc, "argv": None if arr is None else [a.hex() for a in arr], "line": lines[i][:20000], "real": real[i][:2000], "expected": exps[i][:2000]}, True)
        same_ub = model is not None and model[i].startswith("ub nullDeref") and real[i].startswith("crash") and ("null" in real[i] or "SEGV" in real[i])
        if model is not None and model[i] != real[i] and not same_ub:
            broken.append({"kind": "correspondence", "msg": f"{lines[i][:80]}: real `{real[i][:80]}` model `{model[i][:80]}`"})
    chk.coverage["argc_vs_array"] = {"cases": len(cases), "shapes": shapes}


# ----------------------------------------------------------------------------- clocks

NATIVE = {0: "CLOCK_REALTIME", 1: "CLOCK_MONOTONIC", 2: "CLOCK_PROCESS_CPUTIME_ID", 3: "CLOCK_THREAD_CPUTIME_ID"}


PRECS = [0, 1, 999999, 1000000, 10 ** 9, 2 ** 63]


def HOSTSRC(cid, fallback):
    if fallback:
        return {0: "CLOCK_REALTIME (earlier reading rounded down to the microsecond gettimeofday delivers)", 2: "getrusage(RUSAGE_SELF) user+system time"}.get(cid, "n/a")
    return NATIVE[cid]


def eval_history(ids, precs, answer, fallback=False):
    """The property on one clock_time_get history (independent of the model): every reading of a valid id lies
    between the two readings of the host clock the specification names for that id taken directly around the call
    (no tolerance), readings of the non-settable clocks (monotonic, process and thread CPU time) never decrease across
    the whole history whatever the precision, other ids give EINVAL.  Returns None or (key, text, index)."""
    recs = [tuple(int(x) for x in t.split(":")) for t in answer.split()]
    last = {}
    for i, (e, v, t0, t1) in enumerate(recs):
        cid, pr = ids[i % len(ids)], precs[i % len(precs)]
        if cid >= 4 or (fallback and cid not in (0, 2)):
            if e != 28:
                return (f"clock-{cid}-einval", f"call #{i} clock_time_get(id={cid}, precision={pr}) returned {e}, EINVAL (28) required", i)
            continue
        if e != 0:
            return (f"clock-{cid}-fails", f"call #{i} clock_time_get(id={cid}, precision={pr}) failed with errno {e}", i)
        if not (t0 <= v <= t1):
            return (f"clock-{cid}-outside-host-bracket",
                    f"call #{i} clock_time_get(id={cid}, precision={pr}) = {v} is not between the readings {t0} and {t1} of the host's {HOSTSRC(cid, fallback)} taken directly before and after the call ({t0 - v} ns before the earlier one)" if v < t0 else
                    f"call #{i} clock_time_get(id={cid}, precision={pr}) = {v} is later than the reading {t1} of the host's {HOSTSRC(cid, fallback)} taken directly after the call", i)
        if cid in (1, 2, 3) and cid in last and v < last[cid][0]:
            j = last[cid][1]
            return ("clock-monotonic-decreases" if cid == 1 else f"clock-{cid}-decreases",
                    f"{NATIVE[cid]} went backwards: call #{j} (precision={precs[j % len(precs)]}) returned {last[cid][0]}, the later call #{i} (precision={pr}) returned {v} ({last[cid][0] - v} ns earlier)", i)
        last[cid] = (v, i)
    return None


def history_window(ids, precs, answer, i):
    recs = answer.split()
    return [{"call": k, "id": ids[k % len(ids)], "precision": precs[k % len(precs)], "errno:value:hostBefore:hostAfter": recs[k]}
            for k in range(max(0, i - 6), min(len(recs), i + 1))]


def run_clocks(chk, exe, h, tier, broken, model_ok):
    rng = chk.rng
    precs = PRECS + [rng.randrange(0, 2 ** 64)]
    times = [(0, 0), (0, 1), (1, 0), (1, 999999999), (1700000000, 123456789), (2 ** 31, 5), (2 ** 32 + 7, 999999999),
             (9223372036, 854775807), (9223372036, 854775808), (9223372036, 999999999), (9223372037, 0), (2 ** 62, 1)]
    times += [(rng.randrange(0, 9223372036), rng.randrange(0, 10 ** 9)) for _ in range(20 if tier == "quick" else 400)]
    cases = [(cid, precs[(j + cid) % len(precs)], s, ns) for cid in range(6) for j, (s, ns) in enumerate(times)]
    cases += [(cid, pr, 1700000000, 5) for cid in range(6) for pr in precs + [2 ** 64 - 1, 999, 5 * 10 ** 7]]   # every precision on every id
    lines = [f"clockf {cid} {pr} {s} {ns}" for cid, pr, s, ns in cases]
    real = wp.batch_once(exe, lines)
    model = vlib.DriverProc(PATHSDRIVER).batch(lines) if model_ok else None
    kinds = {}
    for i, (cid, pr, s, ns) in enumerate(cases):
        line = lines[i]
        v = s * 10 ** 9 + ns
        r = real[i]
        chk.count_case(line, True, {"line": line, "real": r} if i % 40 == 0 else None)
        if cid >= 4:
            exp = "28 - none"
        elif v < 2 ** 63:
            exp = f"0 {v} {NATIVE[cid]}"
        else:
            exp = None            # signed overflow: undefined, outside the property (year 2262)
        k = r.split()[0] if not r.startswith("crash") else "overflow-trap"
        kinds[k] = kinds.get(k, 0) + 1
        if exp is not None and r != exp:
            rt = r.split()
            if cid < 4 and len(rt) == 3 and rt[:2] == exp.split()[:2]:
                key = f"clock-{cid}-wrong-host-clock"
                what = f"clock_time_get(id={cid}, precision={pr}) reads the host clock {rt[2]} instead of {NATIVE[cid]}: the host clock must depend on the clock id only (a different clock lags or leads the named one, so a history of calls mixing precisions sees time go backwards)"
            else:
                key = f"clock-{cid}-{'einval' if cid >= 4 else 'value'}"
                what = f"clock_time_get(id={cid}, precision={pr}) with host time ({s}, {ns}): real `{r}`, the property requires `{exp}`"
            chk.violation(key, what, {"kind": "clock", "line": line, "real": r, "expected": exp}, True)
        if model is not None:
            m = model[i]
            same = (m == r) or (m.startswith("ub signedOverflow") and r.startswith("crash ubsan") and "signed_integer_overflow" in r)
            if not same:
                broken.append({"kind": "correspondence", "msg": f"{line}: real `{r[:80]}` model `{m[:80]}`"})
    # histories on the REAL host clocks, both ABI name spaces, precisions cycling against the ids
    n = 700 if tier == "quick" else 6000
    hists = []
    for abi in (0, 1):
        hists.append((abi, n, [0, 1, 2, 3, 4, 5], precs))                 # 6 ids x 7 precisions: every pair occurs
        hists.append((abi, n, [1], precs))                                # monotonic only, precision changes every call
        hists.append((abi, n // 2, [1, 3, 1, 2], [1, 10 ** 9, 0, 10 ** 6, 2 ** 63]))
    ncalls = 0
    for abi, cnt, ids, prs in hists:
        line = f"clockhist {abi} {cnt} {','.join(map(str, ids))} {','.join(map(str, prs))}"
        ans = h.ask(line)
        ncalls += cnt
        chk.count_case(line, True, {"line": line, "first": ans[:80]} if abi == 1 and ids == [1] else None)
        if ans.startswith("crash") or ans.startswith("err"):
            chk.violation("clock-history-crash", f"clock_time_get history crashed: {ans[:160]}", {"kind": "clock", "line": line, "real": ans, "expected": "per-call records"}, True)
            continue
        bad = eval_history(ids, prs, ans)
        if bad:
            key, text, idx = bad
            chk.violation(key, f"history of {cnt} clock_time_get calls ({'snapshot_preview1' if abi else 'unstable'}; ids cycling {ids}, precisions cycling {prs}): {text}",
                          {"kind": "clockhist", "abi": abi, "n": cnt, "ids": ids, "precisions": prs, "line": line, "failing_call": idx,
                           "calls_up_to_failure": history_window(ids, prs, ans, idx)}, True)
    # clock_res_get: same id mapping, resolution of the named host clock
    for abi in (0, 1):
        for cid in range(6):
            r = h.ask(f"clockres {abi} {cid}").split()
            chk.count_case(("clockres", abi, cid), True, None)
            ok = (r[0] == "28") if cid >= 4 else (r[0] == "0" and len(r) == 3 and r[1] == r[2])
            if not ok:
                chk.violation(f"clock-res-{cid}", f"clock_res_get(id={cid}) ({'snapshot_preview1' if abi else 'unstable'}): real `{' '.join(r)}` (errno, value, resolution of the host's {NATIVE.get(cid, 'n/a')}); required: {'EINVAL' if cid >= 4 else 'success and equal values'}",
                              {"kind": "clock", "line": f"clockres {abi} {cid}", "real": " ".join(r), "expected": "28 -" if cid >= 4 else f"0 {r[-1]} {r[-1]}"}, True)
    chk.coverage["clocks"] = {"interposed_cases": len(lines), "precisions": [str(p) for p in precs], "history_calls_real_clocks": ncalls,
                              "histories": len(hists), "outcomes": kinds}


def run_clocks_fallback(chk, exe_fb, tier, broken, model_ok):
    """The library built WITHOUT POSIX timers (-DWASI_FALLBACK_TIMERS_ENABLED=1): realtime from gettimeofday, process
    CPU time from getrusage, converted by convertTimeval (microseconds!).  Interposed host calls for exact values,
    then histories on the real calls bracketed by host readings of the same source."""
    rng = chk.rng
    if wp.batch_once(exe_fb, ["clockconfig"])[0] != "fallback":
        raise RuntimeError("fallback-timer harness was not built in the fallback configuration")
    tvs = [(0, 0), (0, 1), (0, 999), (0, 1000), (1, 0), (1, 999999), (1700000000, 123456), (2 ** 31, 5), (9223372036, 854775), (9223372036, 854776), (9223372037, 0)]
    tvs += [(rng.randrange(0, 9223372036), rng.randrange(0, 10 ** 6)) for _ in range(15 if tier == "quick" else 300)]
    cases = [(cid, s, us) for cid in range(6) for (s, us) in tvs]
    lines = [f"clockfb {cid} {s} {us}" for cid, s, us in cases]
    real = wp.batch_once(exe_fb, lines)
    model = vlib.DriverProc(PATHSDRIVER).batch(lines) if model_ok else None
    src = {0: "gettimeofday", 2: "getrusage"}
    for i, (cid, s, us) in enumerate(cases):
        v = s * 10 ** 9 + us * 1000
        exp = "28 - none" if cid not in src else (f"0 {v} {src[cid]}" if v < 2 ** 63 else None)
        r = real[i]
        chk.count_case("fb " + lines[i], True, {"line": lines[i], "config": "fallback timers", "real": r} if i % 30 == 1 else None)
        if exp is not None and r != exp:
            chk.violation(f"clock-fallback-{cid}-value", f"library built with -DWASI_FALLBACK_TIMERS_ENABLED=1: clock_time_get(id={cid}) with the host's {src.get(cid, 'n/a')} = ({s} s, {us} us): real `{r}`, required `{exp}` (seconds·10^9 + microseconds·1000)",
                          {"kind": "clock-fallback", "line": lines[i], "real": r, "expected": exp}, True)
        if model is not None:
            same = (model[i] == r) or (model[i].startswith("ub signedOverflow") and r.startswith("crash ubsan") and "signed_integer_overflow" in r)
            if not same:
                broken.append({"kind": "correspondence", "msg": f"[fallback timers] {lines[i]}: real `{r[:80]}` model `{model[i][:80]}`"})
    n = 400 if tier == "quick" else 4000
    ncalls = 0
    for abi in (0, 1):
        for ids in ([0, 2, 1, 3, 4], [0], [2]):
            line = f"clockhist {abi} {n} {','.join(map(str, ids))} 1,1000000,0"
            ans = wp.batch_once(exe_fb, [line])[0]
            ncalls += n
            chk.count_case("fb " + line, True, None)
            if ans.startswith(("crash", "err")):
                chk.violation("clock-fallback-history-crash", f"[fallback timers] history crashed: {ans[:160]}", {"kind": "clock-fallback", "line": line, "real": ans, "expected": "records"}, True)
                continue
            bad = eval_history(ids, [1, 1000000, 0], ans, fallback=True)
            if bad:
                key, text, idx = bad
                chk.violation(key.replace("clock-", "clock-fallback-", 1), f"library built with -DWASI_FALLBACK_TIMERS_ENABLED=1, history of {n} clock_time_get calls (ids cycling {ids}): {text}",
                              {"kind": "clockhist-fallback", "abi": abi, "n": n, "ids": ids, "precisions": [1, 1000000, 0], "line": line, "failing_call": idx,
                               "calls_up_to_failure": history_window(ids, [1, 1000000, 0], ans, idx)}, True)
    chk.coverage["clocks_fallback_config"] = {"interposed_cases": len(lines), "history_calls": ncalls}


# ----------------------------------------------------------------------------- random / exit / spawn

def run_random(chk, h, tier, broken, model_ok):
    lens = [0, 1, 255, 256, 257, 512, 4096, 2 ** 20]
    if tier == "thorough":
        lens += [2, 3, 100, 511, 513, 768, 1000, 65536, 65537, 2 ** 20 + 1, 3 * 2 ** 20]
    drv = vlib.DriverProc(PATHSDRIVER)
    # the list-based model needs ~90 s for 2^20 bytes (quadratic in the length): lengths above 64 KiB (quick) /
    # above 1 MiB (thorough) are checked on the real code against the property only (the theorem
    # random_get_total covers every length)
    cap = 65536 if tier == "quick" else 1 << 20
    model = None
    if model_ok:
        mo = drv.batch([f"random {n}" for n in lens if n <= cap], timeout=3000)
        it = iter(mo)
        model = [next(it) if n <= cap else None for n in lens]
    for i, n in enumerate(lens):
        r = h.ask(f"random {n}")
        chk.count_case(("random", n), True, {"line": f"random {n}", "real": r, "model": model[i] if model else None} if n in (257, 2 ** 20) else None)
        exp = f"0 {n} 0"
        if r != exp:
            key = "random-get-over-256" if n > 256 else "random-get-fails"
            chk.violation(key, f"random_get(len={n}): real `{r}` (errno, bytes of the region written, outside changed), the property requires `{exp}`",
                          {"kind": "random", "len": n, "real": r, "expected": exp}, True)
        if model is not None and model[i] is not None and model[i] != r:
            broken.append({"kind": "correspondence", "msg": f"random {n}: real `{r}` model `{model[i]}`"})
    chk.coverage["random_lengths"] = lens
    chk.coverage["random_lengths_model_compared"] = [n for n in lens if n <= cap]


def run_exit(chk, h, tier, broken, model_ok):
    codes = [0, 1, 2, 3, 42, 127, 128, 255, 256, 257, 511, 65535, 2 ** 31 - 1, 2 ** 31, 2 ** 32 - 1]
    drv = vlib.DriverProc(PATHSDRIVER)
    model = drv.batch([f"exit {c}" for c in codes]) if model_ok else None
    for i, c in enumerate(codes):
        r = h.ask(f"exit {c}")
        chk.count_case(("exit", c), True, None)
        exp = f"exited {c & 255}"
        if r != exp:
            chk.violation("proc-exit-status", f"proc_exit({c}): parent observed `{r}`, required `{exp}`", {"kind": "exit", "code": c, "real": r, "expected": exp}, True)
        if model is not None and model[i] != r:
            broken.append({"kind": "correspondence", "msg": f"exit {c}: real `{r}` model `{model[i]}`"})
    chk.coverage["exit_codes"] = codes


def run_spawn(chk, h, tier, broken, model_ok):
    combos = [(1, 1, 1), (1, 5, 1), (2, 2, 1), (4, 5, 1), (8, 10, 1), (16, 8, 1), (1, 1, 0), (2, 2, 0), (8, 4, 0)]
    if tier == "thorough":
        combos += [(32, 16, 1), (64, 8, 1), (3, 50, 1), (16, 4, 0)] * 3
    drv = vlib.DriverProc(PATHSDRIVER)
    for ci, (t, p, e) in enumerate(combos):
        reps = 2 if tier == "quick" else 5
        for rep in range(reps):
            r = h.ask(f"spawn {t} {p} {e}")
            k = t * p
            chk.count_case(("spawn", t, p, e, rep), True, {"line": f"spawn {t} {p} {e}", "real": r[:100]} if rep == 0 and ci in (3, 7) else None)
            ids = ",".join(str(x) for x in range(1, k + 1))
            exp = (f"ids {ids} neg 0 children {k} starts {ids} argsok 1" if e else f"ids - neg {k} children 0 starts - argsok 1")
            if r != exp:
                chk.violation("spawn-missing-export" if not e else "spawn-ids-or-starts",
                              f"{t} threads x {p} thread-spawn calls (export {'present' if e else 'missing'}): real `{r[:200]}`, the property requires `{exp[:200]}`",
                              {"kind": "spawn", "line": f"spawn {t} {p} {e}", "real": r, "expected": exp}, True)
            if model_ok:
                m = drv.batch([f"spawn {t} {p} {e} {chk.rng.randrange(1 << 30)}"])[0]
                if m != r:
                    broken.append({"kind": "correspondence", "msg": f"spawn {t} {p} {e}: real `{r[:100]}` model `{m[:100]}`"})
    chk.coverage["spawn_combos"] = [list(c) for c in combos]


EXACT = "wasi_thread_start"
LOOKALIKES = ["wasi_thread_start_hook", "wasi_thread_start2", "wasi_thread_start_", "wasi_thread_startwasi_thread_start",
              "wasi_thread_star", "wasi_thread", "wasi", "w", "", "WASI_THREAD_START", "Wasi_thread_start", "wasi_thread_Start",
              "wasi-thread-start", "_wasi_thread_start", " wasi_thread_start", "wasi_thread_start ", "_start", "memory", "main",
              "wasi_thread_stop", "xwasi_thread_start"]


def spawnx_line(names, ncalls, argbase, child_first=False):
    return f"spawnx{'s' if child_first else ''} {ncalls} {argbase} {len(names)}" + "".join(" " + wp.hexs(n.encode()) for n in names)


def spawnx_expected(names, ncalls, argbase):
    """The property: the entry is the FIRST export named exactly wasi_thread_start; none → every call returns a
    negative value and nothing is spawned."""
    idx = next((i for i, n in enumerate(names) if n == EXACT), None)
    if idx is None:
        return "ret " + (",".join(["-1"] * ncalls) or "-") + " ran - children 0"
    rets = ",".join(str(t) for t in range(1, ncalls + 1)) or "-"
    ran = ",".join(f"{idx}:{t}:{argbase + t - 1}:1" for t in range(1, ncalls + 1)) or "-"
    return f"ret {rets} ran {ran} children {ncalls}"


def spawn_lookup_tables(rng, tier):
    t = []
    # directed: no function exports at all; exact name alone / first / middle / last; duplicates; every look-alike
    # alone, before the exact name, after it
    t.append([])
    t.append([EXACT])
    t.append([EXACT, "_start", "memory"])
    t.append(["_start", EXACT, "main"])
    t.append(["_start", "main", EXACT])
    t.append([EXACT, EXACT])
    t.append(["_start", EXACT, "x", EXACT])
    for la in LOOKALIKES:
        t.append([la])
        t.append([la, EXACT])
        t.append([EXACT, la])
        t.append(["_start", la, "main"])
    t.append(["wasi_thread_start_hook", "wasi_thread_start2", EXACT, "wasi_thread_start"])
    t.append(["wasi_thread_start_hook", "wasi_thread_start2", "wasi_thread"])
    # generated
    for _ in range(40 if tier == "quick" else 600):
        k = rng.randrange(0, 9)
        pool = LOOKALIKES + ([EXACT] * rng.choice([0, 1, 3, 6]))
        t.append([rng.choice(pool) for _ in range(k)])
    return t


def run_spawn_lookup(chk, exe, tier, broken, model_ok):
    rng = chk.rng
    tables = spawn_lookup_tables(rng, tier)
    # every table under two legal schedules: the spawner continues first / the new thread runs to completion (and
    # frees its ThreadStartArg block) before pthread_create returns to the spawner
    cases = [(names, rng.choice([1, 1, 2, 3]), rng.choice([0, 7, 1000]), cf) for names in tables for cf in (False, True)]
    lines = [spawnx_line(*c) for c in cases]
    real = wp.batch_once(exe, lines)
    model = vlib.DriverProc(PATHSDRIVER).batch(lines) if model_ok else None
    hist = {"no_exact_name": 0, "exact_first": 0, "exact_after_lookalike": 0, "empty_table": 0}
    for i, (names, ncalls, argbase, cf) in enumerate(cases):
        exp = spawnx_expected(names, ncalls, argbase)
        r = real[i]
        idx = next((j for j, n in enumerate(names) if n == EXACT), None)
        pre = [n for n in names[:idx if idx is not None else len(names)] if n.startswith(EXACT)]
        hist["empty_table" if not names else "no_exact_name" if idx is None else "exact_after_lookalike" if pre else "exact_first"] += 1
        chk.count_case(lines[i], True, {"exports": names, "calls": ncalls, "real": r[:80], "model": model[i][:80] if model else None} if i % 25 == 3 else None)
        if r != exp:
            if r.startswith("crash") and idx is not None:
                key, why = "spawn-returns-freed-id" if cf else "spawn-crash", ("under the schedule where the new thread finishes (and frees its ThreadStartArg block) before the spawner continues, thread-spawn must still return the id it passed to wasi_thread_start"
                                                                                 if cf else "thread-spawn crashed")
            elif idx is None and "ran -" not in r:
                key, why = "spawn-export-lookalike-taken", "no export is named exactly wasi_thread_start, so every thread-spawn call must return a negative value and start nothing"
            elif idx is not None and r.startswith("ret 1") and f" ran {idx}:" not in r:
                key, why = "spawn-export-wrong-entry", f"the thread entry must be export #{idx} (the first one named exactly wasi_thread_start)"
            else:
                key, why = "spawn-export-lookup", "export lookup / returned ids / start calls differ from the property"
            chk.violation(key, f"thread-spawn on a module whose function exports are {names!r} ({ncalls} call(s), start arg {argbase}…; schedule: {'new thread runs to completion first' if cf else 'spawner continues first'}): {why}; real `{r[:160]}`, required `{exp[:160]}` (format: returned values; `ran export#:tid:arg:childOk`)",
                          {"kind": "spawnx", "exports": names, "calls": ncalls, "argbase": argbase, "child_first": cf, "line": lines[i], "real": r, "expected": exp}, True)
        if model is not None and model[i] != r and not (model[i].startswith("ub useAfterFree") and r.startswith("crash child asan:heap-use-after-free")):
            broken.append({"kind": "correspondence", "msg": f"thread-spawn export lookup {names!r} child_first={cf}: real `{r[:100]}` model `{model[i][:100]}`"})
    chk.coverage["spawn_export_tables"] = {"cases": len(cases), "shapes": hist, "lookalike_names": len(LOOKALIKES)}


def spawnm_line(tables, callers, argbase, child_first=False):
    t = "".join(f" {len(names)}" + "".join(" " + wp.hexs(n.encode()) for n in names) for names in tables)
    return f"spawnm {1 if child_first else 0} {argbase} {len(tables)}{t} {len(callers)}" + "".join(f" {c}" for c in callers)


def spawnm_expected(tables, callers, argbase):
    """The property over a history of thread-spawn calls by SEVERAL instances of one process: each call looks up the FIRST
    export named exactly wasi_thread_start in the CALLING instance's table; none → negative value, nothing started;
    otherwise a fresh id (1, 2, … over the whole process) and ONE start of that export's function on a fresh child
    of the calling instance with (id, arg)."""
    rets, ran, nid = [], [], 1
    for j, who in enumerate(callers):
        idx = next((i for i, n in enumerate(tables[who]) if n == EXACT), None)
        if idx is None:
            rets.append("-1")
        else:
            rets.append(str(nid))
            ran.append(f"{who}:{who}:{idx}:{nid}:{argbase + j}:1")
            nid += 1
    return f"ret {','.join(rets) or '-'} ran {','.join(ran) or '-'} children {nid - 1}"


def describe_spawnm(tables, callers):
    names = "abcdefgh"
    t = "; ".join(f"m{names[i]} exports {tb!r}" for i, tb in enumerate(tables))
    return f"instances {t}; calls in the order {', '.join('m' + names[c] for c in callers)}"


def run_spawn_multi(chk, exe, tier, broken, model_ok):
    """thread-spawn histories over several module instances (several `w2c2 -m` modules) in one process, interleaved"""
    rng = chk.rng
    own = ["_start", EXACT]
    none_ = ["_start", "main"]
    look = ["wasi_thread_start_hook", "wasi_thread_star", "memory"]
    own2 = ["wasi_thread_start2", "x", EXACT, EXACT]
    hs = [
        ([own, none_, own2], [1, 0, 1, 2, 0, 2]),           # mb (no export) first, then interleaved with two exporting modules
        ([own, none_], [0, 1]),                             # exporting module first, then the one without
        ([none_, own], [0, 1, 0]),
        ([own, own2], [0, 1, 1, 0]),                        # two modules with their own wasi_thread_start
        ([own2, own], [0, 1]),
        ([own, look], [0, 1, 0, 1]),                        # look-alike names only
        ([look, none_, []], [0, 1, 2, 0]),                  # nobody exports it
        ([own, [], own], [0, 1, 2, 1]),                     # an empty export table between two exporting ones
        ([own], [0, 0, 0]),                                 # one instance (the usual program)
        ([none_, look, own, own2], [2, 0, 1, 3, 0, 1, 2, 3]),
    ]
    pool = [own, none_, look, own2, [], [EXACT], ["main", "wasi_thread_start_", EXACT], ["WASI_THREAD_START"]]
    for _ in range(14 if tier == "quick" else 300):
        m = rng.randrange(2, 5)
        tb = [rng.choice(pool) if rng.random() < 0.7 else [rng.choice(LOOKALIKES + [EXACT, EXACT]) for _ in range(rng.randrange(0, 4))] for _ in range(m)]
        if sum(len(x) for x in tb) > 15:
            continue
        hs.append((tb, [rng.randrange(m) for _ in range(rng.randrange(2, 11))]))
    cases = [(tb, callers, rng.choice([0, 7, 5000]), cf) for tb, callers in hs for cf in (False, True)]
    lines = [spawnm_line(*c) for c in cases]
    real = wp.batch_once(exe, lines)
    model = vlib.DriverProc(PATHSDRIVER).batch(lines) if model_ok else None
    hist = {"histories": len(cases), "calls": 0, "calls_by_instance_without_export_after_a_successful_spawn": 0,
            "calls_by_second_exporting_instance": 0, "instances_max": max(len(c[0]) for c in cases)}
    for i, (tb, callers, argbase, cf) in enumerate(cases):
        exp = spawnm_expected(tb, callers, argbase)
        r = real[i]
        has = [EXACT in t for t in tb]
        seen_ok = None
        for c in callers:
            hist["calls"] += 1
            if seen_ok is not None and not has[c]:
                hist["calls_by_instance_without_export_after_a_successful_spawn"] += 1
            if seen_ok is not None and has[c] and c != seen_ok:
                hist["calls_by_second_exporting_instance"] += 1
            if has[c] and seen_ok is None:
                seen_ok = c
        chk.count_case(lines[i], True, {"history": describe_spawnm(tb, callers), "real": r[:100], "model": model[i][:100] if model else None} if i % 9 == 0 else None)
        if r != exp:
            rr, ee = r.split(" ran ")[0], exp.split(" ran ")[0]
            if r.startswith("crash"):
                key, why = "spawn-multi-crash", "the history crashed"
            elif rr != ee:
                key, why = "spawn-multi-instance-ids", ("the returned values differ: a call by an instance WITHOUT a wasi_thread_start export must return a negative value and start nothing, "
                                                        "every other call a fresh positive id")
            else:
                key, why = "spawn-multi-instance-wrong-start-function", "a thread ran the start function of ANOTHER instance (or on a child of another instance) instead of the calling instance's own wasi_thread_start"
            chk.violation(key, f"thread-spawn history over several instances in one process ({describe_spawnm(tb, callers)}; start args {argbase}…; schedule: {'new thread runs to completion first' if cf else 'spawner continues first'}): "
                          f"{why}; real `{r[:200]}`, required `{exp[:200]}` (format: returned values; `ran callerInstance:entryInstance:entryExport#:tid:arg:childOfCaller`)",
                          {"kind": "spawnm", "tables": tb, "callers": callers, "argbase": argbase, "child_first": cf, "line": lines[i], "real": r, "expected": exp}, True)
        if model is not None and model[i] != r and not (model[i].startswith("ub useAfterFree") and r.startswith("crash child asan:heap-use-after-free")):
            broken.append({"kind": "correspondence", "msg": f"thread-spawn multi-instance history {describe_spawnm(tb, callers)} child_first={cf}: real `{r[:120]}` model `{model[i][:120]}`"})
    chk.coverage["spawn_multi_instance"] = hist


def newchild_shares_memory(repo):
    """Source-level check for the one fact the spawn model takes from w2c2/c.c: NewChild calls
    InitMemories(child, self), and InitMemories takes a shared memory from `parent` when given."""
    import re
    txt = open(os.path.join(repo, "w2c2", "c.c"), encoding="latin-1").read()
    a = re.search(r'"%sInitMemories\(child, self\);\\n"', txt) is not None
    b = re.search(r'fputs\("if \(parent == NULL\) \{\\n", file\);', txt) is not None and \
        re.search(r'wasmCWriteFileMemoryUse\(file, module, moduleMemoryIndex, "parent", true\);', txt) is not None
    c = re.search(r'fputs\("child->common\.funcExports = self->common\.funcExports;\\n", file\);', txt) is not None
    return a and b and c


def run(tier):
    chk = vlib.Check(PROP, tier)
    chk.coverage["trusted_base"] = list(vlib.GLOBAL_TRUSTED) + [
        "host services: clock_gettime, getentropy (<= 256 bytes per call succeed, EIO beyond — glibc/POSIX.1-2024), exit/WEXITSTATUS, pthread_create runs the start routine once; __atomic_fetch_add is indivisible",
        "tools/extract/gen_wasipath.py (strides, strlen+1 accounting, clock table, entropy chunk shape, thread-id counter)",
        "thread-spawn: child instances share the parent's shared memory because the emitted NewChild calls InitMemories(child, self) (checked on the text of w2c2/c.c by this check; the emitted code itself belongs to C06)",
    ]
    chk.assumptions = ["host monotonic clock is non-decreasing (clock_monotonic_partial); signed overflow of sec*10^9+nsec (year 2262) is outside the property",
                       "thread-id counter wrap after 2^32-2 spawns is outside tid_distinct (stated in the theorem: the fetch-add step is enabled below the wrap)"]
    pr = prove(chk, MODULES, GENS)
    broken = [e for e in pr["errors"]] if not pr["build_ok"] else []
    ok, out = vlib.lake_build(["pathsdriver"])
    model_ok = ok and pr["gen_ok"]
    if not ok:
        broken.append({"kind": "driver-build", "msg": out[-2000:]})
    chk.coverage["rule"] = ("a case = one request answered by the real wasi.c (ASan+UBSan harness) and the Lean model and checked against an independent Python statement of the property: "
                            "one (vector, buffer placement) | one (clock id, host time) | one random_get length | one exit code | one concurrent spawn run; non-trivial = distinct request")
    with vlib.scratch("c15-") as d:
        repo = vlib.copy_repo(os.path.join(d, "repo"))
        exe = wp.build(repo, d)
        h = wp.Harness(exe)
        run_vectors(chk, exe, tier, broken, model_ok)
        run_argc(chk, exe, tier, broken, model_ok)
        run_clocks(chk, exe, h, tier, broken, model_ok)
        exe_fb = wp.build(repo, d, extra_defs=["-DWASI_FALLBACK_TIMERS_ENABLED=1"], suffix="_fb")
        run_clocks_fallback(chk, exe_fb, tier, broken, model_ok)
        run_random(chk, h, tier, broken, model_ok)
        run_exit(chk, h, tier, broken, model_ok)
        run_spawn(chk, h, tier, broken, model_ok)
        run_spawn_lookup(chk, exe, tier, broken, model_ok)
        run_spawn_multi(chk, exe, tier, broken, model_ok)
        if not newchild_shares_memory(repo):
            broken.append({"kind": "correspondence", "msg": "w2c2/c.c: NewChild no longer calls InitMemories(child, self) / InitMemories no longer takes shared memories from the parent"})
        chk.coverage["harness_crashes"] = h.crashes
        h.close()
    chk.coverage["traces_validated_against_impl"] = chk.coverage["evaluations"]
    if tier == "thorough" and pr["build_ok"]:
        for m, msg in leanchecker(chk, MODULES):
            broken.append({"kind": "leanchecker", "msg": f"{m}: {msg}"})
    if broken and not chk.violations and not chk.known_hit:
        first = broken[0]
        chk.violation("tie-or-proof-broken",
                      "model/code tie or proof broken (NOT a demonstrated defect of the real code: every property check on the real answers passed): "
                      + ", ".join(sorted({b.get("kind", "?") for b in broken})) + " — first: " + str(first.get("msg", first))[:300],
                      {"broken": broken[:20]}, False)
    elif broken:
        chk.notes.append({"broken": broken[:10]})
    return chk.finish()


def replay(path):
    import json
    r = json.load(open(path))
    with vlib.scratch("c15r-") as d:
        repo = vlib.copy_repo(os.path.join(d, "repo"))
        exe = wp.build(repo, d)
        h = wp.Harness(exe)
        kind = r.get("kind")
        if kind == "random":
            out = h.ask(f"random {r['len']}")
            print(f"replay random_get(len={r['len']}): real `{out}` (errno, bytes written, outside changed), required `{r['expected']}`")
            rc = 0 if out == r["expected"] else 1
        elif kind in ("clock-fallback", "clockhist-fallback"):
            exe_fb = wp.build(repo, d, extra_defs=["-DWASI_FALLBACK_TIMERS_ENABLED=1"], suffix="_fb")
            rc = 0
            if kind == "clock-fallback":
                out = wp.batch_once(exe_fb, [r["line"]])[0]
                print(f"replay [library built with -DWASI_FALLBACK_TIMERS_ENABLED=1] `{r['line']}`: real `{out}`, required `{r['expected']}`")
                rc = 0 if out == r["expected"] else 1
            else:
                print("replay of a timing history (fallback-timer build): re-run up to 5 times; one failing run reproduces the violation")
                for attempt in range(1, 6):
                    ans = wp.batch_once(exe_fb, [r["line"]])[0]
                    bad = eval_history(r["ids"], r["precisions"], ans, fallback=True)
                    if bad:
                        print(f"replay attempt {attempt}/5: FAILS — {bad[1]}")
                        rc = 1
                        break
                    print(f"replay attempt {attempt}/5: {r['n']} calls, every reading inside its host bracket")
        elif kind == "clockhist":
            # a timing history: the property must hold on EVERY run, so up to 5 attempts are made and one failing attempt is a reproduction
            rc = 0
            print("replay of a timing history on the real host clocks: readings differ from run to run, so the history is re-run up to 5 times; "
                  "the property must hold on every run, one failing run reproduces the violation (a clock that lags the named one fails on practically every call)")
            for attempt in range(1, 6):
                ans = h.ask(r["line"])
                bad = None if ans.startswith(("crash", "err")) else eval_history(r["ids"], r["precisions"], ans)
                if ans.startswith(("crash", "err")) or bad:
                    print(f"replay attempt {attempt}/5 of `{r['line'][:100]}`: FAILS — {bad[1] if bad else ans[:200]}")
                    if bad:
                        for c in history_window(r["ids"], r["precisions"], ans, bad[2]):
                            print("   ", c)
                    rc = 1
                    break
                print(f"replay attempt {attempt}/5 of `{r['line'][:100]}`: {r['n']} calls, every reading inside its host bracket, no clock went backwards")
        elif kind == "spawnx":
            out = h.ask(spawnx_line(r["exports"], r["calls"], r["argbase"], r.get("child_first", False)))
            print(f"replay thread-spawn x{r['calls']} with function exports {r['exports']!r}: real `{out[:200]}`, required `{r['expected'][:200]}`")
            rc = 0 if out == r["expected"] else 1
        elif kind == "spawnm":
            out = h.ask(spawnm_line(r["tables"], r["callers"], r["argbase"], r.get("child_first", False)))
            print(f"replay thread-spawn history over {len(r['tables'])} instances in one process ({describe_spawnm(r['tables'], r['callers'])}):\n  real     `{out[:300]}`\n  required `{r['expected'][:300]}`\n  (returned values; ran callerInstance:entryInstance:entryExport#:tid:arg:childOfCaller)")
            rc = 0 if out == r["expected"] else 1
        elif kind == "argsx":
            out = h.ask(r["line"])
            print(f"replay wasiInit(argc={r['argc']}, argv={'NULL' if r['argv'] is None else str(len(r['argv'])) + ' strings + NULL'}) + args_sizes_get/args_get: real `{out[:120]}`, required `{r['expected'][:120]}`")
            rc = 0 if out == r["expected"] else 1
        elif kind == "spawn":
            # a concurrent run: the interleaving differs from run to run, so it is repeated and additionally run under the
            # schedule "every new thread finishes before its spawner continues" (legal, and deterministic)
            rc = 0
            print("replay of a concurrent thread-spawn run: the interleaving is the host scheduler's, so the run is repeated (up to 60 free-running attempts, then "
                  "once under the child-runs-first schedule); one failing run reproduces the violation")
            for attempt, line in enumerate([r["line"]] * 60 + [r["line"] + " 1"], 1):
                out = h.ask(line)
                ok = out == r["expected"]
                if not ok or attempt in (1, 60, 61):
                    print(f"replay attempt {attempt}/61 `{line}`: real `{out[:160]}`" + ("" if ok else f" — required `{r['expected'][:160]}`"))
                if not ok:
                    rc = 1
                    break
        elif kind in ("vector", "clock"):
            out = h.ask(r["line"])
            print(f"replay `{r['line'][:100]}`: real `{out[:200]}`, required `{str(r['expected'])[:200]}`")
            rc = 0 if out == r["expected"] else 1
        elif kind == "exit":
            out = h.ask(f"exit {r['code']}")
            print(f"replay proc_exit({r['code']}): `{out}`, required `{r['expected']}`")
            rc = 0 if out == r["expected"] else 1
        else:
            print("replay: nothing to run for this record (proof/tie breakage): " + json.dumps(r.get("broken", ""))[:600])
            rc = 1
        h.close()
    return rc
