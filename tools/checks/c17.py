"""C17 — memory.atomic.wait / notify: no lost wake-ups, exact counts, exact return codes.

Obligations: the theorems of Props/C17.lean (futex_inv, futex_no_uaf, wait_returns, no_lost_wakeup,
notify_count_exact, futex_deadlock_free, wait_effective_address, ...) — induction on `Reach` over
`Model.Futex`, the statement-by-statement model of futex.c / map.c / list.c / WASM_MUTEX+COND macros.

Ties (all against a scratch copy of /repo's working tree):
  sched-trace  the REAL futex.c/list.c/map.c (+header, -DWASM_THREADS_PTHREADS, ASan+UBSan) run under the
               deterministic scheduler shim (tools/sched) on generated scenarios (threads x {wait32, wait64,
               notify, store}, addresses colliding in the hash buckets) and seeded / DFS-enumerated schedules
               incl. spurious wake-ups and timeouts; the executed schedule string is replayed by `futexdriver`
               in Model.Futex; verdict (ok / deadlock), per-thread return values, blocked threads, map
               emptiness and the sanitizer verdict must agree.  In ALLOC mode (harness `shared` = 3; the DIRECTED scenarios
               by DFS and a share of the seeded runs) the calloc/malloc calls of futex.c/map.c/list.c are scheduling points
               too: on a fresh memory the first waiter is suspended between its comparison and the creation of the map / its
               enqueue while a store + notify run (a notify that looks at the map before it owns the mutex loses that wake-up).
  emit-tokens  the wait/notify statements the REAL w2c2 writes (random static offsets, stack depths) vs the text of
               `Futex.Emit` (whose address expression `wait_effective_address` is about).
  e2e-offset   wait32/wait64/notify with static offsets through real w2c2 + gcc + real futex.c: which cell is
               examined / whose waiter is woken.
On break: property oracles on the real outcomes (sanitizer report, assertion, shim misuse, notify count > n, woken
!= notified, illegitimately blocked thread), DFS under the shim on the real code for small scenarios, and DFS in the
model (futexdriver `dfs`) with replay of its candidates on the real code.
"""
import json
import os
import re
import time

import vlib
import futex_sched as fs
import futex_history as fh
import opmods
from common import prove, leanchecker
from vlib import log

PROP = "C17"
MODULES = ["W2c2Verif.Props.C17", "W2c2Verif.Props.C17Timeout", "W2c2Verif.Props.C17Lock"]
GENS = [("CondWait", "gen_condwait"),      # the timeout -> timespec computation of wasmCondRelativeWait (Props/C17Timeout)
        ("FutexLock", "gen_futex_lock")]   # notify's events (flag / lock / unlock / futex-state access / return) with "mutex held" (Props/C17Lock)
FUTEXDRIVER = os.path.join(vlib.LEAN, ".lake", "build", "bin", "futexdriver")

class SpecMismatch(Exception):
    pass


OFFSET_KEY = "wait-static-offset-dropped"


# ----------------------------------------------------------------------------- scenario generator

def gen_scenario(rng, B, small=False):
    """(init, threads) strings.  Addresses collide modulo B (same bucket, different keys) most of the time."""
    base = rng.choice([16, 64, 1000, 4096])
    pool = [base, base + B, base + 2 * B, base + 8, base + 4][:rng.choice([1, 2, 2, 3, 3, 4, 5])]
    pool = [a for a in pool if a + 8 < 65000] or [base]
    vals = {}
    init = []
    for a in sorted(set(pool + [a + 4 for a in pool])):
        v = rng.choice([0, 0, 5, 0xFFFFFFFF])
        vals[a] = v
        init.append(f"{a}:4:{v}")

    def val64(a):
        return vals.get(a, 0) | (vals.get(a + 4, 0) << 32)
    nt = rng.randint(2, 3) if small else rng.randint(2, 5)
    threads = []
    for _ in range(nt):
        ops = []
        for _ in range(rng.randint(1, 2) if small else rng.randint(1, 3)):
            a = rng.choice(pool)
            k = rng.random()
            if k < 0.45:
                w64 = rng.random() < 0.3
                if rng.random() < 0.8:
                    e = val64(a) if w64 else (vals.get(a, 0) | (rng.choice([0, 0, 7]) << 32))   # wait32 ignores high bits
                else:
                    e = rng.choice([0, 5, 7, 1 << 32])
                to = rng.choice([-1, -1, -1, 0, 1000, 10 ** 9])
                ops.append(f"{'w64' if w64 else 'w32'}:{a}:{e}:{to}")
            elif k < 0.87:
                ops.append(f"n:{a}:{rng.choice([0, 1, 1, 1, 2, 3, 0xFFFFFFFF])}")
            else:
                ops.append(f"s:{rng.choice([a, a + 4])}:{rng.choice([1, 4, 8])}:{rng.choice([0, 5, 9, 0xFFFFFFFF])}")
        threads.append(",".join(ops))
    return ",".join(init), "|".join(threads)


def parse_ops(threads):
    out = []
    for t in threads.split("|"):
        ops = []
        for o in t.split(","):
            p = o.split(":")
            if p[0] in ("w32", "w64"):
                ops.append(("wait", int(p[1]), int(p[2]), int(p[3])))
            elif p[0] == "n":
                ops.append(("notify", int(p[1]), int(p[2])))
            elif p[0] == "s":
                ops.append(("store", int(p[1])))
        out.append(ops)
    return out


# ----------------------------------------------------------------------------- property oracles on REAL outcomes

def real_oracles(threads, r, init=None):
    """Property violations visible in one real execution `r` (dict from the harness).  Returns [(key, what)]."""
    bad = []
    san = r.get("san", "none")
    if san != "none":
        kind = "use-after-free" if "use-after-free" in san else san
        bad.append((f"futex-sanitizer-{kind}", f"sanitizer report `{san}` inside futex.c/list.c/map.c"))
    v = r.get("verdict")
    if v in ("misuse",):
        bad.append(("futex-pthread-misuse", "pthread object misused: " + r.get("detail", "")))
    if v == "crash" and san == "none":
        bad.append(("futex-crash", "the process died (assertion / signal): " + r.get("detail", "")))
    if "res" not in r or r["res"] == "?":
        return bad
    ops = parse_ops(threads)
    res = [[int(x) for x in t.split(".") if x != ""] for t in r["res"].split("|")]
    sts = r.get("st", "").split("|")
    woken, notified = {}, {}
    for ti, tops in enumerate(ops):
        rets = res[ti] if ti < len(res) else []
        for oi, op in enumerate(tops):
            if oi >= len(rets):
                break
            if op[0] == "wait":
                if rets[oi] not in (0, 1, 2):
                    bad.append(("futex-wait-return-code", f"wait returned {rets[oi]}"))
                if rets[oi] == 2 and op[3] < 0:
                    bad.append(("futex-timeout-without-timeout", "wait with infinite timeout returned 2"))
                if rets[oi] == 0:
                    woken[op[1]] = woken.get(op[1], 0) + 1
            elif op[0] == "notify":
                if rets[oi] > op[2]:
                    bad.append(("futex-notify-count-exceeds-n", f"notify({op[1]}, {op[2]}) returned {rets[oi]}"))
                notified[op[1]] = notified.get(op[1], 0) + rets[oi]
    # every counted waiter returns 0 eventually; compare only when nobody is left blocked
    if v == "ok":
        for a in set(woken) | set(notified):
            if woken.get(a, 0) != notified.get(a, 0):
                bad.append(("futex-woken-ne-notified",
                            f"address {a}: notify calls returned {notified.get(a, 0)} in total, {woken.get(a, 0)} waits returned 0"))
    if v == "deadlock":
        # every waiter a completed notify counted must eventually return 0; here nothing can move any more
        for a in set(notified):
            if notified.get(a, 0) > woken.get(a, 0):
                bad.append(("futex-lost-wakeup",
                            f"address {a}: notify calls returned {notified.get(a, 0)} in total but only {woken.get(a, 0)} waits "
                            f"returned 0 and no thread can run any more: a counted waiter stays blocked ({r.get('detail', '')})"))
        for ti, st in enumerate(sts):
            if st != "blk" or ti >= len(ops):
                continue
            k = len(res[ti]) if ti < len(res) else 0
            op = ops[ti][k] if k < len(ops[ti]) else None
            if not op or op[0] != "wait" or op[3] >= 0:
                bad.append(("futex-deadlock", f"thread {ti + 1} is blocked forever in {op} ({r.get('detail', '')})"))
    # no linearisation of the observed operations in the specification's transition system explains the outcome
    if init is not None and not bad and fh.explain(init, threads, r) is False:
        bad.append(("futex-history-not-linearisable",
                    "no order of the atomic points of these operations (check-and-enqueue of a wait, notify, store, timeout) "
                    "inside their invocation/response windows is a run of the specification — e.g. a notify returned fewer than n "
                    "although a waiter had passed its value check and then blocks (lost wake-up).  Model side: contradicts "
                    "C17.no_lost_wakeup / C17.blocked_waiter_visible, whose proof rests on C17.wait_load_locked (Inv.a.mutex_iff at "
                    "pc wLoad: the comparison is made while holding the memory's mutex).  History: " + fh.describe(init, threads, r)))
    return bad


def same_outcome(r, m):
    """real reply dict vs model reply dict"""
    if r.get("verdict") != m.get("verdict"):
        return False
    if r.get("res") != m.get("res") or r.get("map") != m.get("map"):
        return False
    mst = "|".join("fin" if x == "fin" else "blk" for x in m.get("st", "").split("|"))
    return r.get("st") == mst


# ----------------------------------------------------------------------------- the check

def run(tier):
    chk = vlib.Check(PROP, tier)
    chk.coverage["trusted_base"] = list(vlib.GLOBAL_TRUSTED[:3]) + [
        "pthread mutex/condvar semantics as in Model/Threads.lean (lock enabled iff free; cond_wait = atomically release+park; "
        "un-parking by signal, spuriously, or by timeout; re-acquire before returning) and as implemented by tools/sched",
        "Model.Futex abstracts list.c's doubly linked lists to lists of identities and the notifier's pointer walk to a "
        "list suffix; allocation never fails; tied to the real futex.c/list.c/map.c by the sched-trace correspondence",
        "the scheduler shim (tools/sched) and harness tools/harness/futex_sched.c; gcc AddressSanitizer/UBSan verdicts",
        "Futex.Emit.addrText <-> Futex.Emit.addrExpr: gcc parses `si<k>+<off>U` as that expression",
        "tools/extract/gen_condwait.py (body of wasmCondRelativeWait -> CStmt); time_t and long are 64-bit signed (LP64); the deadline "
        "harness interposes clock_gettime/pthread_cond_timedwait by ld --wrap",
        "tools/extract/gen_futex_lock.py (structural walk of wasmMemoryAtomicNotify: lock state per event; futex state = mem->futex and "
        "locals derived from it); allocation scheduling points: futex.c/map.c/list.c compiled with -Dcalloc=fxh_calloc -Dmalloc=fxh_malloc",
    ]
    chk.assumptions = [
        "timedwait's relation to wall-clock time is abstracted to a nondeterministic timeout event (a spurious wake-up restarting the "
        "full relative timeout is a liveness-only effect, not claimed)",
        "wait on a non-shared memory, out-of-bounds / misaligned addresses and allocation failure are outside the property",
    ]
    pr = prove(chk, MODULES, GENS)
    broken = [e for e in pr["errors"]] if not pr["build_ok"] else []
    ok, out = vlib.lake_build(["futexdriver"])
    driver_ok = ok
    if not ok:
        broken.append({"kind": "futexdriver-build", "msg": out[-2000:], "decls": vlib.failed_decls(out)})
    quick = tier == "quick"
    n_scen = 300 if quick else 1500
    n_seeds = 20 if quick else 30
    n_alloc = 4 if quick else 8
    n_dfs = 8 if quick else 40
    dfs_runs = 300 if quick else 3000
    hist = {"verdict": {}, "ops": {}, "steps": {}, "spurious": 0, "timeouts": 0, "collide": 0, "threads": {}}
    with vlib.scratch("c17-") as d:
        repo = vlib.copy_repo(os.path.join(d, "repo"))
        try:
            B = fs.bucket_count(repo)
            exe = fs.build(repo, d, asan=True)
        except Exception as e:
            broken.append({"kind": "harness-build", "msg": str(e)[-1500:]})
            exe, B = None, 1024
        # ---------------------------------------------------------------- sched-trace
        scen = [gen_scenario(chk.rng, B) for _ in range(n_scen)]
        small = [gen_scenario(chk.rng, B, small=True) for _ in range(n_dfs)]
        lines, meta = [], []
        corpus = os.path.join(vlib.TOOLS, "corpus", "C17", "schedules.txt")
        n_corpus = 0
        if os.path.exists(corpus):
            for ln in open(corpus):
                p5 = ln.split()
                if ln.startswith("#") or len(p5) != 5:
                    continue
                lines.append(f"loose {p5[1]} {p5[2]} {p5[3]} " + p5[4].replace(",", " "))
                meta.append((p5[2], p5[3]))
                n_corpus += 1
        for (init, ths) in scen:
            for _ in range(n_seeds):
                sw = chk.rng.choice([0, 10, 40])
                tw = chk.rng.choice([5, 30, 100])
                lines.append(f"seed 1 {init} {ths} {chk.rng.randrange(1 << 30)} {sw} {tw}")
                meta.append((init, ths))
            for _ in range(n_alloc):
                # shared=3: the allocations inside wait's critical section are scheduling points too (ALLOC mode, below)
                lines.append(f"seed 3 {init} {ths} {chk.rng.randrange(1 << 30)} {chk.rng.choice([0, 10, 40])} {chk.rng.choice([5, 30, 100])}")
                meta.append((init, ths))
        for (init, ths) in small:
            lines.append(f"dfs 1 {init} {ths} 40 1 {dfs_runs} 1")
            meta.append((init, ths))
        for (init, ths) in DIRECTED:
            lines.append(f"dfs 1 {init} {ths} 40 1 {600 if quick else 6000} 1")
            meta.append((init, ths))
        # ALLOC mode (shared=3): every execution starts on a FRESH memory (futex map not yet created); the first waiter is
        # suspended at the calloc of its Wait / of the map / of the buckets / of the map node — inside the critical section,
        # between its comparison and its enqueue — while the other threads run whatever does not wait for the mutex
        # (a store; any part of notify that runs before `lock`).  Model.Futex has no such points: the model replays the
        # schedule without the tokens that resume a thread from an allocation point (fs.strip_alloc), which is the same
        # execution as long as everything between `lock` and the next mutex/condvar operation only matters to mutex holders.
        for (init, ths) in DIRECTED:
            lines.append(f"dfs 3 {init} {ths} 40 1 {600 if quick else 6000} 1")
            meta.append((init, ths))
        # notify on a non-shared memory returns 0 without touching the map
        for (init, ths) in scen[:10]:
            lines.append(f"seed 0 {init} {ths} {chk.rng.randrange(1 << 30)} 0 30")
            meta.append((init, ths))
        t0 = time.time()
        real = fs.run_lines(exe, lines, timeout=3000) if exe else None
        t_real = time.time() - t0
        runs = []          # (shared, init, ths, real reply dict)
        dfs_info = []
        if real:
            for ln, (init, ths), grp in zip(lines, meta, real):
                shared = ln.split()[1]
                for g in grp:
                    if g.startswith("done "):
                        dfs_info.append(g)
                        continue
                    if g.startswith("err"):
                        raise RuntimeError(f"harness: {g} for `{ln[:200]}`")
                    runs.append((shared, init, ths, fs.parse_reply(g)))
        model = None
        if driver_ok and runs:
            dl = [f"run {B} {int(sh) & 1} {init} {ths} " + fs.strip_alloc(r).replace(",", " ").replace("-", "") for sh, init, ths, r in runs]
            model = [fs.parse_reply(x) for x in vlib.DriverProc(FUTEXDRIVER).batch(dl, timeout=1800)]
        chk.coverage["rule"] = (
            "sched-trace: a case is (scenario = initial cells + per-thread op lists over bucket-colliding addresses, executed "
            "schedule string of the shim incl. spurious/timeout choices); real futex.c under ASan+UBSan vs Model.Futex replaying "
            "the same schedule string; compared: verdict ok/deadlock, per-thread return values, blocked threads, map emptiness, "
            "sanitizer verdict; non-trivial = distinct (scenario, schedule)")
        mismatches = []
        for i, (sh, init, ths, r) in enumerate(runs):
            key = (sh, init, ths, r.get("sched"))
            sample = None
            if i % max(1, len(runs) // 8) == 0:
                sample = {"scenario": f"{init} {ths}", "real": {k: r.get(k) for k in ("sched", "verdict", "res", "st", "map", "san")},
                          "model": model[i] if model else None}
            chk.count_case(key, True, sample)
            hist["verdict"][r.get("verdict")] = hist["verdict"].get(r.get("verdict"), 0) + 1
            toks = r.get("sched", "").split(",")
            hist["steps"][len(toks) // 10 * 10] = hist["steps"].get(len(toks) // 10 * 10, 0) + 1
            hist["spurious"] += sum(1 for t in toks if t.endswith("s"))
            hist["timeouts"] += sum(1 for t in toks if t.endswith("t"))
            hist["alloc_points"] = hist.get("alloc_points", 0) + (0 if r.get("al", "-") in ("-", "") else len(r["al"].split(".")))
            for (k2, w) in real_oracles(ths, r, init) if sh in ("1", "3") else []:
                chk.violation(k2, w, {"kind": "sched", "B": B, "shared": sh, "init": init, "threads": ths,
                                      "schedule": r.get("sched"), "real": r,
                                      "replay_cmd": "python3 tools/check.py C17 --replay <this file>"}, True)
            if model and not same_outcome(r, model[i]):
                mismatches.append({"shared": sh, "init": init, "threads": ths, "schedule": r.get("sched"), "real": r, "model": model[i]})
        for (init, ths) in scen + small:
            ops = parse_ops(ths)
            hist["threads"][len(ops)] = hist["threads"].get(len(ops), 0) + 1
            addrs = set()
            for t in ops:
                for o in t:
                    hist["ops"][o[0]] = hist["ops"].get(o[0], 0) + 1
                    addrs.add(o[1] & ~7 if o[0] == "store" else o[1])
            if len({a % B for a in addrs}) < len(addrs):
                hist["collide"] += 1
        chk.coverage["sched_trace"] = {"corpus_schedules": n_corpus, "executions": len(runs), "scenarios": len(scen) + len(small), "dfs": dfs_info[:80],
                                       "real_seconds": round(t_real, 1), "bucket_count": B}
        chk.coverage["histograms"] = hist
        chk.coverage["traces_validated_against_impl"] = len(runs) if model else 0
        if mismatches:
            broken.append({"kind": "correspondence", "msg": "sched-trace: model and real futex.c disagree", "first": mismatches[:3],
                           "count": len(mismatches)})
        # ---------------------------------------------------------------- emit-tokens + e2e-offset
        try:
            w2c2 = opmods.build_w2c2(repo, d)
            offs = sorted({0, 8, chk.rng.choice([1, 4, 12, 100]), chk.rng.choice([4096, 65528 - 64 - 8, 1000])})
            e2e_dir = os.path.join(d, "e2e")
            os.makedirs(e2e_dir)
            c_text, e2e = fs.run_offset_e2e(repo, e2e_dir, w2c2, offs)
            chk.coverage["e2e_offset"] = e2e
            for o, got in e2e.items():
                chk.count_case(("e2e-offset", o), True, None)
                wrong = {k: (got.get(k), v) for k, v in fs.E2E_EXPECT.items() if got.get(k) != v}
                stmts = [s for _, s in fs.emitted_calls(c_text)]
                dropped = o != 0 and sum(1 for s in stmts if f"+{o}U," in s) < 3
                if wrong and dropped:
                    chk.violation(OFFSET_KEY,
                                  f"memory.atomic.wait32/wait64/notify with static offset {o}: the emitted call does not pass "
                                  f"operand+offset and the wrong cell is examined / notified (observed vs required: {wrong})",
                                  {"kind": "e2e-offset", "offsets": [o], "observed": got, "required": fs.E2E_EXPECT,
                                   "emitted": stmts, "replay_cmd": "python3 tools/check.py C17 --replay <this file>"}, True)
                elif wrong:
                    chk.violation(f"wait-notify-e2e-{'-'.join(sorted(wrong))}",
                                  f"wait/notify through w2c2+gcc+futex.c (static offset {o}) misbehave: observed vs required {wrong}",
                                  {"kind": "e2e-offset", "offsets": [o], "observed": got, "required": fs.E2E_EXPECT,
                                   "emitted": stmts, "replay_cmd": "python3 tools/check.py C17 --replay <this file>"}, True)
            # directed single-thread cases through the real translator output, expected codes from V8 and the specification
            w_offs = sorted({0, 8, chk.rng.choice([16, 64, 1000, 4096])})
            w_wasm = fs.wait_cases_module(w_offs)
            w_cases = fs.directed_wait_calls(chk.rng, w_offs, 6 if quick else 40)
            w_v8 = fs.v8_wait_cases(w_wasm, w_cases)
            w_real, w_ctext = fs.run_wait_cases(repo, os.path.join(d, "wc"), w2c2, w_wasm, w_cases)
            w_hist = {}
            for ci, ((dsc, calls), want) in enumerate(zip(w_cases, w_v8)):
                got = w_real[ci] if ci < len(w_real) else None
                chk.count_case(("e2e-wait", dsc["op"], dsc["offset"], dsc["cell"], dsc["expect"], dsc["timeout"]), True,
                               {"case": dsc, "real": got, "v8": want} if ci % 40 == 0 else None)
                w_hist[dsc["op"] + "/" + dsc["kind"]] = w_hist.get(dsc["op"] + "/" + dsc["kind"], 0) + 1
                if want != dsc["spec"]:
                    raise SpecMismatch(f"SPEC-MISMATCH: V8 returns {want} for {dsc}, the specification model {dsc['spec']}")
                if got != want:
                    key = ("wait64-compares-32-bits" if dsc["op"] == "wait64" and dsc["kind"] == "high-only-differs"
                           else f"wait-e2e-return-code-{dsc['op']}-{dsc['kind']}")
                    stmts = [st for _, st in fs.emitted_calls(w_ctext) if ("Wait(" in st) == (dsc["op"] != "notify")]
                    chk.violation(key,
                                  f"{dsc['op']} offset={dsc['offset']} on cell 0x{dsc['cell']:016x} with expected 0x{dsc['expect']:016x}, "
                                  f"timeout {dsc['timeout']} ns ({dsc['kind']}): the code translated by w2c2 returns {got}, "
                                  f"V8 and the specification return {want}",
                                  {"kind": "e2e-wait", "case": dsc, "calls": [[n.decode(), a] for n, a in calls], "offsets": w_offs,
                                   "observed": got, "required": want, "emitted": stmts[:12],
                                   "replay_cmd": "python3 tools/check.py C17 --replay <this file>"}, True)
            chk.coverage["e2e_wait_cases"] = {"cases": len(w_cases), "kinds": w_hist, "offsets": w_offs}
            # emit-tokens over random offsets and stack depths
            n_emit = 12 if quick else 60
            emit_bad = []
            for j in range(n_emit):
                depth = chk.rng.choice([0, 0, 1, 2, 5])
                offs2 = sorted({chk.rng.choice([0, 1, 8, 16]), chk.rng.randrange(1 << 16), chk.rng.randrange(1 << 32), (1 << 32) - 1})
                m, encode = fs.wait_module(offs2, depth)
                wasm = os.path.join(d, f"emit{j}.wasm")
                open(wasm, "wb").write(encode(m))
                p = vlib.run([w2c2, wasm, os.path.join(d, f"emit{j}.c")])
                if p.returncode != 0:
                    emit_bad.append({"module": j, "msg": "w2c2 failed: " + p.stderr[-300:]})
                    continue
                calls = dict(fs.emitted_calls(open(os.path.join(d, f"emit{j}.c")).read()))
                want = []
                for oi, o in enumerate(offs2):
                    want += [(3 * oi, f"emit wait32 {depth} {o}"), (3 * oi + 1, f"emit wait64 {depth} {o}"), (3 * oi + 2, f"emit notify {depth} {o}")]
                if driver_ok:
                    texts = vlib.DriverProc(FUTEXDRIVER).batch([w for _, w in want])
                    for (fi, req), txt in zip(want, texts):
                        chk.count_case(("emit", req), True, None)
                        if calls.get(fi) != txt:
                            emit_bad.append({"request": req, "model": txt, "w2c2": calls.get(fi)})
            chk.coverage["emit_tokens"] = {"modules": n_emit, "mismatches": len(emit_bad)}
            if emit_bad:
                broken.append({"kind": "correspondence", "msg": "emit-tokens: wait/notify statement text differs from Futex.Emit",
                               "first": emit_bad[:4]})
        except SpecMismatch:
            raise                              # our specification model disagrees with V8: tool failure (exit 2), not a violation
        except Exception as e:
            broken.append({"kind": "e2e-build", "msg": str(e)[-1500:]})
        # ---------------------------------------------------------------- deadline of finite-timeout waits (clock + timedwait interposed)
        try:
            t_exe = fs.build_timeout(repo, d)
            t_cases = fs.timeout_cases(chk.rng, 40 if quick else 2000)
            t_out = fs.run_timeout(t_exe, t_cases)
            n_bad = 0
            for ci, (c, o) in enumerate(zip(t_cases, t_out)):
                want = fs.expected_deadline(*c[:3])
                chk.count_case(("deadline",) + c, True, {"now": c[:2], "timeout_ns": c[2], "deadline": o[:2], "required": want} if ci % 40 == 0 else None)
                if tuple(o[:2]) != want or o[2] != 2 or o[3] != 1:
                    n_bad += 1
                    trunc = tuple(o[:2]) == fs.expected_deadline(c[0], c[1], c[2] % (1 << 32))
                    chk.violation("cond-timeout-truncated-32-bits" if trunc else "cond-timeout-deadline-wrong",
                                  f"memory.atomic.wait{'64' if c[3] else '32'} with timeout {c[2]} ns at clock reading {c[0]}.{c[1]:09d}: "
                                  f"pthread_cond_timedwait is given the deadline {o[0]}.{o[1]:09d} ({o[3]} call(s), wait returned {o[2]}), "
                                  f"now + timeout is {want[0]}.{want[1]:09d}"
                                  + (" — the timeout was taken modulo 2^32 ns, so the waiter gives up (returns 2) too early" if trunc else ""),
                                  {"kind": "timeout-deadline", "case": list(c), "observed": list(o), "required": list(want),
                                   "replay_cmd": "python3 tools/check.py C17 --replay <this file>"}, True)
            chk.coverage["timeout_deadline"] = {"cases": len(t_cases), "wrong": n_bad,
                                                "max_timeout_ns": max(c[2] for c in t_cases)}
            if len(t_out) != len(t_cases):
                broken.append({"kind": "harness-run", "msg": f"futex_timeout answered {len(t_out)} of {len(t_cases)} cases"})
        except Exception as e:
            broken.append({"kind": "harness-build", "msg": "futex_timeout: " + str(e)[-1200:]})
        # ---------------------------------------------------------------- search on break
        if broken and not chk.violations and not chk.known_hit and exe:
            search_on_break(chk, exe, B, mismatches, driver_ok)
        # ---------------------------------------------------------------- thorough: line coverage of futex.c/map.c/list.c
        if not quick and exe:
            try:
                chk.coverage["gcov"] = gcov_lines(repo, d, lines[:400] + lines[-10:])
            except Exception as e:
                chk.notes.append("gcov failed: " + str(e)[-300:])
    if tier == "thorough" and pr["build_ok"]:
        for m, msg in leanchecker(chk, MODULES):
            broken.append({"kind": "leanchecker", "msg": f"{m}: {msg}"})
    if broken and not chk.violations and not chk.known_hit:
        chk.violation("tie-or-proof-broken",
                      "a proof obligation or a correspondence of C17 no longer checks; schedule exploration on the real futex.c found "
                      "no execution violating the property",
                      {"broken": broken[:10]}, False)
    elif broken:
        chk.notes.append({"broken": broken[:10]})
    return chk.finish()


# check-then-enqueue window: the notifier's store + notify may run anywhere relative to the waiter's steps; explored by DFS
# in every tier (the waiter's first mutex acquisition is the scheduling point the explorer delays)
DIRECTED = [
    ("16:4:5", "w32:16:5:-1|s:16:4:9,n:16:1"),
    ("16:4:5,20:4:1", "w64:16:4294967301:-1|s:16:4:9,n:16:1"),
    ("16:4:5", "w32:16:5:1000|s:16:4:9,n:16:1"),
    ("16:4:5", "w32:16:5:-1|w32:16:5:-1|s:16:4:9,n:16:2"),
    ("16:4:5,1040:4:5", "w32:16:5:-1|w32:1040:5:-1|s:16:4:9,n:16:1,s:1040:4:9,n:1040:1"),
    ("16:4:5", "w32:16:5:-1,w32:16:9:-1|s:16:4:9,n:16:1,s:16:4:5,n:16:1"),
]

CANONICAL = [
    ("16:4:0", "w32:16:0:-1|n:16:1"),
    ("16:4:0", "w32:16:0:-1|w32:16:0:-1|n:16:1,n:16:1"),
    ("16:4:0,1040:4:0", "w32:16:0:-1|w32:1040:0:5|n:16:5,n:1040:5"),
    ("16:4:0", "w32:16:0:7|n:16:1|s:16:4:9"),
    ("16:4:0,20:4:0", "w64:16:0:-1|w32:16:0:3|n:16:2"),
]


def search_on_break(chk, exe, B, mismatches, driver_ok):
    """Schedule exploration on the REAL code (oracles), plus model DFS candidates replayed on the real code."""
    scen = [(m["init"], m["threads"]) for m in mismatches[:3]] + CANONICAL
    lines = [f"dfs 1 {init} {ths} 40 1 {2500 if chk.tier == 'quick' else 20000} 1" for init, ths in scen]
    lines += [f"dfs 3 {init} {ths} 40 1 {2500 if chk.tier == 'quick' else 20000} 1" for init, ths in scen]     # + allocation points
    groups = fs.run_lines(exe, lines, timeout=3000)
    explored = 0
    for sh3, ((init, ths), grp) in enumerate(zip(scen + scen, groups)):
        for g in grp:
            if g.startswith("done ") or g.startswith("err"):
                continue
            explored += 1
            r = fs.parse_reply(g)
            for (k2, w) in real_oracles(ths, r, init):
                chk.violation(k2, w, {"kind": "sched", "B": B, "shared": "3" if sh3 >= len(scen) else "1", "init": init, "threads": ths,
                                      "schedule": r.get("sched"), "real": r,
                                      "replay_cmd": "python3 tools/check.py C17 --replay <this file>"}, True)
    chk.coverage["search_on_break"] = {"real_executions_explored": explored}
    if driver_ok:
        dl = [f"dfs {B} 1 {init} {ths} 30 1 400000" for init, ths in scen]
        ans = vlib.DriverProc(FUTEXDRIVER).batch(dl, timeout=1800)
        cands = []
        for (init, ths), a in zip(scen, ans):
            for item in a.split(" ", 3)[3].split(";") if a.startswith("dfs") and len(a.split(" ", 3)) > 3 else []:
                if "@" in item:
                    kind, sched = item.split("@", 1)
                    cands.append((init, ths, kind, sched))
        chk.coverage["search_on_break"]["model_candidates"] = len(cands)
        if cands:
            # model schedules have no tokens of the harness' main thread: first its pthread_create calls
            lines = [f"sched 1 {init} {ths} " + " ".join(["0"] * len(ths.split("|"))) + " " + sched
                     for init, ths, _, sched in cands]
            groups = fs.run_lines(exe, lines, timeout=600)
            for (init, ths, kind, sched), grp in zip(cands, groups):
                r = fs.parse_reply(grp[0]) if grp else {}
                for (k2, w) in real_oracles(ths, r, init):
                    chk.violation(k2, w + f" (model candidate `{kind}`)",
                                  {"kind": "sched", "B": B, "shared": "1", "init": init, "threads": ths,
                                   "schedule": r.get("sched"), "real": r}, True)


def gcov_lines(repo, d, lines):
    """Line coverage of futex.c / map.c / list.c under a sample of the generated runs."""
    import subprocess
    cov = os.path.join(d, "cov")
    os.makedirs(cov)
    srcs = [os.path.join(vlib.TOOLS, "harness", "futex_sched.c"), os.path.join(fs.SCHED, "sched.c"), os.path.join(fs.SCHED, "sched_explore.c")]
    objs = []
    for f in ("futex.c", "list.c", "map.c"):
        o = os.path.join(cov, f[:-2] + ".o")
        subprocess.run(["gcc", "-O0", "-g", "-w", "--coverage", "-DWASM_THREADS_PTHREADS", "-I", os.path.join(repo, "w2c2"),
                        "-c", os.path.join(repo, "futex", f), "-o", o], check=True)
        objs.append(o)
    exe = os.path.join(cov, "futex_cov")
    subprocess.run(["gcc", "-O0", "-g", "-w", "--coverage", "-DSCHED_GCOV", "-DWASM_THREADS_PTHREADS", "-I", fs.SCHED, "-I", os.path.join(repo, "w2c2"),
                    "-I", os.path.join(repo, "futex")] + srcs + objs + fs.wrap_flags() + ["-o", exe, "-lpthread", "-lm"], check=True)
    fs.run_lines(exe, [ln for ln in lines if ln.startswith("seed ")], timeout=900, jobs=1)
    res = {}
    for f in ("futex", "list", "map"):
        p = subprocess.run(["gcov", "-o", cov, os.path.join(cov, f + ".o")], cwd=cov, stdout=subprocess.PIPE, stderr=subprocess.PIPE, text=True)
        gc = os.path.join(cov, f + ".c.gcov")
        if not os.path.exists(gc):
            continue
        miss, tot = [], 0
        for ln in open(gc):
            m = re.match(r"\s*([^:]+):\s*(\d+):(.*)", ln)
            if not m or m.group(1).strip() == "-":
                continue
            tot += 1
            if m.group(1).strip().startswith("#####") or m.group(1).strip().startswith("====="):
                miss.append(int(m.group(2)))
        res[f + ".c"] = {"lines": tot, "uncovered": miss[:60]}
    return res


def replay(path):
    r = json.load(open(path))
    with vlib.scratch("c17r-") as d:
        repo = vlib.copy_repo(os.path.join(d, "repo"))
        if r.get("kind") == "e2e-offset":
            w2c2 = opmods.build_w2c2(repo, d)
            c_text, e2e = fs.run_offset_e2e(repo, d, w2c2, r["offsets"])
            bad = False
            for o, got in e2e.items():
                wrong = {k: (got.get(k), v) for k, v in fs.E2E_EXPECT.items() if got.get(k) != v}
                print(f"replay e2e-offset {o}: observed {got}, required {fs.E2E_EXPECT}" + (f"  WRONG: {wrong}" if wrong else "  ok"))
                bad = bad or bool(wrong)
            return 1 if bad else 0
        if r.get("kind") == "timeout-deadline":
            c = tuple(r["case"])
            o = fs.run_timeout(fs.build_timeout(repo, d), [c])[0]
            want = fs.expected_deadline(*c[:3])
            print(f"replay timeout-deadline now={c[0]}.{c[1]:09d} timeout={c[2]} ns: deadline {o[0]}.{o[1]:09d} (wait returned {o[2]}), required {want[0]}.{want[1]:09d}")
            return 0 if tuple(o[:2]) == want and o[2] == 2 and o[3] == 1 else 1
        if r.get("kind") == "e2e-wait":
            w2c2 = opmods.build_w2c2(repo, d)
            wasm = fs.wait_cases_module(r["offsets"])
            calls = [(n.encode(), [tuple(x) for x in a]) for n, a in r["calls"]]
            out, _ = fs.run_wait_cases(repo, os.path.join(d, "wc"), w2c2, wasm, [(r["case"], calls)])
            got = out[0] if out else None
            print(f"replay e2e-wait {r['case']}: real {got}, required {r['required']}")
            return 0 if got == r["required"] else 1
        if r.get("kind") == "sched":
            exe = fs.build(repo, d, asan=True)
            ln = f"sched {r['shared']} {r['init']} {r['threads']} " + (r.get("schedule") or "").replace(",", " ")
            grp = fs.run_lines(exe, [ln])[0]
            rr = fs.parse_reply(grp[0]) if grp else {}
            bad = real_oracles(r["threads"], rr, r.get("init"))
            print(f"replay `{ln[:300]}`\n  -> {grp[0] if grp else None}\n  oracles: {bad}")
            return 1 if bad else 0
    print("nothing to replay on the implementation (proof/tie breakage without a failing input): " + str(r.get("broken", ""))[:600])
    return 1
