"""C06 — instantiation builds the specified initial state, once, per instance.

Obligations: theorems of Props/C06.lean — instantiate_refines_spec (all module descriptions, any number of overlapping
segments into defined or imported objects), start_once, no_start_no_call, imported_memory_gets_data,
defined_memory_zero_or_data, lastCover_eq_slotSpec, instances_disjoint(+converse) — over Model/Instantiate.lean, whose call
sequence and guards are Gen/Instantiate.lean, REGENERATED from wasmCWriteInstantiateFunction by tools/extract/gen_instantiate.py.
Ties: (1) regeneration; (2) `inst-state`: driver `I inst` (Model.Inst.initAll and the Gen.instantiateSteps sequence) vs the real
instance right after Instantiate — memory image, every global, table slots, import bindings — on every module without start
function and on the start-less variant of the others; (3) emit-tokens on function bodies.
Search / behavioural part (DESIGN §5 C06): e2e — the output of the REAL w2c2 compiled with the embedder of
tools/harness/e2e.py: state right after Instantiate and after a call script vs V8 and vs an independent Python statement of
the initial state; start-function host trace; memory export accessor; two live instances randomly interleaved, each must equal
the single-instance run.  Module shapes: enumerated table {defined, imported, none} memory x data kinds x {none, defined,
imported} table x start, corpus, and the generated `init`/`memory`/`calls` profiles.
"""
import json
import os

import vlib
import e2e
import e2e_common as ec
from vlib import log
from wasmgen import wasm_ast as A, encode

PROP = "C06"
GENS = ec.GENS + [("Instantiate", "gen_instantiate")]
KEY_IMPMEM = "imported-memory-data-segments-not-loaded"


# ------------------------------------------------------------------------------- enumerated module shapes
def build_shape(mem, data, table, start):
    """mem: none|defined|imported; data: none|const|global|overlap|passive; table: none|defined|imported; start: bool"""
    I = A.Instr
    m = A.Module()
    m.types = [A.FuncType([], [A.I32]), A.FuncType([A.I32], [A.I32]), A.FuncType([], [])]
    imports_spec = {"globals": {}}
    if start:
        m.imports.append(A.Import(b"env", b"hf", "func", 1))
    m.imports.append(A.Import(b"env", b"goff", "global", A.GlobalType(A.I32, False)))
    imports_spec["globals"][len(m.imports) - 1] = 24
    m.imports.append(A.Import(b"host", b"toff", "global", A.GlobalType(A.I32, False)))
    imports_spec["globals"][len(m.imports) - 1] = 3
    if mem == "imported":
        m.imports.append(A.Import(b"env", b"mem", "memory", A.Limits(1, 2)))
    elif mem == "defined":
        m.mems.append(A.Limits(1, 2))
    if table == "imported":
        m.imports.append(A.Import(b"env", b"tab", "table", A.TableType(A.Limits(8, None))))
    elif table == "defined":
        m.tables.append(A.TableType(A.Limits(8, 8)))
    nimp = 1 if start else 0
    funcs = []          # (export name, type, locals, body)
    funcs.append((b"k7", 0, [], [I("i32.const", 7)]))
    funcs.append((b"k9", 0, [], [I("i32.const", 9)]))
    k7, k9 = nimp, nimp + 1
    # globals: 0 = goff (import), 1 = toff (import), 2 = const, 3 = init from import, 4 = mutable
    m.globals = [A.Global(A.GlobalType(A.I32, False), I("i32.const", 1234)),
                 A.Global(A.GlobalType(A.I32, False), I("global.get", 0)),
                 A.Global(A.GlobalType(A.I32, True), I("i32.const", 1)),
                 A.Global(A.GlobalType(A.I64, True), I("i64.const", -2)),
                 A.Global(A.GlobalType(A.F64, False), I("f64.const", 0x400921FB54442D18))]
    funcs.append((b"gg", 1, [], [I("local.get", 0), I("if", A.I32, body=[I("global.get", 3)], else_body=[I("global.get", 4)])]))
    funcs.append((b"bump", 0, [], [I("global.get", 4), I("i32.const", 1), I("i32.add"), I("global.set", 4), I("global.get", 4)]))
    if mem != "none":
        funcs.append((b"ld", 1, [], [I("local.get", 0), I("i32.load8_u", 0, 0)]))
        funcs.append((b"st", 1, [], [I("local.get", 0), I("i32.const", 0xA5), I("i32.store8", 0, 0), I("i32.const", 0)]))
        if data == "passive":
            funcs.append((b"mi", 0, [], [I("i32.const", 40), I("i32.const", 0), I("i32.const", 4), I("memory.init", 0), I("i32.const", 1)]))
    if table != "none":
        funcs.append((b"ci", 1, [], [I("local.get", 0), I("call_indirect", 0)]))
    if start:
        body = [I("i32.const", 77), I("global.set", 4), I("i32.const", 5), I("call", 0), I("drop")]
        if mem != "none":
            body += [I("i32.const", 100), I("i32.const", 0x5A), I("i32.store8", 0, 0)]
        funcs.append((None, 2, [], body))
    for nm, ty, locs, body in funcs:
        m.funcs.append(A.Function(ty, locs, body))
        if nm is not None:
            m.exports.append(A.Export(nm, "func", nimp + len(m.funcs) - 1))
    if start:
        m.start = nimp + len(m.funcs) - 1
    if mem != "none":
        m.exports.append(A.Export(b"mem", "memory", 0))
        if data == "const":
            m.datas = [A.DataSegment("active", b"w2c2verif", I("i32.const", 16), 0)]
        elif data == "global":
            m.datas = [A.DataSegment("active", b"ABCDEFGH", I("global.get", 0), 0)]
        elif data == "overlap":
            m.datas = [A.DataSegment("active", b"aaaaaaaa", I("i32.const", 16), 0), A.DataSegment("active", b"BBBB", I("i32.const", 20), 0),
                       A.DataSegment("active", b"", I("i32.const", 65536), 0)]
        elif data == "passive":
            m.datas = [A.DataSegment("passive", b"PPPP"), A.DataSegment("active", b"xyz", I("i32.const", 65533), 0)]
            m.datacount = 2
    if table != "none":
        m.elems = [A.ElemSegment(0, I("i32.const", 1), [k7, k9, k7]), A.ElemSegment(0, I("global.get", 1), [k9, k9])]
    for gi in (2, 3, 4, 5, 6):
        m.exports.append(A.Export(("g%d" % gi).encode(), "global", gi))
    calls = [(b"gg", [("i32", 0)]), (b"gg", [("i32", 1)]), (b"bump", []), (b"bump", []), (b"gg", [("i32", 0)]), (b"k7", [])]
    if mem != "none":
        calls += [(b"ld", [("i32", a)]) for a in (15, 16, 20, 23, 24, 25, 31, 100, 65533, 65535)]
        calls += [(b"st", [("i32", 17)]), (b"ld", [("i32", 17)])]
        if data == "passive":
            calls += [(b"mi", []), (b"ld", [("i32", 40)]), (b"ld", [("i32", 43)])]
    if table != "none":
        calls += [(b"ci", [("i32", a)]) for a in (1, 2, 3, 4)]
    return m, imports_spec, calls


def shape_specs(tier):
    specs = []
    for mem in ("imported", "defined", "none"):
        for data in (("const", "global", "overlap", "passive", "none") if mem != "none" else ("none",)):
            for table in ("none", "defined", "imported"):
                for start in (False, True):
                    m, imp, calls = build_shape(mem, data, table, start)
                    specs.append({"hex": encode(m).hex(), "imports_spec": {"globals": {str(k): v for k, v in imp["globals"].items()}},
                                  "calls": [[n.hex(), [[t, b] for t, b in a]] for n, a in calls],
                                  "id": "shape/mem=%s,data=%s,table=%s,start=%d" % (mem, data, table, int(start))})
    return specs


# ------------------------------------------------------------------------------- inst-state: Lean model vs the real instance
def _ce(e):
    return "g:%d" % e.imm[0] if e.op == "global.get" else "c:%x" % (e.imm[0] & (0xFFFFFFFF if e.op in ("i32.const", "f32.const") else 0xFFFFFFFFFFFFFFFF))


def inst_line(m, imp):
    """`I inst …` request (Driver/InstCmds.lean) describing module m and the embedder of tools/harness/e2e.py: the k-th imported
    memory/table/global is the k-th host object (min pages / min size / value from imports_spec)."""
    gl = (imp or {}).get("globals", {})
    mi = [i for i in m.imports if i.kind == "memory"]
    ti = [i for i in m.imports if i.kind == "table"]
    gi = [(n, i) for n, i in enumerate(m.imports) if i.kind == "global"]

    def lst(xs, sep=","):
        return sep.join(xs) or "-"
    w = ["I", "inst", "mi=%d" % len(mi), "ti=%d" % len(ti), "gi=%d" % len(gi),
         "mems=" + lst("%d:%d" % (l.min, l.max if l.max is not None else 65535) for l in m.mems),
         "tables=" + lst("%d:%d" % (t.limits.min, t.limits.max if t.limits.max is not None else 4294967295) for t in m.tables),
         "globals=" + lst(_ce(g.init) for g in m.globals),
         "datas=" + lst(("%s:%d:%s:%s" % ("p" if d.mode == "passive" else "a", d.memory or 0, _ce(d.offset) if d.mode != "passive" else "c:0",
                                         bytes(d.data).hex() or "-") for d in m.datas), ";"),
         "elems=" + lst(("0:%s:%s" % (_ce(sg.offset), ",".join(str(f) for f in sg.funcs) or "-") for sg in m.elems), ";"),
         "start=%d" % (m.start is not None),
         "hmems=" + lst(str(i.desc.min) for i in mi), "htables=" + lst(str(i.desc.limits.min) for i in ti),
         "hglobals=" + lst("%x" % int(gl.get(n, gl.get(str(n), 0))) for n, i in gi),
         "rmem=" + lst(str(k) for k in range(len(mi))), "rtable=" + lst(str(k) for k in range(len(ti))),
         "rglobal=" + lst(str(k) for k in range(len(gi)))]
    return " ".join(w)


def parse_inst(ans):
    """`val k=v … | steps true` -> dict"""
    body, _, steps = ans.partition(" | steps ")
    w = body.split()
    d = {"verdict": w[0], "steps_same": steps.strip() == "true", "kind": w[1] if w[0] != "val" and len(w) > 1 else None}
    for t in w[1:]:
        if "=" in t:
            k, v = t.split("=", 1)
            d[k] = v
    return d


def inst_tie(env, results, driver_ok):
    """Post-instantiation state of Model.Inst (driver `I inst`) vs the dump of the real instance right after Instantiate
    (modules without start function): memory image, every global, table slots, import bindings."""
    out = {"cases": 0, "skipped_start": 0, "disagreements": [], "compared": {"memory": 0, "globals": 0, "table": 0}}
    lines, plan = [], []
    for res in results:
        if res.get("error") or not res.get("builds"):
            continue
        b0 = res["builds"][0]
        if tuple(b0["real"]["instantiate"]) != ("ok",) or not b0["real"].get("init"):
            continue
        m, b, imp, exports = ec.load_module(res["spec"])
        if m.start is not None:
            out["skipped_start"] += 1
            continue
        plan.append((res, m, imp, len(lines)))
        lines.append(inst_line(m, imp))
    if not (lines and driver_ok and env.driver):
        return out
    ans = vlib.DriverProc(env.driver).batch(lines, timeout=3600)
    for res, m, imp, li in plan:
        a = parse_inst(ans[li])
        real = res["builds"][0]["real"]
        init = real["init"]
        out["cases"] += 1

        def bad(what, model, realv):
            out["disagreements"].append({"module": res["id"], "what": what, "model": model, "real": realv, "request": lines[li][:400]})
        if a["verdict"] != "val":
            bad("model verdict", ans[li][:200], "instantiated ok")
            continue
        if not a["steps_same"]:
            bad("Gen.instantiateSteps sequence differs from initAll in the model", ans[li][-40:], None)
        n_mi = sum(1 for i in m.imports if i.kind == "memory")
        n_ti = sum(1 for i in m.imports if i.kind == "table")
        gi = [i for i in m.imports if i.kind == "global"]
        # memory 0
        if (n_mi or m.mems) and res["builds"][0].get("init_mem_sparse") is not None:
            addr = 0 if n_mi else int(a["omems"].split(",")[0])
            out["compared"]["memory"] += 1
            if a.get("mem%d" % addr) != res["builds"][0]["init_mem_sparse"]:
                bad("memory 0 after Instantiate", (a.get("mem%d" % addr) or "")[:300], res["builds"][0]["init_mem_sparse"][:300])
        # globals: imports (host cells) then defined
        hg = [] if a.get("hglobals", "-") == "-" else [int(x, 16) for x in a["hglobals"].split(",")]
        dg = [] if a.get("globals", "-") == "-" else [int(x, 16) for x in a["globals"].split(",")]
        model_g = hg[:len(gi)] + dg
        real_g = [init["all_globals"].get(k, init["all_globals"].get(str(k))) for k in range(len(model_g))]
        out["compared"]["globals"] += len(model_g)
        for k, (mg, rg) in enumerate(zip(model_g, real_g)):
            if rg is None or mg != rg[1]:
                bad("global %d after Instantiate" % k, "%x" % mg, rg)
                break
        # table 0
        if (n_ti or m.tables) and init.get("table") is not None:
            addr = 0 if n_ti else int(a["otables"].split(",")[0])
            t = a.get("tab%d" % addr, "-")
            mt = [] if t == "-" and not (m.all_tables()[0].limits.min) else [None if x == "-" else int(x) for x in t.split(",")]
            out["compared"]["table"] += 1
            if mt != list(init["table"]):
                bad("table 0 after Instantiate", mt, init["table"])
        if any(v is False for v in real.get("bound", {}).values()) or "n" in (a.get("mimp", "") + a.get("timp", "") + a.get("gimp", "")):
            bad("import bindings", [a.get("mimp"), a.get("timp"), a.get("gimp")], real.get("bound"))
    return out


# ------------------------------------------------------------------------------- verdicts
def impmem_case(res):
    sh = res.get("shape") or {}
    return sh.get("mem") == "imported" and sh.get("active", 0) > 0 and not (res.get("c_flags") or {}).get("InitMemories", True)


def judge(chk, res, stats):
    """Turn one job result into violations (real output vs specification)."""
    sid = res["id"]
    if res.get("error"):
        stats["errors"].append("%s: %s" % (sid, res["error"]))
        return
    for b in res["builds"]:
        ri = b["real"]["instantiate"]
        if ri[0] == "w2c2_error":
            chk.violation("w2c2-rejects-valid-module:" + sid, "the real w2c2 fails on a valid module: %s" % (ri[1],), ec.replay_obj(res), True)
            return
        if ri[0] == "build_error":
            stats["not_compilable"].append("%s: %s" % (sid, b.get("build_error_class")))
            return
        alld = [("e2e", d) for d in b["diffs"]] + [("init", d) for d in b.get("init_diffs", [])]
        stats["disagreements_checked"] += b["info"]["compared_calls"] + 3
        if not alld:
            continue
        if impmem_case(res) and all(d["kind"] in ("memory", "result", "init-memory", "init-memory-vs-spec", "global", "host_log") for _, d in alld):
            d0 = alld[0][1]
            chk.violation(KEY_IMPMEM,
                          "a module that imports its memory never loads its active data segments: the generated C has no "
                          "InitMemories/LOAD_DATA, the imported memory stays zero where the specification (V8) has the segment bytes",
                          ec.replay_obj(res, {"first_disagreement": d0, "c_flags": res.get("c_flags"), "shape": res.get("shape"),
                                              "memdiag": b.get("memdiag")}), True)
            stats["impmem_modules"] += 1
            continue
        for where, d in alld[:3]:
            chk.violation("%s-%s:%s" % (where, d["kind"], sid),
                          "instantiated output of the real w2c2 disagrees with the specification (%s %s): real %r, expected %r"
                          % (where, d["kind"], d.get("real"), d.get("v8", d.get("spec"))),
                          ec.replay_obj(res, {"disagreement": d, "build": b["build"], "shape": res.get("shape")}), True)
    two = res.get("two")
    if two:
        stats["two_instance_runs"] += 1
        stats["disagreements_checked"] += two["script_len"]
        for d in two["diffs"][:2]:
            chk.violation("%s:%s" % (d["kind"], sid),
                          "two live instances of one module interfere: instance %d run interleaved (%s) differs from the single-instance run in %s"
                          % (d["instance"], two["order"], d["kind"]), ec.replay_obj(res, {"disagreement": d}), True)


def make_jobs(env, specs, **kw):
    return [dict(spec=s, env=env.tuple(), builds=[("gcc", ("-O1",), False)], init_dump=True, two_instances=True,
                 keep_mem=True, memdiag=True, **kw) for s in specs]


def run(tier):
    chk = vlib.Check(PROP, tier)
    chk.coverage["trusted_base"] = list(vlib.GLOBAL_TRUSTED) + [
        "V8 (node 20) as the reference for instantiation order and initial state; tools/harness/e2e.py embedder (resolver, dumps)",
        "independent Python statement of the initial memory/table/globals (e2e.expected_*) used three-way with V8"]
    chk.assumptions = ["gcc gives the emitted module-level C (Init*/Instantiate) the obvious meaning",
                       "external data-segment modes (-d gnu-ld/sectcreate) are not linked here (token tie only)"]
    pr = ec.prove_if_present(chk, ["C06"], GENS)
    broken = list(pr["errors"])
    stats = {"errors": [], "not_compilable": [], "disagreements_checked": 0, "impmem_modules": 0, "two_instance_runs": 0}
    n_gen = 160 if tier == "quick" else 2500
    n_tok = 150 if tier == "quick" else 2000
    with vlib.scratch("c06-") as d:
        env = ec.Env(d)
        corpus = ec.corpus_specs(PROP)
        shapes = shape_specs(tier)
        gen = ec.gen_specs(chk.seed, "init", n_gen) + ec.gen_specs(chk.seed, "memory", n_gen // 8) + ec.gen_specs(chk.seed, "calls", n_gen // 8)
        specs = corpus + shapes + gen
        results = ec.run_jobs(make_jobs(env, specs))
        ops, shapes_hist = {}, {}
        for res in results:
            judge(chk, res, stats)
            if res.get("error"):
                continue
            ec.merge_hist(ops, res.get("ops", {}))
            sh = res.get("shape") or {}
            k = "mem=%s table=%s data=%s start=%s" % (sh.get("mem"), sh.get("table"), "active" if sh.get("active") else ("passive" if sh.get("passive") else "none"), sh.get("start"))
            shapes_hist[k] = shapes_hist.get(k, 0) + 1
            nontrivial = bool(sh.get("active") or sh.get("elems") or sh.get("globals") or sh.get("start"))
            chk.count_case(("e2e", res["id"]), nontrivial, ec.sample_of(res) if len(chk.coverage["samples"]) < 6 and nontrivial else None)
        # inst-state: the Lean model of Instantiate vs the real instance (modules with a start function: also the variant without it)
        started = [r["spec"] for r in results if not r.get("error") and (r.get("shape") or {}).get("start")]
        ns_results = ec.run_jobs([dict(spec=dict(sp, no_start=True), env=env.tuple(), builds=[("gcc", ("-O1",), False)], init_dump=True, keep_mem=True)
                                  for sp in started])
        for res in ns_results:
            judge(chk, res, stats)
        it = inst_tie(env, results + ns_results, pr["driver_ok"])
        for k in range(it["cases"]):
            chk.coverage["evaluations"] += 1
        if it["disagreements"]:
            broken.append({"kind": "correspondence", "name": "inst-state",
                           "msg": "%d module(s): Model.Inst state differs from the real instance; first %r" % (len(it["disagreements"]), it["disagreements"][0])})
        # emit-tokens on the function bodies of the same generated modules
        tok = ec.emit_tokens_batch(env, gen[:n_tok], driver_ok=pr["driver_ok"])
        nfun = sum(t["functions"] for t in tok.values())
        bad = [(sid, t["mismatch"][0]) for sid, t in tok.items() if t["mismatch"]]
        for sid, t in tok.items():
            chk.count_case(("tok", sid), t["functions"] > 0, None)
        if bad:
            broken.append({"kind": "correspondence", "msg": "emit-tokens: %d modules differ, first %s: %r" % (len(bad), bad[0][0], bad[0][1])})
        chk.coverage.update({
            "programs": len([r for r in results if not r.get("error")]),
            "disagreements_checked": stats["disagreements_checked"],
            "rule": "a case = one module (enumerated shape table, corpus, or wasmgen profile init/memory/calls by seed:profile:index) instantiated by "
                    "the compiled output of the real w2c2 and by V8: state right after Instantiate (memory image, all globals, table slots, "
                    "start-function host trace, import bindings) + a call script + two interleaved instances; non-trivial = the module has an "
                    "active segment, element segment, global or start function; distinct = distinct module id; inst-state case = a module without "
                    "start function: `I inst` (Model.Inst.initAll + the Gen.instantiateSteps sequence) vs the real instance's memory image, "
                    "globals, table slots and import bindings right after Instantiate",
            "module_shapes": shapes_hist, "op_histogram": ec.top(ops),
            "enumerated_shapes": len(shapes), "corpus_modules": len(corpus), "generated_modules": len(gen),
            "two_instance_runs": stats["two_instance_runs"],
            "inst_state_cases": it["cases"], "inst_state_compared": it["compared"], "inst_state_skipped_start": it["skipped_start"],
            "inst_state_disagreements": len(it["disagreements"]),
            "emit_tokens_functions": nfun, "emit_tokens_mismatching_modules": len(bad),
            "modules_not_compilable_reported_by_C11": stats["not_compilable"][:10],
            "modules_masked_by_" + KEY_IMPMEM: stats["impmem_modules"],
            "traces_validated_against_impl": stats["disagreements_checked"],
        })
        chk.notes.append("module-level text (Init*/Instantiate/exports) is not rendered by the Lean driver yet: tied behaviourally (e2e) only")
    if stats["errors"]:
        chk.notes.append({"tool_errors": stats["errors"][:10]})
        if len(stats["errors"]) > max(3, len(specs) // 20):
            raise RuntimeError("too many e2e tool errors: %r" % stats["errors"][:5])
    if tier == "thorough" and pr.get("modules") and pr["build_ok"]:
        import common
        for mname, msg in common.leanchecker(chk, pr["modules"]):
            broken.append({"kind": "leanchecker", "msg": "%s: %s" % (mname, msg)})
    if broken and not chk.violations and not chk.known_hit:
        chk.violation("tie-or-proof-broken", "proof obligation or emit-tokens correspondence no longer checks; the e2e search found no "
                      "module whose instantiated state differs from the specification", {"broken": broken[:20], "correspondence": "emit-tokens"}, False)
    elif broken:
        chk.notes.append({"broken": broken[:10]})
    return chk.finish()


def replay(path):
    r = json.load(open(path))
    spec = r["spec"]
    with vlib.scratch("c06r-") as d:
        env = ec.Env(d)
        res = ec.e2e_job(make_jobs(env, [spec])[0])
    if res.get("error"):
        raise RuntimeError(res["error"])
    bad = 0
    for b in res["builds"]:
        for dd in b["diffs"] + b.get("init_diffs", []):
            bad += 1
            print("replay %s: %s: real %r expected %r" % (res["id"], dd["kind"], dd.get("real"), dd.get("v8", dd.get("spec"))))
        print("build:", b["real"]["build"][-1][:300] if b["real"]["build"] else "")
    for dd in (res.get("two") or {}).get("diffs", []):
        bad += 1
        print("replay %s: %s" % (res["id"], dd))
    print("replay %s: %d disagreement(s); c_flags=%r" % (res["id"], bad, res.get("c_flags")))
    return 1 if bad else 0
