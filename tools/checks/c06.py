"""C06 — instantiation builds the specified initial state, once, per instance.

Obligations: theorems of Props/C06.lean when present (instantiate_refines_spec, instances_disjoint, start_once …).
Tie / search (DESIGN §5 C06): behavioural e2e — the output of the REAL w2c2 is compiled with an embedder
(tools/harness/e2e.py) whose resolver hands out host-created memories/tables/globals; observed right after
`Instantiate` (memory image, every global, table slots as function identity, host-call trace of the start
function, import bindings, memory export accessor) and after a call script; compared with V8 and with an
independent Python statement of the spec's initial state.  Two live instances run the same script randomly
interleaved; each must behave like the single-instance run.  Module shapes: an enumerated table
{defined, imported, none} memory x data-segment kinds x {none, defined, imported} table x start, and the
generated `init` profile.  emit-tokens (function bodies) on the same modules.
"""
import json
import os

import vlib
import e2e
import e2e_common as ec
from vlib import log
from wasmgen import wasm_ast as A, encode

PROP = "C06"
KEY_IMPMEM = "imported-memory-data-segments-not-loaded"


# ------------------------------------------------------------------------------- enumerated module shapes
def build_shape(mem, data, table, start):
    """mem: none|defined|imported; data: none|const|global|overlap|passive; table: none|defined|imported; start: bool"""
    I = A.Instr
    m = A.Module()
    m.types = [A.FuncType([], [A.I32]), A.FuncType([A.I32], [A.I32]), A.FuncType([], [])]
    imports_spec = {"globals": {}}
    if start:
        m.imports.append(A.Import(b"env", b"hf", "func", 1))
    m.imports.append(A.Import(b"env", b"goff", "global", A.GlobalType(A.I32, False)))
    imports_spec["globals"][len(m.imports) - 1] = 24
    m.imports.append(A.Import(b"host", b"toff", "global", A.GlobalType(A.I32, False)))
    imports_spec["globals"][len(m.imports) - 1] = 3
    if mem == "imported":
        m.imports.append(A.Import(b"env", b"mem", "memory", A.Limits(1, 2)))
    elif mem == "defined":
        m.mems.append(A.Limits(1, 2))
    if table == "imported":
        m.imports.append(A.Import(b"env", b"tab", "table", A.TableType(A.Limits(8, None))))
    elif table == "defined":
        m.tables.append(A.TableType(A.Limits(8, 8)))
    nimp = 1 if start else 0
    funcs = []          # (export name, type, locals, body)
    funcs.append((b"k7", 0, [], [I("i32.const", 7)]))
    funcs.append((b"k9", 0, [], [I("i32.const", 9)]))
    k7, k9 = nimp, nimp + 1
    # globals: 0 = goff (import), 1 = toff (import), 2 = const, 3 = init from import, 4 = mutable
    m.globals = [A.Global(A.GlobalType(A.I32, False), I("i32.const", 1234)),
                 A.Global(A.GlobalType(A.I32, False), I("global.get", 0)),
                 A.Global(A.GlobalType(A.I32, True), I("i32.const", 1)),
                 A.Global(A.GlobalType(A.I64, True), I("i64.const", -2)),
                 A.Global(A.GlobalType(A.F64, False), I("f64.const", 0x400921FB54442D18))]
    funcs.append((b"gg", 1, [], [I("local.get", 0), I("if", A.I32, body=[I("global.get", 3)], else_body=[I("global.get", 4)])]))
    funcs.append((b"bump", 0, [], [I("global.get", 4), I("i32.const", 1), I("i32.add"), I("global.set", 4), I("global.get", 4)]))
    if mem != "none":
        funcs.append((b"ld", 1, [], [I("local.get", 0), I("i32.load8_u", 0, 0)]))
        funcs.append((b"st", 1, [], [I("local.get", 0), I("i32.const", 0xA5), I("i32.store8", 0, 0), I("i32.const", 0)]))
        if data == "passive":
            funcs.append((b"mi", 0, [], [I("i32.const", 40), I("i32.const", 0), I("i32.const", 4), I("memory.init", 0), I("i32.const", 1)]))
    if table != "none":
        funcs.append((b"ci", 1, [], [I("local.get", 0), I("call_indirect", 0)]))
    if start:
        body = [I("i32.const", 77), I("global.set", 4), I("i32.const", 5), I("call", 0), I("drop")]
        if mem != "none":
            body += [I("i32.const", 100), I("i32.const", 0x5A), I("i32.store8", 0, 0)]
        funcs.append((None, 2, [], body))
    for nm, ty, locs, body in funcs:
        m.funcs.append(A.Function(ty, locs, body))
        if nm is not None:
            m.exports.append(A.Export(nm, "func", nimp + len(m.funcs) - 1))
    if start:
        m.start = nimp + len(m.funcs) - 1
    if mem != "none":
        m.exports.append(A.Export(b"mem", "memory", 0))
        if data == "const":
            m.datas = [A.DataSegment("active", b"w2c2verif", I("i32.const", 16), 0)]
        elif data == "global":
            m.datas = [A.DataSegment("active", b"ABCDEFGH", I("global.get", 0), 0)]
        elif data == "overlap":
            m.datas = [A.DataSegment("active", b"aaaaaaaa", I("i32.const", 16), 0), A.DataSegment("active", b"BBBB", I("i32.const", 20), 0),
                       A.DataSegment("active", b"", I("i32.const", 65536), 0)]
        elif data == "passive":
            m.datas = [A.DataSegment("passive", b"PPPP"), A.DataSegment("active", b"xyz", I("i32.const", 65533), 0)]
            m.datacount = 2
    if table != "none":
        m.elems = [A.ElemSegment(0, I("i32.const", 1), [k7, k9, k7]), A.ElemSegment(0, I("global.get", 1), [k9, k9])]
    for gi in (2, 3, 4, 5, 6):
        m.exports.append(A.Export(("g%d" % gi).encode(), "global", gi))
    calls = [(b"gg", [("i32", 0)]), (b"gg", [("i32", 1)]), (b"bump", []), (b"bump", []), (b"gg", [("i32", 0)]), (b"k7", [])]
    if mem != "none":
        calls += [(b"ld", [("i32", a)]) for a in (15, 16, 20, 23, 24, 25, 31, 100, 65533, 65535)]
        calls += [(b"st", [("i32", 17)]), (b"ld", [("i32", 17)])]
        if data == "passive":
            calls += [(b"mi", []), (b"ld", [("i32", 40)]), (b"ld", [("i32", 43)])]
    if table != "none":
        calls += [(b"ci", [("i32", a)]) for a in (1, 2, 3, 4)]
    return m, imports_spec, calls


def shape_specs(tier):
    specs = []
    for mem in ("imported", "defined", "none"):
        for data in (("const", "global", "overlap", "passive", "none") if mem != "none" else ("none",)):
            for table in ("none", "defined", "imported"):
                for start in (False, True):
                    m, imp, calls = build_shape(mem, data, table, start)
                    specs.append({"hex": encode(m).hex(), "imports_spec": {"globals": {str(k): v for k, v in imp["globals"].items()}},
                                  "calls": [[n.hex(), [[t, b] for t, b in a]] for n, a in calls],
                                  "id": "shape/mem=%s,data=%s,table=%s,start=%d" % (mem, data, table, int(start))})
    return specs


# ------------------------------------------------------------------------------- verdicts
def impmem_case(res):
    sh = res.get("shape") or {}
    return sh.get("mem") == "imported" and sh.get("active", 0) > 0 and not (res.get("c_flags") or {}).get("InitMemories", True)


def judge(chk, res, stats):
    """Turn one job result into violations (real output vs specification)."""
    sid = res["id"]
    if res.get("error"):
        stats["errors"].append("%s: %s" % (sid, res["error"]))
        return
    for b in res["builds"]:
        ri = b["real"]["instantiate"]
        if ri[0] == "w2c2_error":
            chk.violation("w2c2-rejects-valid-module:" + sid, "the real w2c2 fails on a valid module: %s" % (ri[1],), ec.replay_obj(res), True)
            return
        if ri[0] == "build_error":
            stats["not_compilable"].append("%s: %s" % (sid, b.get("build_error_class")))
            return
        alld = [("e2e", d) for d in b["diffs"]] + [("init", d) for d in b.get("init_diffs", [])]
        stats["disagreements_checked"] += b["info"]["compared_calls"] + 3
        if not alld:
            continue
        if impmem_case(res) and all(d["kind"] in ("memory", "result", "init-memory", "init-memory-vs-spec", "global", "host_log") for _, d in alld):
            d0 = alld[0][1]
            chk.violation(KEY_IMPMEM,
                          "a module that imports its memory never loads its active data segments: the generated C has no "
                          "InitMemories/LOAD_DATA, the imported memory stays zero where the specification (V8) has the segment bytes",
                          ec.replay_obj(res, {"first_disagreement": d0, "c_flags": res.get("c_flags"), "shape": res.get("shape"),
                                              "memdiag": b.get("memdiag")}), True)
            stats["impmem_modules"] += 1
            continue
        for where, d in alld[:3]:
            chk.violation("%s-%s:%s" % (where, d["kind"], sid),
                          "instantiated output of the real w2c2 disagrees with the specification (%s %s): real %r, expected %r"
                          % (where, d["kind"], d.get("real"), d.get("v8", d.get("spec"))),
                          ec.replay_obj(res, {"disagreement": d, "build": b["build"], "shape": res.get("shape")}), True)
    two = res.get("two")
    if two:
        stats["two_instance_runs"] += 1
        stats["disagreements_checked"] += two["script_len"]
        for d in two["diffs"][:2]:
            chk.violation("%s:%s" % (d["kind"], sid),
                          "two live instances of one module interfere: instance %d run interleaved (%s) differs from the single-instance run in %s"
                          % (d["instance"], two["order"], d["kind"]), ec.replay_obj(res, {"disagreement": d}), True)


def make_jobs(env, specs, **kw):
    return [dict(spec=s, env=env.tuple(), builds=[("gcc", ("-O1",), False)], init_dump=True, two_instances=True,
                 keep_mem=True, memdiag=True, **kw) for s in specs]


def run(tier):
    chk = vlib.Check(PROP, tier)
    chk.coverage["trusted_base"] = list(vlib.GLOBAL_TRUSTED) + [
        "V8 (node 20) as the reference for instantiation order and initial state; tools/harness/e2e.py embedder (resolver, dumps)",
        "independent Python statement of the initial memory/table/globals (e2e.expected_*) used three-way with V8"]
    chk.assumptions = ["gcc gives the emitted module-level C (Init*/Instantiate) the obvious meaning",
                       "external data-segment modes (-d gnu-ld/sectcreate) are not linked here (token tie only)"]
    pr = ec.prove_if_present(chk, ["C06"])
    broken = list(pr["errors"])
    stats = {"errors": [], "not_compilable": [], "disagreements_checked": 0, "impmem_modules": 0, "two_instance_runs": 0}
    n_gen = 160 if tier == "quick" else 2500
    n_tok = 150 if tier == "quick" else 2000
    with vlib.scratch("c06-") as d:
        env = ec.Env(d)
        corpus = ec.corpus_specs(PROP)
        shapes = shape_specs(tier)
        gen = ec.gen_specs(chk.seed, "init", n_gen) + ec.gen_specs(chk.seed, "memory", n_gen // 8) + ec.gen_specs(chk.seed, "calls", n_gen // 8)
        specs = corpus + shapes + gen
        results = ec.run_jobs(make_jobs(env, specs))
        ops, shapes_hist = {}, {}
        for res in results:
            judge(chk, res, stats)
            if res.get("error"):
                continue
            ec.merge_hist(ops, res.get("ops", {}))
            sh = res.get("shape") or {}
            k = "mem=%s table=%s data=%s start=%s" % (sh.get("mem"), sh.get("table"), "active" if sh.get("active") else ("passive" if sh.get("passive") else "none"), sh.get("start"))
            shapes_hist[k] = shapes_hist.get(k, 0) + 1
            nontrivial = bool(sh.get("active") or sh.get("elems") or sh.get("globals") or sh.get("start"))
            chk.count_case(("e2e", res["id"]), nontrivial, ec.sample_of(res) if len(chk.coverage["samples"]) < 6 and nontrivial else None)
        # emit-tokens on the function bodies of the same generated modules
        tok = ec.emit_tokens_batch(env, gen[:n_tok], driver_ok=pr["driver_ok"])
        nfun = sum(t["functions"] for t in tok.values())
        bad = [(sid, t["mismatch"][0]) for sid, t in tok.items() if t["mismatch"]]
        for sid, t in tok.items():
            chk.count_case(("tok", sid), t["functions"] > 0, None)
        if bad:
            broken.append({"kind": "correspondence", "msg": "emit-tokens: %d modules differ, first %s: %r" % (len(bad), bad[0][0], bad[0][1])})
        chk.coverage.update({
            "programs": len([r for r in results if not r.get("error")]),
            "disagreements_checked": stats["disagreements_checked"],
            "rule": "a case = one module (enumerated shape table, corpus, or wasmgen profile init/memory/calls by seed:profile:index) instantiated by "
                    "the compiled output of the real w2c2 and by V8: state right after Instantiate (memory image, all globals, table slots, "
                    "start-function host trace, import bindings) + a call script + two interleaved instances; non-trivial = the module has an "
                    "active segment, element segment, global or start function; distinct = distinct module id",
            "module_shapes": shapes_hist, "op_histogram": ec.top(ops),
            "enumerated_shapes": len(shapes), "corpus_modules": len(corpus), "generated_modules": len(gen),
            "two_instance_runs": stats["two_instance_runs"],
            "emit_tokens_functions": nfun, "emit_tokens_mismatching_modules": len(bad),
            "modules_not_compilable_reported_by_C11": stats["not_compilable"][:10],
            "modules_masked_by_" + KEY_IMPMEM: stats["impmem_modules"],
            "traces_validated_against_impl": stats["disagreements_checked"],
        })
        chk.notes.append("module-level text (Init*/Instantiate/exports) is not rendered by the Lean driver yet: tied behaviourally (e2e) only")
    if stats["errors"]:
        chk.notes.append({"tool_errors": stats["errors"][:10]})
        if len(stats["errors"]) > max(3, len(specs) // 20):
            raise RuntimeError("too many e2e tool errors: %r" % stats["errors"][:5])
    if tier == "thorough" and pr.get("modules") and pr["build_ok"]:
        import common
        for mname, msg in common.leanchecker(chk, pr["modules"]):
            broken.append({"kind": "leanchecker", "msg": "%s: %s" % (mname, msg)})
    if broken and not chk.violations and not chk.known_hit:
        chk.violation("tie-or-proof-broken", "proof obligation or emit-tokens correspondence no longer checks; the e2e search found no "
                      "module whose instantiated state differs from the specification", {"broken": broken[:20], "correspondence": "emit-tokens"}, False)
    elif broken:
        chk.notes.append({"broken": broken[:10]})
    return chk.finish()


def replay(path):
    r = json.load(open(path))
    spec = r["spec"]
    with vlib.scratch("c06r-") as d:
        env = ec.Env(d)
        res = ec.e2e_job(make_jobs(env, [spec])[0])
    if res.get("error"):
        raise RuntimeError(res["error"])
    bad = 0
    for b in res["builds"]:
        for dd in b["diffs"] + b.get("init_diffs", []):
            bad += 1
            print("replay %s: %s: real %r expected %r" % (res["id"], dd["kind"], dd.get("real"), dd.get("v8", dd.get("spec"))))
        print("build:", b["real"]["build"][-1][:300] if b["real"]["build"] else "")
    for dd in (res.get("two") or {}).get("diffs", []):
        bad += 1
        print("replay %s: %s" % (res["id"], dd))
    print("replay %s: %d disagreement(s); c_flags=%r" % (res["id"], bad, res.get("c_flags")))
    return 1 if bad else 0
