"""C14 — WASI path operations act on the resolved path; directory listings are complete.

Obligations: theorems of Props/C14.lean (resolvePath, path calls) and Props/C14Readdir.lean
(fd_readdir) over Model/WasiPath.lean, Model/WasiReaddir.lean, Spec/Dir.lean with the guards,
offsets, cookie test and errno table regenerated from wasi/wasi.c (Gen/WasiPath.lean).

Ties (real code = wasi/wasi.c of a scratch copy of /repo's working tree, #included into
tools/harness/wasi_paths.c, built with ASan+UBSan; model = compiled Lean `pathsdriver`):
  resolvePath   in-process sweep directory lengths × path lengths 0…2·PATH_MAX × abs/rel × trailing '/',
                guest path at the very end of guest memory without NUL; three-way real / model / Python spec
  fd_readdir    generated directories (0–200 entries, names 1–255 bytes, files/dirs/symlinks/fifos),
                ground-truth stream (opendir/readdir/telldir, seekdir validated) → model; client protocol
                for buffer sizes 24…600, resume from every returned cookie, cookie 0 after a listing
  path calls    op sequences on a generated tree vs a twin tree on which Python performs the POSIX
                operation the model names on the resolved path; errno translation vs reference table
"""
import errno as pyerrno
import os
import shutil
import stat
import struct
import time

import vlib
import wasi_paths as wp
from common import prove, leanchecker
from vlib import log

PROP = "C14"
MODULES = ["W2c2Verif.Props.C14", "W2c2Verif.Props.C14Readdir"]
GENS = [("WasiPath", "gen_wasipath")]
PATHSDRIVER = os.path.join(vlib.LEAN, ".lake", "build", "bin", "pathsdriver")


# ----------------------------------------------------------------------------- resolvePath

def fnv(b):
    h = 2166136261
    for x in b:
        h = ((h ^ x) * 16777619) & 0xFFFFFFFF
    return h


def synth_dir(n, dslash):
    d = bytearray((47 if i == 0 else 97 + i % 26) for i in range(n))
    if n > 0:
        if dslash:
            d[n - 1] = 47
        elif d[n - 1] == 47:
            d[n - 1] = 100
    return bytes(d)


def synth_path(n, isabs, seed):
    p = bytearray(((i * 131 + seed * 31 + (i >> 8)) % 251) + 1 for i in range(n))
    if n > 0:
        if isabs:
            p[0] = 47
        elif p[0] == 47:
            p[0] = 46
        if seed % 4 == 3 and n >= 2:
            p[n // 2] = 0
    return bytes(p)


def resolve_spec(pm, d, path):
    """The property, written independently of the Lean model: None = rejected."""
    if len(path) == 0 or b"\0" in path:
        return None
    if path[:1] == b"/":
        return path if len(path) < pm else None
    if len(d) + len(path) + 1 < pm:
        return d + (b"" if d.endswith(b"/") else b"/") + path
    return None


def cstr(b):
    i = b.find(b"\0")
    return b if i < 0 else b[:i]


def resolve_cases(rng, pm, tier):
    """(line, dir bytes, path bytes) — path length == bytes available (path ends the memory)."""
    cases = []
    dlens = [1, 2, pm - 2, pm - 1]
    if tier == "quick":
        plens = set(range(0, 34)) | set(range(pm - 40, pm + 4)) | set(range(2 * pm - 2, 2 * pm + 1))
        plens |= {rng.randrange(34, 2 * pm) for _ in range(40)}
    else:
        plens = set(range(0, 2 * pm + 1))
    for dl in dlens:
        for L in sorted(plens):
            for ab in (0, 1):
                for ds in (0, 1):
                    seed = (L * 7 + dl + ab) % 8
                    cases.append((f"rps {pm} {dl} {ds} {ab} {L} {seed}", synth_dir(dl, ds), synth_path(L, ab, seed), True))
    # every directory length with path lengths around the relative guard pm - dl - 1
    for dl in sorted(set([1, 2, 3, 7, 100, pm // 2, pm - 5, pm - 4, pm - 3, pm - 2, pm - 1] +
                         [rng.randrange(1, pm) for _ in range(12 if tier == "quick" else 200)])):
        for delta in range(-3, 4):
            L = pm - dl - 1 + delta
            if L < 0:
                continue
            for ds in (0, 1):
                seed = (L + dl) % 8
                cases.append((f"rps {pm} {dl} {ds} 0 {L} {seed}", synth_dir(dl, ds), synth_path(L, 0, seed), True))
    # explicit random content (any byte incl. NUL and '/'), short enough to keep the lines small
    n = 300 if tier == "quick" else 5000
    for _ in range(n):
        dl = rng.choice([1, 2, 3, rng.randrange(1, 40), rng.randrange(1, 300)])
        d = bytes(rng.choice(b"/abcXYZ._-\xc3\xa4") for _ in range(dl))
        L = rng.choice([0, 1, 2, rng.randrange(0, 20), rng.randrange(0, 600)])
        alphabet = rng.choice([b"/ab.", bytes(range(256)), b"ab\0/"])
        p = bytes(rng.choice(alphabet) for _ in range(L))
        cases.append((f"rp {pm} {wp.hexs(d)} {wp.hexs(p)} {L}", d, p, False))
    return cases


def expected_line(pm, d, p, summary):
    s = resolve_spec(pm, d, p)
    if s is None:
        return "none"
    c = cstr(s)
    return f"some {len(c)} {fnv(c):08x}" if summary else f"some {wp.hexs(c)}"


def run_resolve(chk, exe, pm, tier, broken, model_ok):
    cases = resolve_cases(chk.rng, pm, tier)
    lines = [c[0] for c in cases]
    t0 = time.time()
    real = wp.batch_once(exe, lines)
    model = None
    if model_ok:
        # split over a few driver processes
        import concurrent.futures as cf
        k = 8
        chunks = [lines[i::k] for i in range(k)]
        with cf.ThreadPoolExecutor(k) as ex:
            outs = list(ex.map(lambda ch: vlib.DriverProc(PATHSDRIVER).batch(ch, timeout=3000) if ch else [], chunks))
        model = [None] * len(lines)
        for j, o in enumerate(outs):
            for i, v in enumerate(o):
                model[i * k + j] = v
    hist = {"none": 0, "some": 0, "crash": 0}
    shape = {}
    for i, (line, d, p, summ) in enumerate(cases):
        exp = expected_line(pm, d, p, summ)
        r = real[i]
        kind = r.split()[0]
        hist[kind] = hist.get(kind, 0) + 1
        sk = ("abs" if p[:1] == b"/" else "rel" if p else "empty") + ("/dslash" if d.endswith(b"/") else "/noslash")
        shape[sk] = shape.get(sk, 0) + 1
        chk.count_case(line, True, {"line": line[:120], "real": r[:80], "model": (model[i][:80] if model else None)} if i % max(1, len(cases) // 6) == 0 else None)
        if r != exp:
            what = "crash" if kind == "crash" else "wrong-result"
            key = f"resolvePath-{what}-{'abs' if p[:1] == b'/' else 'rel'}-dir{'slash' if d.endswith(b'/') else 'noslash'}"
            chk.violation(key, f"resolvePath(dir of {len(d)} bytes, guest path of {len(p)} bytes at the end of memory): real code gives `{r[:100]}`, the property requires `{exp[:100]}`",
                          {"kind": "resolvePath", "line": line, "real": r, "expected": exp}, True)
        if model is not None and model[i] != r:
            broken.append({"kind": "correspondence", "msg": f"resolvePath: `{line[:100]}` real `{r[:80]}` model `{model[i][:80]}`"})
    chk.coverage["resolvePath_cases"] = len(cases)
    chk.coverage["resolvePath_outcomes"] = hist
    chk.coverage["resolvePath_shapes"] = shape
    chk.coverage["resolvePath_seconds"] = round(time.time() - t0, 1)


# ----------------------------------------------------------------------------- fd_readdir

NAME_ALPHA = bytes([c for c in range(1, 256) if c != 47])


def make_directory(rng, root, n, maxlen=255):
    """Create a directory with n entries of various kinds and name lengths; returns its path."""
    os.mkdir(root)
    names = set()
    lens = [1, 2, maxlen, maxlen - 1]
    while len(names) < n:
        L = lens.pop() if lens and n > 4 else rng.choice([rng.randrange(1, 12), rng.randrange(1, 64), rng.randrange(1, maxlen + 1)])
        L = min(L, maxlen)
        alpha = rng.choice([b"abcdefghijklmnopqrstuvwxyz0123456789._-", NAME_ALPHA])
        nm = bytes(rng.choice(alpha) for _ in range(L))
        if nm in (b".", b"..") or nm in names:
            continue
        names.add(nm)
    for nm in sorted(names):
        p = os.path.join(root.encode(), nm)
        k = rng.randrange(10)
        if k < 6:
            with open(p, "wb") as f:
                f.write(b"x" * rng.randrange(0, 5))
        elif k < 8:
            os.mkdir(p)
        elif k < 9:
            os.symlink(b"target", p)
        else:
            os.mkfifo(p)
    return root


def parse_dirspec(ans):
    t = ans.split()
    if t[0] != "dir":
        raise RuntimeError("dirspec failed: " + ans[:200])
    loc0 = int(t[1])
    ents = []
    for e in t[2:-1]:
        n, ino, dt, loc = e.split(":")
        ents.append((wp.unhexs(n), int(ino), int(dt), int(loc)))
    return loc0, ents, t[-1]


def parse_records(buf):
    recs = []
    off = 0
    while len(buf) - off >= 24:
        nxt, ino, nl, ft = struct.unpack_from("<QQIB", buf, off)
        if len(buf) - off - 24 < nl:
            break
        recs.append((nxt, ino, buf[off + 24:off + 24 + nl], ft))
        off += 24 + nl
    return recs


DT2WASI = {2: 2, 4: 3, 8: 4, 10: 7, 6: 1}


class RdSession:
    """One descriptor of the real harness; records (bufLen, cookie, errno on entry) calls and answers.
    Every fd_readdir call is made inside a HISTORY: with `errno` left behind by an earlier failing host call
    (`keep`: a path_filestat_get on a missing file directly before it) or set by the caller to some value —
    both are legal process state and must not influence the listing."""
    POISON = [0, 2, 5, 9, 20, "keep", 13, "keep"]      # 0, ENOENT, EIO, EBADF, ENOTDIR, EACCES

    def __init__(self, h, path, phase=0):
        self.h = h
        a = h.ask("preopen " + wp.hexs(path))
        if not a.startswith("fd "):
            raise RuntimeError("preopen failed: " + a)
        self.fd = a.split()[1]
        self.calls = []
        self.outs = []
        self.k = phase
        self.failed_calls = 0

    def rd(self, bl, cookie):
        mode = self.POISON[self.k % len(self.POISON)]
        self.k += 1
        if mode == "keep":
            miss = b"w2c2verif-missing"
            r = self.h.ask(f"stat {self.fd} {wp.hexs(miss)} {len(miss)}")
            self.failed_calls += 1
            stale = "ENOENT" if r.split()[0] == "44" else "-"
            if stale == "-":
                mode = 0
        else:
            stale = pyerrno.errorcode.get(mode, "-") if mode else "-"
        o = self.h.ask(f"rd {self.fd} {bl} {cookie} {mode}")
        self.calls.append((bl, cookie, stale))
        self.outs.append(o)
        return o

    def close(self):
        self.h.ask("rdclose " + self.fd)


def listing(sess, bl, cookie=0, limit=100000):
    """The client protocol; returns (records, stuck?, crashed answer or None)."""
    recs = []
    for _ in range(limit):
        o = sess.rd(bl, cookie)
        if o.startswith("crash") or o.startswith("err"):
            return recs, False, o
        t = o.split()
        if t[0] != "0":
            return recs, False, o
        used = int(t[1])
        buf = wp.unhexs(t[2])[:used]
        got = parse_records(buf)
        recs += got
        if used < bl:
            return recs, False, None
        if not got:
            return recs, True, None
        cookie = got[-1][0]
    return recs, True, None


def readdir_error_violation(chk, s, bad, nents, bl, spec):
    last = s.calls[-1]
    chk.violation(f"readdir-error-{bad.split()[0]}" + ("-after-earlier-failure" if last[2] != "-" else ""),
                  f"fd_readdir failed on a healthy directory descriptor: `{bad[:120]}` (directory of {nents} entries, buffer {bl}; call #{len(s.calls)} on this descriptor, cookie {last[1]}, errno on entry = {last[2]} "
                  f"{'left behind by an earlier failing call / set by the caller — legal state that must not influence the listing' if last[2] != '-' else ''})",
                  {"kind": "readdir-errno", "entries": spec[:4000], "calls (bufLen, cookie, errno on entry)": s.calls, "answer": bad, "bufLen": bl}, True)


def readdir_replay_dir(root, names_hex):
    os.mkdir(root)
    for nh in names_hex:
        n = bytes.fromhex(nh)
        if n not in (b".", b".."):
            open(os.path.join(root.encode(), n), "wb").close()
    return root.encode()


def run_readdir(chk, h, scratch, pm, tier, broken, model_ok):
    rng = chk.rng
    sizes = [0, 1, 3, 17, 60] if tier == "quick" else [0, 1, 2, 3, 5, 17, 64, 120, 200]
    if tier == "quick":
        buflens = [24, 25, 47, 48, 64, 100, 278, 279, 280, 300, 600] + [rng.randrange(24, 601) for _ in range(6)]
    else:
        buflens = list(range(24, 601))
    sessions = []          # (dir path, dirspec, session)
    stats = {"dirs": 0, "entries": 0, "calls": 0, "listings": 0, "resumes": 0, "stuck_small_buffer": 0}
    kinds = {}
    for di, n in enumerate(sizes):
        maxlen = 255 if di % 2 == 0 else rng.choice([8, 40, 255])
        d = make_directory(rng, os.path.join(scratch, f"rd{di}"), n, maxlen).encode()
        spec = h.ask("dirspec " + wp.hexs(d))
        loc0, ents, seek = parse_dirspec(spec)
        # the assumptions of Spec/Dir (LocOK) validated on the real kernel
        locs = [e[3] for e in ents]
        if seek != "seekok" or len(set(locs)) != len(locs) or any(l <= 0 or l >= 2 ** 63 for l in locs) or len(ents) != n + 2:
            raise RuntimeError(f"SPEC-MISMATCH Spec/Dir assumptions do not hold on this file system: {seek} {spec[:300]}")
        stats["dirs"] += 1
        stats["entries"] += len(ents)
        for e in ents:
            kinds[e[2]] = kinds.get(e[2], 0) + 1
        maxname = max(len(e[0]) for e in ents)
        truth = [(e[3], e[1], e[0], DT2WASI.get(e[2], 0)) for e in ents]
        bls = buflens if n <= 64 or tier == "quick" else buflens[::5]
        for bl in bls:
            s = RdSession(h, d, phase=stats["listings"])
            recs, stuck, bad = listing(s, bl)
            stats["listings"] += 1
            key = ("list", di, bl)
            chk.count_case(key, True, {"dir_entries": len(ents), "bufLen": bl, "calls": len(s.calls), "first": s.outs[0][:60]} if bl in (24, 300) and di in (1, 3) else None)
            if bad:
                readdir_error_violation(chk, s, bad, len(ents), bl, spec)
            elif stuck and bl >= 24 + maxname:
                chk.violation("readdir-no-progress", f"buffer of {bl} bytes can hold every entry (max name {maxname}) but a call returned no complete entry",
                              {"kind": "readdir", "names": [e[0].hex() for e in ents][:300], "bufLen": bl, "entries": spec[:4000], "calls": s.calls}, True)
            elif stuck:
                stats["stuck_small_buffer"] += 1
            elif recs != truth:
                chk.violation("readdir-not-exactly-once", f"client protocol with buffer {bl} on a directory of {len(ents)} entries did not deliver every entry exactly once in stream order with the specified layout ({len(recs)} records)",
                              {"kind": "readdir", "names": [e[0].hex() for e in ents][:300], "bufLen": bl, "entries": spec[:4000], "calls": s.calls, "got": [r[2].hex() for r in recs][:50]}, True)
            # resume from a returned cookie (any earlier d_next), on the same (already advanced) stream
            if recs and not bad and bl >= 24 + maxname:
                for _ in range(2 if tier == "quick" else 4):
                    k = rng.randrange(len(truth))
                    recs2, stuck2, bad2 = listing(s, bl, truth[k][0])
                    stats["resumes"] += 1
                    if bad2:
                        readdir_error_violation(chk, s, bad2, len(ents), bl, spec)
                    elif stuck2 or recs2 != truth[k + 1:]:
                        chk.violation("readdir-resume-cookie", f"resuming from the cookie of entry {k} did not deliver exactly the entries after it",
                                      {"kind": "readdir", "names": [e[0].hex() for e in ents][:300], "bufLen": bl, "entries": spec[:4000], "calls": s.calls}, True)
            s.close()
            sessions.append((d, loc0, ents, s))
        # cookie 0 after a (complete or partial) listing must restart from the beginning
        if n >= 1:
            bl = 24 + maxname + 5
            for partial in (False, True):
                s = RdSession(h, d)
                if partial:
                    s.rd(bl, 0)
                else:
                    listing(s, bl)
                recs, stuck, bad = listing(s, bl, 0)
                stats["listings"] += 1
                chk.count_case(("cookie0", di, partial), True, None)
                if bad:
                    readdir_error_violation(chk, s, bad, len(ents), bl, spec)
                elif stuck or recs != truth:
                    chk.violation("readdir-cookie0-no-rewind",
                                  f"fd_readdir with cookie 0 on a descriptor that has already been listed {'partially' if partial else 'completely'} does not restart at the first entry: got {len(recs)} of {len(truth)} entries (the stream is only positioned for non-zero cookies; no rewinddir)",
                                  {"kind": "readdir-cookie0", "dir_entries": [e[0].hex() for e in ents][:20], "calls": s.calls,
                                   "got": [r[2].hex() for r in recs][:20], "bufLen": bl, "partial_first": partial}, True)
                s.close()
                sessions.append((d, loc0, ents, s))
    # model side: every recorded session replayed on the Lean model of fd_readdir
    if model_ok:
        lines = []
        for d, loc0, ents, s in sessions:
            es = ",".join(f"{wp.hexs(e[0])}:{e[1]}:{e[2]}:{e[3]}" for e in ents) or "-"
            lines.append(f"rdsess {pm} {wp.hexs(d)} {loc0} {es} " + ",".join(f"{a}:{b}:{c}" for a, b, c in s.calls))
        import concurrent.futures as cf
        k = 8
        chunks = [lines[i::k] for i in range(k)]
        with cf.ThreadPoolExecutor(k) as ex:
            outs = list(ex.map(lambda ch: vlib.DriverProc(PATHSDRIVER).batch(ch, timeout=3000) if ch else [], chunks))
        nmis = 0
        for j, o in enumerate(outs):
            for i, v in enumerate(o):
                s = sessions[i * k + j][3]
                mo = v.split(";")
                stats["calls"] += len(s.calls)
                if mo != s.outs and nmis < 5:
                    nmis += 1
                    idx = next((q for q in range(min(len(mo), len(s.outs))) if mo[q] != s.outs[q]), min(len(mo), len(s.outs)))
                    broken.append({"kind": "correspondence", "msg": f"fd_readdir call #{idx} {s.calls[idx] if idx < len(s.calls) else ''}: real `{(s.outs[idx] if idx < len(s.outs) else '')[:100]}` model `{(mo[idx] if idx < len(mo) else '')[:100]}`"})
    chk.coverage["readdir"] = stats
    chk.coverage["readdir_d_types"] = {str(k): v for k, v in sorted(kinds.items())}
    chk.coverage["readdir_buffer_sizes"] = f"{min(buflens)}..{max(buflens)} ({len(buflens)} sizes)"


# ----------------------------------------------------------------------------- path calls

# reference translation host errno name -> WASI errno name (wasi.h names are POSIX names without the E)
def reference_wasi_errno(name, values):
    n = name[1:]
    if n == "2BIG":
        n = "2_BIG"
    return values.get(n)


def wasi_errno_values():
    import re
    txt = open(os.path.join(vlib.REPO, "wasi", "wasi.h"), encoding="latin-1").read()
    return {m.group(1): int(m.group(2)) for m in re.finditer(r"#define WASI_ERRNO_(\w+)\s+(\d+)", txt)}


def snapshot(root):
    out = {}
    for dp, dns, fns in os.walk(root):
        for n in dns + fns:
            p = os.path.join(dp, n)
            st = os.lstat(p)
            rel = os.path.relpath(p, root)
            if stat.S_ISLNK(st.st_mode):
                out[rel] = ("l", os.readlink(p))
            elif stat.S_ISDIR(st.st_mode):
                out[rel] = ("d",)
            else:
                out[rel] = ("f", st.st_size)
    return out


def twin_exec(op, a2b):
    """Perform the host operation the model names, on the twin tree.  Returns (errno name | None, extra)."""
    t = op.split()
    f = lambda hx: a2b(wp.unhexs(hx))
    try:
        if t[1] == "mkdir":
            os.mkdir(f(t[2]), int(t[3]))
        elif t[1] == "rmdir":
            os.rmdir(f(t[2]))
        elif t[1] == "unlink":
            os.unlink(f(t[2]))
        elif t[1] == "rename":
            os.rename(f(t[2]), f(t[3]))
        elif t[1] == "symlink":
            os.symlink(wp.unhexs(t[2]), f(t[3]))
        elif t[1] == "readlink":
            if int(t[3]) == 0:
                return "EINVAL", None         # readlink(2) on Linux: bufsiz <= 0 is rejected before the lookup
            r = os.readlink(f(t[2]))
            return None, r                    # the whole target; the caller truncates to the guest buffer
        elif t[1] in ("stat", "lstat"):
            st = os.stat(f(t[2])) if t[1] == "stat" else os.lstat(f(t[2]))
            ft = 3 if stat.S_ISDIR(st.st_mode) else 4 if stat.S_ISREG(st.st_mode) else 2 if stat.S_ISCHR(st.st_mode) else 7 if stat.S_ISLNK(st.st_mode) else 0
            return None, (ft, st.st_size)
        return None, None
    except OSError as e:
        return pyerrno.errorcode.get(e.errno, str(e.errno)), None


def ref_pathop(pm, kind, slots, paths, extra=None):
    """The property for one path call, written independently of the Lean model, in the answer format of
    `pathsdriver`: `errno N` (rejected before any host operation) or `host <op> <pathhex> …` (exactly this
    host operation).  slots: descriptor path bytes | "null" | "oob"."""
    def res(slot, p):
        return resolve_spec(pm, slot, p)
    if kind in ("mkdir", "rmdir", "unlink", "stat", "readlink"):
        if slots[0] in ("oob", "null"):
            return "errno 8"
        r = res(slots[0], paths[0])
        if r is None:
            return "errno 28"
        tail = {"mkdir": " 493", "readlink": f" {extra}"}.get(kind, "")
        if kind == "stat":
            # the property: the host operation corresponding to path_filestat_get is stat() when the SYMLINK_FOLLOW
            # bit (bit 0) of the lookup flags is set and lstat() when it is clear
            kind = "stat" if (extra or 0) & 1 else "lstat"
            tail = ""
        return f"host {kind} {wp.hexs(r)}{tail}"
    if kind == "rename":
        if "oob" in slots:
            return "errno 8"
        if slots[0] == "null":
            return "errno 8"
        r1 = res(slots[0], paths[0])
        if r1 is None:
            return "errno 28"
        if slots[1] == "null":
            return "errno 8"
        r2 = res(slots[1], paths[1])
        if r2 is None:
            return "errno 28"
        return f"host rename {wp.hexs(r1)} {wp.hexs(r2)}"
    if kind == "symlink":
        tgt = extra
        if slots[0] == "oob":
            return "errno 8"
        if len(tgt) >= pm:
            return "errno 28"
        if slots[0] == "null":
            return "errno 8"
        r = res(slots[0], paths[0])
        if r is None:
            return "errno 28"
        return f"host symlink {wp.hexs(cstr(tgt))} {wp.hexs(r)}"
    raise ValueError(kind)


def readlink_frame(chk, drv, broken, rt, bl, target, ename, mline, host_op):
    """path_readlink answer `errno n hex(memory before the path) pathK` in the harness layout
    [0,4) length cell | [4,16) guard | [16,16+bl) buffer | 8 guard bytes | path.  Required: on success the first
    min(|target|, bl) bytes of the target in the buffer and the length in the cell; every other byte untouched
    (exact fit and truncation included); on failure nothing written at all."""
    if len(rt) < 4:
        return
    exp = bytearray(b"\xaa" * (24 + bl))
    if target is not None:
        n = min(len(target), bl)
        exp[16:16 + n] = target[:n]
        exp[0:4] = struct.pack("<I", n)
    got = wp.unhexs(rt[2])
    if got != bytes(exp) or rt[3] != "path1":
        diff = [i for i in range(min(len(got), len(exp))) if got[i] != exp[i]]
        outside = [i for i in diff if not (16 <= i < 16 + (min(len(target), bl) if target is not None else 0)) and not (i < 4 and target is not None)]
        where = (f"byte {outside[0] - 16 - bl} past the end of the {bl}-byte buffer" if outside and outside[0] >= 16 + bl else
                 f"offset {outside[0] - 16} relative to the buffer" if outside else "inside the buffer / length cell") if diff else "the guest path bytes behind the buffer"
        key = "pathop-readlink-writes-outside-buffer" if (outside or rt[3] != "path1") else "pathop-readlink-wrong-content"
        chk.violation(key, f"path_readlink with a {bl}-byte guest buffer and link target {target!r} ({'exact fit' if target is not None and len(target) == bl else 'truncated' if target is not None and len(target) > bl else 'shorter than the buffer' if target is not None else 'failing call'}): guest memory differs from the required image at {where} "
                           f"(got {got[max(0, 12):16 + bl + 8].hex()} for guard|buffer|guard, required {bytes(exp)[12:16 + bl + 8].hex()})",
                      {"kind": "pathop-readlink", "request": mline, "host_op": host_op, "bufLen": bl, "target": target.hex() if target is not None else None,
                       "real": " ".join(rt)[:400], "expected_memory": bytes(exp).hex()[:400]}, True)
    if drv is not None:
        arg = wp.hexs(target) if target is not None else f"err:{ename}"
        mo = drv.batch([f"rlmem {bl} {arg}"])[0].split()
        if target is None:
            mo = mo[:1] + ["0"] + mo[2:]
        if mo[1:3] != rt[1:3] or (target is not None and mo[0] != rt[0]):
            broken.append({"kind": "correspondence", "msg": f"path_readlink memory effect, buffer {bl}, target {target!r}: real `{' '.join(rt[:3])[:120]}` model `{' '.join(mo)[:120]}`"})


def make_po_tree(R):
    os.makedirs(os.path.join(R, "sub", "deep"))
    os.makedirs(os.path.join(R, "full"))
    open(os.path.join(R, "full", "x"), "w").close()
    open(os.path.join(R, "file1"), "w").write("hello")
    open(os.path.join(R, "sub", "file2"), "w").write("w")
    os.symlink("file1", os.path.join(R, "lnk"))
    os.symlink("sub", os.path.join(R, "dlnk"))               # link to a directory
    os.symlink("w2c2verif-nowhere", os.path.join(R, "dang"))  # dangling
    os.symlink("lnk", os.path.join(R, "chain"))              # link to a link


def run_pathops(chk, h, scratch, pm, tier, broken, model_ok):
    rng = chk.rng
    values = wasi_errno_values()
    drv = vlib.DriverProc(PATHSDRIVER)
    nseq = 6 if tier == "quick" else 40
    nops = 60 if tier == "quick" else 150
    hist = {}
    errs = {}
    total = 0
    for si in range(nseq):
        base = os.path.join(scratch, f"po{si}")
        A = os.path.join(base, "A", "root")
        B = os.path.join(base, "B", "root")
        for R in (A, B):
            make_po_tree(R)
        seq_log = []            # (request to the real harness, reference answer) of this sequence, for replays

        def pv(key, what, obj, found=True):
            o = dict(obj)
            o.update({"history": list(seq_log), "root": A, "preopens": [x.hex() for x in dirs]})
            chk.violation(key, what, o, found)
        Ab, Bb = A.encode(), B.encode()
        a2b = lambda p: (Bb + p[len(Ab):]) if p.startswith(Ab) else p
        if h.ask("reset") != "ok":
            raise RuntimeError("harness reset failed")
        slots = {}
        dirs = [Ab, Ab + b"/", Ab + b"/sub", Ab + b"/sub/"]
        for dpath in dirs:
            a = h.ask("preopen " + wp.hexs(dpath))
            slots[int(a.split()[1])] = dpath
        fds = sorted(slots)
        names = [b"n1", b"n2", b"file1", b"sub", b"sub/file2", b"sub/deep", b"full", b"lnk", b"sub/../n3", b"../root/n4",
                 b"nodir/x", b"file1/x", b"l2", b"dlnk", b"dang", b"chain", b"dlnk/file2", b"dlnk/deep", b"chain/x", b"dang/x", b"sub/n5", b"deep", b"file2", b"x" * 300, b"a\0b", b"./n6", b"sub//n7"]
        last_req = [None]

        def ask(line):
            last_req[0] = line
            return h.ask(line)
        for oi in range(nops):
            kind = rng.choice(["mkdir", "mkdir", "rmdir", "rmdir", "unlink", "unlink", "rename", "rename", "symlink", "readlink", "stat", "stat"])
            def pick_fd():
                r = rng.random()
                if r < 0.04:
                    return rng.choice([0, 1, 2]), "null"
                if r < 0.07:
                    return 999, "oob"
                fd = rng.choice(fds)
                return fd, wp.hexs(slots[fd])
            def pick_path():
                r = rng.random()
                if r < 0.03:
                    return b""
                nm = rng.choice(names)
                if r < 0.15:
                    return Ab + b"/" + nm            # absolute guest path (inside the tree)
                if r < 0.18:
                    return b"/w2c2verif-nonexistent/" + nm
                if r < 0.22:
                    # relative path just below / at / above the PATH_MAX guard of this descriptor
                    return None
                return nm
            fd, slot = pick_fd()
            sl = lambda x: x if x in ("null", "oob") else wp.unhexs(x)
            p = pick_path()
            directed_bl = None
            if oi < 7:      # directed: the link `lnk` -> "file1" (5 bytes) read with shorter, exact-fit and longer buffers
                kind, fd, slot, p = "readlink", fds[0], wp.hexs(slots[fds[0]]), b"lnk"
                directed_bl = [5, 4, 6, 1, 3, 64, 5][oi]
            stat_flags = rng.choice([0, 0, 1, 1, 2, 3])
            if 7 <= oi < 17:   # directed: stat through symbolic links (last / inner component, dangling, chain), with and without SYMLINK_FOLLOW
                kind, fd, slot = "stat", fds[0], wp.hexs(slots[fds[0]])
                p, stat_flags = [(b"lnk", 1), (b"lnk", 0), (b"dlnk", 1), (b"dang", 1), (b"dang", 0), (b"chain", 1), (b"dlnk/file2", 1), (b"dlnk/file2", 0), (b"chain", 0), (b"dlnk", 0)][oi - 7]
            if p is None:
                dl = len(wp.unhexs(slot)) if slot not in ("null", "oob") else 10
                p = b"y" * max(1, pm - dl - 1 + rng.choice([-2, -1, 0, 1]))
            extra = rng.choice([b"", b"", b"TRAILING-GARBAGE"])   # bytes behind the path belong to the NEXT object only for rename/symlink
            if kind in ("mkdir", "rmdir", "unlink", "stat"):
                real = ask(f"{kind} {fd} {wp.hexs(p)} {len(p)}" + (f" {stat_flags}" if kind == "stat" else ""))
                mline = f"pop {pm} {kind} {slot} {wp.hexs(p)} {len(p)}" + (f" {stat_flags}" if kind == "stat" else "")
                ref = ref_pathop(pm, kind, [sl(slot)], [p], stat_flags if kind == "stat" else None)
            elif kind == "readlink":
                bl = directed_bl if directed_bl is not None else rng.choice([0, 1, 3, 4, 5, 6, 9, 64, 5000])
                real = ask(f"readlink {fd} {wp.hexs(p)} {len(p)} {bl}")
                mline = f"pop {pm} readlink {slot} {wp.hexs(p)} {len(p)} {bl}"
                ref = ref_pathop(pm, kind, [sl(slot)], [p], bl)
            elif kind == "rename":
                fd2, slot2 = pick_fd()
                p2 = pick_path() or b"n9"
                real = ask(f"rename {fd} {wp.hexs(p)} {len(p)} {fd2} {wp.hexs(p2)} {len(p2)}")
                mline = f"poprename {pm} {slot} {wp.hexs(p)} {len(p)} {slot2} {wp.hexs(p2)} {len(p2)}"
                ref = ref_pathop(pm, kind, [sl(slot), sl(slot2)], [p, p2])
            else:
                tgt = rng.choice([b"file1", b"../x", b"", b"t" * (pm - 1), b"t" * pm, b"sub/file2"])
                real = ask(f"symlink {wp.hexs(tgt)} {len(tgt)} {fd} {wp.hexs(p)} {len(p)}")
                mline = f"popsymlink {pm} {wp.hexs(tgt)} {len(tgt)} {slot} {wp.hexs(p)} {len(p)}"
                ref = ref_pathop(pm, kind, [sl(slot)], [p], tgt)
            del extra
            total += 1
            hist[kind] = hist.get(kind, 0) + 1
            # `ref` (Python statement of the property) decides violations; the Lean model is compared with it
            # and thereby with the real code (a model mismatch is a broken tie, never a violation by itself)
            mm = drv.batch([mline])[0] if model_ok else None
            chk.count_case((si, oi, mline[:80]), True, {"op": mline[:100], "real": real[:60], "model": (mm[:80] if mm else "unavailable (extractor or driver build failed)"), "reference": ref[:80]} if total % 97 == 1 else None)
            if mm is not None and mm != ref:
                broken.append({"kind": "correspondence", "msg": f"path-call model vs reference statement: {mline[:100]}: model `{mm[:80]}` reference `{ref[:80]}` real `{real[:40]}`"})
            m = ref
            seq_log.append((last_req[0], ref))
            if real.startswith("crash"):
                pv(f"pathop-{kind}-crash", f"path call {kind} crashed in the real code: {real[:120]}",
                              {"kind": "pathop", "request": mline, "real": real}, True)
                h.ask("reset")
                for dpath in dirs:
                    h.ask("preopen " + wp.hexs(dpath))
                continue
            rt = real.split()
            if m.startswith("errno "):
                if kind == "readlink":
                    readlink_frame(chk, None, broken, rt, bl, None, None, mline, m)
                exp = m.split()[1]
                errs["early:" + exp] = errs.get("early:" + exp, 0) + 1
                if rt[0] != exp:
                    guest = [p] + ([p2] if kind == "rename" else [])
                    if any(b"\0" in g for g in guest):
                        pv("path-embedded-nul-truncated",
                                      f"{kind} with a guest path containing a NUL byte ({p!r}) is not rejected (returns {rt[0]}): the host operation acts on the path cut at the NUL, not on the resolved path",
                                      {"kind": "pathop-nul", "request": mline, "real": real}, True)
                    else:
                        pv(f"pathop-{kind}-not-rejected" if exp in ("8", "28") and rt[0] == "0" else f"pathop-{kind}-wrong-early-errno",
                                  f"{kind}: the property requires errno {exp} without any host operation, the real code returned `{real[:60]}`",
                                  {"kind": "pathop", "request": mline, "real": real, "expected": ref}, True)
                continue
            ename, extra2 = twin_exec(m, a2b)
            if kind == "stat":
                # the twin performed the operation the property names for these flags (`m`: stat with SYMLINK_FOLLOW,
                # lstat without); does the real answer instead look like the OTHER of the two?
                named = m.split()[1]
                other = "lstat" if named == "stat" else "stat"
                en_o, ex_o = twin_exec(m.replace(f"host {named} ", f"host {other} ", 1), a2b)
                differs = (en_o, ex_o) != (ename, extra2)
                like_other = differs and ((en_o is None and rt[0] == "0" and len(rt) >= 4 and (int(rt[1]), int(rt[2])) == ex_o)
                                          or (en_o is not None and rt[0] == str(reference_wasi_errno(en_o, values))))
                if differs:
                    hist[f"stat-flags{stat_flags & 1}-link-last"] = hist.get(f"stat-flags{stat_flags & 1}-link-last", 0) + 1
                if like_other:
                    desc = lambda en, ex: ("errno " + en) if en else "filetype, size = " + str(ex)
                    if named == "stat":
                        key, what = "pathop-stat-does-not-follow-symlink", (
                            f"path_filestat_get WITH the SYMLINK_FOLLOW lookup flag on {p!r} (last component is a symbolic link): real `{real[:60]}` is what lstat() reports "
                            f"for the link itself ({desc(en_o, ex_o)}); stat() of the resolved path — the operation the property names — gives {desc(ename, extra2)}")
                    else:
                        key, what = "pathop-stat-follows-symlink-without-flag", (
                            f"path_filestat_get WITHOUT the SYMLINK_FOLLOW lookup flag (lookupFlags = {stat_flags}) on {p!r} (last component is a symbolic link): real `{real[:60]}` is what "
                            f"stat() reports for the link's target ({desc(en_o, ex_o)}); lstat() of the resolved path — the operation the property names, what a guest's lstat() asks for — gives {desc(ename, extra2)}")
                    pv(key, what, {"kind": "pathop-stat-symlink", "request": mline, "guest_path": p.hex(), "lookup_flags": stat_flags, "real": real,
                                   "expected": ("errno " + ename) if ename else str(extra2), "host_op": m}, True)
                    continue
            if ename is None:
                exp_model = "0"
                exp_ref = "0"
            else:
                exp_model = drv.batch([f"werrno {ename}"])[0] if model_ok else None
                refe = reference_wasi_errno(ename, values)
                exp_ref = str(refe) if refe is not None else (exp_model or "28")
            errs[(ename or "ok")] = errs.get((ename or "ok"), 0) + 1
            if rt[0] != exp_ref:
                if rt[0] == exp_model:
                    pv(f"errno-{ename}-untranslated",
                                  f"host error {ename} of {m.split()[1]} is returned as WASI errno {rt[0]} (the default EINVAL) although WASI defines {ename[1:]} = {exp_ref}: wasiErrno() has no case for {ename}",
                                  {"kind": "pathop-errno", "request": mline, "host_op": m, "host_errno": ename, "real": real, "expected": exp_ref}, True)
                else:
                    pv(f"pathop-{kind}-wrong-errno-{ename or 'ok'}",
                                  f"{kind}: performing `{m[:120]}` directly gives {ename or 'success'} (WASI {exp_ref}); the real call returned `{real[:60]}`",
                                  {"kind": "pathop", "request": mline, "real": real, "expected": exp_ref, "host_op": m}, True)
            if m.split()[1] == "readlink":
                readlink_frame(chk, drv if model_ok else None, broken, rt, bl, extra2 if ename is None else None, ename, mline, m)
            if m.split()[1] in ("stat", "lstat"):
                if rt[-1] != "frame1":
                    pv("pathop-stat-writes-outside-buffer", f"path_filestat_get wrote outside its 64-byte filestat buffer (or wrote although it failed): `{real[:80]}`",
                                  {"kind": "pathop", "request": mline, "real": real, "expected": "frame1", "host_op": m}, True)
                if ename is None and (len(rt) < 4 or (int(rt[1]), int(rt[2])) != extra2):
                    pv("pathop-stat-wrong-result", f"path_filestat_get: real `{real[:80]}`, {m.split()[1]} of the resolved path gives (filetype, size) = {extra2}",
                                  {"kind": "pathop", "request": mline, "real": real, "expected": str(extra2), "host_op": m}, True)
        sa, sb = snapshot(os.path.join(base, "A")), snapshot(os.path.join(base, "B"))
        if sa != sb:
            diff = sorted(set(sa.items()) ^ set(sb.items()))[:6]
            pv("pathops-tree-differs", f"after {nops} path calls the tree differs from the tree obtained by performing the named POSIX operation on the resolved path: {diff}",
                          {"kind": "pathop-tree", "diff": [str(x) for x in diff]}, True)
    chk.coverage["pathops"] = {"sequences": nseq, "ops": total, "by_call": hist, "host_results": {str(k): v for k, v in sorted(errs.items(), key=lambda x: str(x[0]))}}


# ----------------------------------------------------------------------------- entry points

def run(tier):
    chk = vlib.Check(PROP, tier)
    chk.coverage["trusted_base"] = list(vlib.GLOBAL_TRUSTED) + [
        "Spec/Dir.lean: telldir/seekdir positions of an unmodified directory (LocOK) — validated against the kernel for every generated directory",
        "host calls mkdir/rmdir/unlink/rename/symlink/readlink/stat/opendir/readdir behave as POSIX specifies; memcpy/strcpy/strlen as ISO C",
        "tools/extract/gen_wasipath.py (guards, offsets, cookie test, errno/clock tables) — every extracted item is exercised by the correspondences",
        "PATH_MAX is a parameter of every theorem; the tie runs with the platform's value (4096)",
    ]
    chk.assumptions = ["size_t is 64 bits (strlen + U32 + 1 cannot wrap); on ILP32 hosts `totalLength + pathLength + 1` can wrap for pathLength near 2^32 (outside the model)",
                       "the lstat fallback of fd_readdir for DT_UNKNOWN is modelled with its PATH_MAX obligation but cannot be reached on tmpfs/ext4/overlayfs (d_type always set)"]
    pr = prove(chk, MODULES, GENS)
    broken = [e for e in pr["errors"]] if not pr["build_ok"] else []
    ok, out = vlib.lake_build(["pathsdriver"])
    model_ok = ok and pr["gen_ok"]
    if not ok:
        broken.append({"kind": "driver-build", "msg": out[-2000:]})
    chk.coverage["rule"] = ("a case = one request line answered by both the real wasi.c (ASan+UBSan harness) and the Lean model: "
                            "resolvePath (directory, guest path at end of memory, length) | one client listing of a generated directory with one buffer size | one path call of an op sequence; "
                            "non-trivial = distinct request; the property itself is additionally evaluated on the real answers by an independent Python reference")
    with vlib.scratch("c14-") as d:
        repo = vlib.copy_repo(os.path.join(d, "repo"))
        exe = wp.build(repo, d)
        h = wp.Harness(exe)
        pm = int(h.ask("pathmax"))
        chk.coverage["PATH_MAX"] = pm
        run_resolve(chk, exe, pm, tier, broken, model_ok)
        run_readdir(chk, h, d, pm, tier, broken, model_ok)
        run_pathops(chk, h, d, pm, tier, broken, model_ok)
        chk.coverage["harness_crashes"] = h.crashes
        h.close()
    chk.coverage["traces_validated_against_impl"] = chk.coverage["evaluations"]
    if tier == "thorough" and pr["build_ok"]:
        for m, msg in leanchecker(chk, MODULES):
            broken.append({"kind": "leanchecker", "msg": f"{m}: {msg}"})
    if broken and not chk.violations and not chk.known_hit:
        first = broken[0]
        chk.violation("tie-or-proof-broken",
                      "model/code tie or proof broken (NOT a demonstrated defect of the real code: every property check on the real answers passed): "
                      + ", ".join(sorted({b.get("kind", "?") for b in broken})) + " — first: " + str(first.get("msg", first))[:300],
                      {"broken": broken[:20]}, False)
    elif broken:
        chk.notes.append({"broken": broken[:10]})
    return chk.finish()


def replay(path):
    import json
    r = json.load(open(path))
    with vlib.scratch("c14r-") as d:
        repo = vlib.copy_repo(os.path.join(d, "repo"))
        exe = wp.build(repo, d)
        h = wp.Harness(exe)
        pm = int(h.ask("pathmax"))
        kind = r.get("kind")
        if kind == "resolvePath":
            out = h.ask(r["line"])
            print(f"replay `{r['line'][:100]}`: real `{out}`, property requires `{r['expected']}`")
            rc = 0 if out == r["expected"] else 1
        elif kind == "readdir-cookie0":
            # list a fresh directory of 5 files, then list again from cookie 0 on the same descriptor
            root = os.path.join(d, "dir")
            os.mkdir(root)
            for i in range(5):
                open(os.path.join(root, f"f{i}"), "w").close()
            s = RdSession(h, root.encode())
            first, _, _ = listing(s, 300)
            second, _, _ = listing(s, 300, 0)
            print(f"replay: first listing {len(first)} entries; second listing from cookie 0 on the same descriptor {len(second)} entries (must be {len(first)})")
            rc = 0 if first == second and len(first) == 7 else 1
        elif kind == "readdir":
            # same names (as regular files), same buffer size: full listing, then resume from every returned cookie
            root = readdir_replay_dir(os.path.join(d, "dir"), r.get("names", []))
            loc0, ents, seek = parse_dirspec(h.ask("dirspec " + wp.hexs(root)))
            truth = [(e[3], e[1], e[0], DT2WASI.get(e[2], 0)) for e in ents]
            bl = r.get("bufLen", 300)
            s = RdSession(h, root)
            recs, stuck, bad = listing(s, bl)
            ok = not bad and not stuck and recs == truth
            print(f"replay: listing of {len(truth)} entries with buffer {bl}: " + ("exactly once, in order" if ok else f"FAILS ({bad or len(recs)})"))
            for k in range(len(truth)):
                recs2, stuck2, bad2 = listing(s, bl, truth[k][0])
                if bad2 or stuck2 or recs2 != truth[k + 1:]:
                    print(f"replay: resume from the cookie of entry {k}: FAILS ({bad2 or len(recs2)})")
                    ok = False
            rc = 0 if ok else 1
        elif kind == "readdir-errno":
            # a healthy directory of 3 files listed inside a history of failing calls / non-zero errno on entry
            root = os.path.join(d, "dir")
            os.mkdir(root)
            for i in range(3):
                open(os.path.join(root, f"f{i}"), "w").close()
            rc = 0
            for phase in range(len(RdSession.POISON)):
                for bl in (300, 40):
                    s = RdSession(h, root.encode(), phase=phase)
                    recs, stuck, bad = listing(s, bl)
                    ok = not bad and not stuck and len(recs) == 5
                    for k in range(len(recs)):                       # resume from every returned cookie, then list again from cookie 0
                        r2, st2, bad2 = listing(s, bl, recs[k][0])
                        ok = ok and not bad2 and not st2 and r2 == recs[k + 1:]
                        bad = bad or bad2
                    r3, st3, bad3 = listing(s, bl, 0)
                    ok = ok and not bad3 and r3 == recs
                    print(f"replay: buffer {bl}: listing, resume from every cookie and re-listing from cookie 0 on one descriptor, errno-on-entry history {[c[2] for c in s.calls][:8]}…: " + ("ok" if ok else f"FAILS: {(bad or bad3 or recs)!s:.100}"))
                    if not ok:
                        rc = 1
                    s.close()
        elif kind in ("pathop", "pathop-tree") and r.get("history"):
            # re-create the initial tree at a path of the SAME length, re-issue the recorded calls of the sequence to the
            # real code and perform the operation the property names on a twin tree; compare errno and the trees
            oldA = r["root"]
            base_len = len(oldA) - len("/A/root")
            newbase = os.path.join(d, "p")
            newbase = newbase + "p" * (base_len - len(newbase))
            if len(newbase) != base_len:
                print(f"replay: cannot build a scratch path of length {base_len} under {d}")
                return 1
            A, B = os.path.join(newbase, "A", "root"), os.path.join(newbase, "B", "root")
            make_po_tree(A)
            make_po_tree(B)
            Ab, Bb, oAb = A.encode(), B.encode(), oldA.encode()
            a2b = lambda p: (Bb + p[len(Ab):]) if p.startswith(Ab) else p
            h.ask("reset")
            for hx in r["preopens"]:
                h.ask("preopen " + wp.hexs(bytes.fromhex(hx).replace(oAb, Ab)))
            values = wasi_errno_values()
            rc = 0
            for req, ref in r["history"]:
                req2 = req.replace(oAb.hex(), Ab.hex())
                ref2 = ref.replace(oAb.hex(), Ab.hex())
                out = h.ask(req2).split()
                if ref2.startswith("errno "):
                    exp = ref2.split()[1]
                else:
                    en, _ = twin_exec(ref2, a2b)
                    exp = "0" if en is None else str(reference_wasi_errno(en, values) or 28)
                if out[0] != exp:
                    print(f"replay: `{req2[:90]}` returns {out[0]}; the operation the property names (`{ref2[:90]}`) gives {exp}")
                    rc = 1
            sa, sb = snapshot(os.path.join(newbase, "A")), snapshot(os.path.join(newbase, "B"))
            if sa != sb:
                print(f"replay: after the {len(r['history'])} recorded calls the tree differs from the twin: {sorted(set(sa.items()) ^ set(sb.items()))[:4]}")
                rc = 1
            if rc == 0:
                print(f"replay: {len(r['history'])} recorded path calls: every errno and the final tree agree with the operations the property names")
        elif kind == "pathop-readlink":
            root = os.path.join(d, "A", "root")
            os.makedirs(root)
            os.symlink("file1", os.path.join(root, "lnk"))
            h.ask("reset")
            fd = h.ask("preopen " + wp.hexs(root.encode())).split()[1]
            rc = 0
            for bl in (64, 6, 5, 4, 1):
                out = h.ask(f"readlink {fd} {wp.hexs(b'lnk')} 3 {bl}").split()
                exp = bytearray(b"\xaa" * (24 + bl))
                n = min(5, bl)
                exp[16:16 + n] = b"file1"[:n]
                exp[0:4] = struct.pack("<I", n)
                ok = len(out) == 4 and out[0] == "0" and wp.unhexs(out[2]) == bytes(exp) and out[3] == "path1"
                print(f"replay: path_readlink of a link to \"file1\" into a {bl}-byte buffer: guard|buffer|guard = {wp.unhexs(out[2])[12:].hex() if len(out) > 2 else out} " + ("ok" if ok else f"— differs from the required {bytes(exp)[12:].hex()}"))
                if not ok:
                    rc = 1
        elif kind == "pathop-stat-symlink":
            root = os.path.join(d, "A", "root")
            os.makedirs(os.path.join(root, "sub"))
            open(os.path.join(root, "file1"), "w").write("hello!!")
            os.symlink("file1", os.path.join(root, "lnk"))
            os.symlink("sub", os.path.join(root, "dlnk"))
            os.symlink("w2c2verif-nowhere", os.path.join(root, "dang"))
            h.ask("reset")
            fd = h.ask("preopen " + wp.hexs(root.encode())).split()[1]
            rc = 0
            # WASI file types: 3 directory, 4 regular file, 7 symbolic link; a link's size is the length of its target text
            for name, fl, exp in ((b"lnk", 1, "0 4 7"), (b"dlnk", 1, "0 3"), (b"dang", 1, "44"),
                                  (b"lnk", 0, "0 7 5"), (b"dlnk", 0, "0 7 3"), (b"dang", 0, "0 7 17"), (b"file1", 0, "0 4 7")):
                out = h.ask(f"stat {fd} {wp.hexs(name)} {len(name)} {fl}")
                ok = out.startswith(exp + " ") or out == exp
                print(f"replay: path_filestat_get(lookupFlags={fl}{' = SYMLINK_FOLLOW' if fl else ''}, {name.decode()!r}): real `{out}` — required to start with `{exp}` "
                      f"(errno [filetype size]: {'the link TARGET, NOENT for a dangling link' if fl else 'the link ITSELF'}) " + ("ok" if ok else "FAILS"))
                if not ok:
                    rc = 1
        elif kind == "pathop-errno":
            root = os.path.join(d, "A", "root")
            os.makedirs(os.path.join(root, "full"))
            open(os.path.join(root, "full", "x"), "w").close()
            h.ask("reset")
            fd = h.ask("preopen " + wp.hexs(root.encode())).split()[1]
            if r.get("host_errno") == "ENAMETOOLONG":
                out = h.ask(f"mkdir {fd} {wp.hexs(b'x' * 300)} 300")
                print(f"replay: path_create_directory with a 300-byte name component returns {out} (WASI NAMETOOLONG = 37, INVAL = 28)")
                rc = 0 if out == "37" else 1
            else:
                out = h.ask(f"rmdir {fd} {wp.hexs(b'full')} 4")
                print(f"replay: path_remove_directory on a non-empty directory returns {out} (WASI NOTEMPTY = 55, INVAL = 28)")
                rc = 0 if out == "55" else 1
        elif kind == "pathop-nul":
            root = os.path.join(d, "A", "root")
            os.makedirs(root)
            h.ask("reset")
            fd = h.ask("preopen " + wp.hexs(root.encode())).split()[1]
            out = h.ask(f"mkdir {fd} {wp.hexs(b'a' + bytes([0]) + b'b')} 3")
            made = os.path.isdir(os.path.join(root, "a"))
            print(f"replay: path_create_directory(\"a\\0b\") returns {out}; directory \"a\" created: {made} (the call must not act on a path cut at the NUL)")
            rc = 1 if (out == "0" and made) else 0
        else:
            print("replay: nothing to run for this record (proof/tie breakage): " + json.dumps(r.get("broken", ""))[:600])
            rc = 1
        h.close()
    return rc
