"""C10 — the translator is total and memory-safe on valid modules and on truncated files.

Obligations: theorems of Props/C10.lean (which undefined operations the reader model can reach at all, on ANY
byte string; `sprintf_fits` for every fixed stack buffer of stringbuilder.c / c.c regenerated into Gen/Reader;
`filename_fits`; counterexamples for the buffers/sites that do overflow on the pinned tree).
Tie / search: the REAL translator built with -fsanitize=address,undefined -fno-sanitize-recover=all (gcc and
clang; plus a recovering gcc build that lists every UBSan site instead of stopping at the first) runs on
  * valid wasmgen modules of every profile (incl. `names`: bytes >= 0x80, quotes, long names) x option combinations,
  * hand-built minimal witnesses of the suspected defects (DESIGN §6 #5-#8 and the 9-byte i64 LEB),
  * EVERY truncation point 0 < k < len of small modules,
  * modules that make the translator reserve many array slots at once / grow its arrays far (harness/reserve_many.py:
    name sections naming 9..300 functions read under -g, deep operand stacks, deep nesting, large br_table, hundreds
    of types/imports/globals/exports/segments) x option sets,
  * module / REFERENCE pairs for -r (harness/ref_modules.py), the dead-code family (harness/dead_code.py), and data-segment modules
    (empty / all-zero / passive segments; tools/checks/initmem.py generators + minimal ones) under EVERY -d mode x -p/-f/-t/-g/-m/-c,
and the verdict of `Model.Reader` (accept / reject / which undefined operation) is compared with what the real
reader did.  The growable-array primitive itself (array.c/array.h, regenerated into Gen/Array and proved in
Props/C10Array) is additionally run in-process under ASan against `Model.Array` on reservation sequences.  A sanitizer report, a signal or an abort is real-side undefined behaviour: each distinct site is a
violation with a stable key and the smallest input that reaches it.
"""
import collections
import concurrent.futures
import json
import os
import re
import shutil
import signal
import subprocess

import vlib
import reader_dump as rd
import array_harness as ah
import reserve_many
import ref_modules
import dead_code
from common import prove, leanchecker
from vlib import log

PROP = "C10"
MODULES = ["W2c2Verif.Props.C10", "W2c2Verif.Props.C10Array", "W2c2Verif.Props.C10Writer", "W2c2Verif.Props.C10Blob"]
GENS = [("Reader", "gen_reader"), ("Array", "gen_array"), ("ImplWriter", "gen_implwriter"), ("BlobWriter", "gen_blobwriter")]
DATA_MODES = ("arrays", "gnu-ld", "sectcreate1", "sectcreate2")
DATA_EXTRA = [[], ["-p"], ["-f", "1"], ["-t", "2", "-f", "2"], ["-g", "-t", "1"], ["-p", "-m", "-f", "3", "-t", "4"], ["-c", "-t", "1"]]


def data_segment_modules(seed, tier):
    """[(label, wasm bytes)]: modules centred on data segments — EMPTY (active and passive), all-zero, passive between active ones,
    overlapping, offsets by global.get, memories defined / imported / shared — from tools/checks/initmem.py (directed + seeded) plus
    minimal hand-built ones with only empty segments."""
    import random
    import initmem
    import wasmgen.wasm_ast as A
    from wasmgen import encode
    I = A.Instr
    out = [("data:directed:" + name.replace(".json", ""), encode(m)) for name, _note, m, _imp, _calls in initmem.directed_modules()]

    def tiny(tag, segs, datacount=None):
        m = A.Module()
        m.types = [A.FuncType([], [A.I32])]
        m.mems = [A.Limits(1, 2)]
        m.datas = segs
        m.datacount = datacount
        m.funcs = [A.Function(0, [], [I("i32.const", 16), I("i32.load8_u", 0, 0)])]
        m.exports = [A.Export(b"ld", "func", 0)]
        out.append(("data:tiny:" + tag, encode(m)))
    tiny("one-empty-active", [A.DataSegment("active", b"", I("i32.const", 16), 0)])
    tiny("one-empty-passive", [A.DataSegment("passive", b"")], 1)
    tiny("empty-at-end-of-memory", [A.DataSegment("active", b"", I("i32.const", 65536), 0)])
    tiny("empty-first-then-data", [A.DataSegment("active", b"", I("i32.const", 0), 0), A.DataSegment("active", b"abc", I("i32.const", 16), 0)])
    tiny("data-then-empty-last", [A.DataSegment("active", b"abc", I("i32.const", 16), 0), A.DataSegment("active", b"", I("i32.const", 19), 0)])
    tiny("empty-passive-between", [A.DataSegment("active", b"ab", I("i32.const", 16), 0), A.DataSegment("passive", b""), A.DataSegment("active", b"cd", I("i32.const", 18), 0)], 3)
    tiny("many-empty", [A.DataSegment("active", b"", I("i32.const", k), 0, enc_flag=(0, 2)[k % 2]) for k in range(9)])
    tiny("all-zero", [A.DataSegment("active", bytes(40), I("i32.const", 8), 0)])
    for k, force in enumerate((["empty"], ["active", "empty", "active"], ["empty", "passive", "empty", "zero"], ["passive", "passive", "empty"],
                               ["zero", "empty", "overlap", "empty"])):
        for kind in ("defined", "imported") if tier == "quick" else ("defined", "imported", "shared", "shared-imported"):
            m, _imp, _calls = initmem.build_data_module(random.Random("c10-data:%d:%s" % (k, kind)), kind, force=force)
            out.append(("data:forced:%d:%s" % (k, kind), encode(m)))
    for spec in initmem.data_specs(seed, 10 if tier == "quick" else 150):
        out.append(("data:" + spec["id"], bytes.fromhex(spec["hex"])))
    return out
READERDRIVER = os.path.join(vlib.LEAN, ".lake", "build", "bin", "readerdriver")

SAN = ["-O1", "-g", "-fsanitize=address,undefined", "-fno-omit-frame-pointer"]
BUILDS = {
    "gcc-strict": ("gcc", SAN + ["-fno-sanitize-recover=all"]),
    "clang-strict": ("clang", SAN + ["-fno-sanitize-recover=all"]),
    "gcc-recover": ("gcc", SAN + ["-fsanitize-recover=undefined"]),
}
# ASan runs with its default interceptors (str*, mem*, printf family): the overlapping strcpy of
# dirname()/basename() results (fixed by /repo 4767b02) would abort every run again if it came back.
# Leak detection is off (the translator is a short-lived process that frees nothing on purpose).
ASAN_DEFAULT = "detect_leaks=0:allocator_may_return_null=1"
ASAN_LATER = ASAN_DEFAULT

# (sanitizer kind, function of the first w2c2 frame or file:line) -> stable finding key
KNOWN_SITES = [
    (r"strcpy-param-overlap", r"changeToOutputDirectory|wasmCWriteModule|main\.c:278|c\.c:6537", "strcpy-overlap-dirname-basename"),
    (r"stack-buffer-overflow", r"stringBuilderAppendCharHex|stringbuilder\.c:17\d", "hexescape-stack-overflow-stringBuilderAppendCharHex"),
    (r"stack-buffer-overflow", r"wasmCWriteFileEscaped", "hexescape-stack-overflow-wasmCWriteFileEscaped"),
    (r"ubsan", r"leb128\.h:172", "leb-i64-sign-extend-shift63"),
    (r"heap-buffer-overflow", r"wasmReadNameSection|wasmFunctionNamesRemoveDuplicates", "name-table-under-allocated"),
    (r"heap-buffer-overflow", r"wasmTypeStack|wasmLabel|Append", "array-slot-out-of-bounds"),
    (r"SEGV|null|ubsan", r"wasmFunctionNameEntryCompareNames|wasmFunctionNamesRemoveDuplicates|reader\.c:3[36]\d", "name-section-partial-strcmp-null"),
    (r"SEGV|null|ubsan", r"wasmCGetDebugLine|c\.c:25[5-8]\d", "debuglines-null-g-multithread"),
]


def parse_reports(stderr):
    """[(kind, site, message, in_reader)] — UBSan `file:line: runtime error` and ASan errors with the first frame
    inside w2c2/; `in_reader` says whether a reader.c function is on the reported stack."""
    out = []
    lines = stderr.splitlines()
    for i, ln in enumerate(lines):
        m = re.search(r"(\w+\.[ch]):(\d+):\d+: runtime error: (.*)", ln)
        if m:
            frames = []
            for fr in lines[i + 1:i + 30]:
                mm = re.match(r"\s*#\d+ 0x[0-9a-f]+ in (\w+)", fr)
                if mm:
                    frames.append(mm.group(1))
                elif frames or not fr.strip() or "runtime error" in fr:
                    break
            in_reader = any(f.startswith("wasmRead") or f.startswith("wasmModuleRead") or f.startswith("wasmFunctionName") for f in frames)
            out.append(("ubsan", f"{m.group(1)}:{m.group(2)}", m.group(3)[:100], in_reader))
            continue
        m = re.search(r"ERROR: AddressSanitizer: ([\w-]+)", ln)
        if m:
            kind = m.group(1)
            site = "?"
            frames = []
            for fr in lines[i + 1:i + 40]:
                mm = re.search(r"#\d+ 0x[0-9a-f]+ in (\w+) .*?/w2c2/(\w+\.[ch]):(\d+)", fr)
                if mm:
                    frames.append(mm.group(1))
                    if site == "?":
                        site = f"{mm.group(1)} {mm.group(2)}:{mm.group(3)}"
                if fr.startswith("SUMMARY"):
                    break
            in_reader = any(f.startswith("wasmRead") or f.startswith("wasmModuleRead") or f.startswith("wasmFunctionName") for f in frames)
            out.append((kind, site, ln.strip()[:140], in_reader))
    return out


def site_key(kind, site):
    for kpat, spat, key in KNOWN_SITES:
        if re.search(kpat, kind) and re.search(spat, site):
            return key
    return re.sub(r"[^A-Za-z0-9_.:-]+", "-", f"{kind}-{site}")[:90]


def run_case(exe, workdir, idx, data, opts, asan_opts=ASAN_LATER, outname="m.c", timeout=120, ref=None):
    sub = os.path.join(workdir, f"r{idx}")
    os.makedirs(sub, exist_ok=True)
    wasm = os.path.join(sub, "m.wasm")
    with open(wasm, "wb") as f:
        f.write(data)
    if ref is not None:                       # -r REFERENCE: the reference module next to the module
        with open(os.path.join(sub, "ref.wasm"), "wb") as f:
            f.write(ref)
        opts = list(opts) + ["-r", os.path.join(sub, "ref.wasm")]
    env = dict(os.environ)
    env["ASAN_OPTIONS"] = asan_opts
    env["UBSAN_OPTIONS"] = "print_stacktrace=1"
    try:
        p = subprocess.run([exe] + list(opts) + [wasm, os.path.join(sub, outname)], stdout=subprocess.PIPE, stderr=subprocess.PIPE,
                           env=env, timeout=timeout, cwd=sub)
        rc = p.returncode
        err = p.stderr.decode("latin-1")
    except subprocess.TimeoutExpired:
        rc, err = "timeout", ""
    shutil.rmtree(sub, ignore_errors=True)
    reports = parse_reports(err)
    sig = None
    if isinstance(rc, int) and rc < 0:
        try:
            sig = signal.Signals(-rc).name
        except ValueError:
            sig = str(-rc)
    return {"rc": rc, "signal": sig, "reports": reports, "stderr_tail": err[-600:]}


# ---------------------------------------------------------------------------------------------- witnesses

def witnesses():
    """Small hand-built valid modules, one per defect this check found on the pinned tree (all fixed in /repo:
    4767b02 152af65 19ca5d2 b750457 415f201): they run first and must stay clean — each fires again if its fix is
    reverted.  [(name, bytes, options, asan options)]"""
    import wasmgen.wasm_ast as A
    from wasmgen import encode
    out = []

    def base(nfuncs=1, body=None):
        m = A.Module()
        m.types = [A.FuncType([], [])]
        m.funcs = [A.Function(0, [], list(body or [])) for _ in range(nfuncs)]
        return m
    m = base()
    out.append(("any-module-default-asan-options", encode(m), [], ASAN_DEFAULT))
    # import whose name has bytes >= 0x80, called
    m = base(body=[A.Instr("call", 0)])
    m.imports = [A.Import(b"env", b"f\xc3\xa4", "func", 0)]
    out.append(("import-name-utf8-called", encode(m), ["-t", "1"], ASAN_LATER))
    # export name with bytes >= 0x80
    m = base()
    m.exports = [A.Export(b"\xc3\xa4", "func", 0)]
    out.append(("export-name-utf8", encode(m), ["-t", "1"], ASAN_LATER))
    # -g with two workers and one function per file
    m = base(nfuncs=2)
    out.append(("g-t2-f1", encode(m), ["-g", "-t", "2", "-f", "1"], ASAN_LATER))
    # -g with a name section naming only one of two functions
    m = base(nfuncs=2)
    payload = b"\x01" + bytes([1 + 1 + 1 + 1]) + b"\x01" + b"\x00" + b"\x01" + b"a"
    m.customs = [A.CustomSection(b"name", payload, 12)]
    out.append(("g-partial-name-section", encode(m), ["-g", "-t", "1"], ASAN_LATER))
    # i64.const whose shortest encoding has 9 bytes and the sign bit set
    m = base(body=[A.Instr("i64.const", -(1 << 60)), A.Instr("drop")])
    out.append(("i64-const-9-byte-negative", encode(m), ["-t", "1"], ASAN_LATER))
    return out


OPTION_SETS = [[], ["-p"], ["-m"], ["-g"], ["-f", "1"], ["-f", "3", "-p"], ["-t", "2"], ["-t", "4", "-f", "2"],
               ["-g", "-t", "2", "-f", "1"], ["-g", "-p", "-m"], ["-c"], ["-d", "gnu-ld"], ["-d", "sectcreate1", "-t", "1"],
               ["-g", "-t", "1", "-f", "2"], ["-t", "1"], ["-t", "3", "-g"], ["-p", "-d", "sectcreate2"], ["-f", "2", "-t", "2", "-d", "gnu-ld"],
               ["-g", "-t", "1", "-d", "sectcreate1"]]


def array_lines(rng, tier):
    """reservation sequences for `arr <itemSize> <length>...`: appends, single large reservations on an empty array,
    jumps far beyond 1.5x, shrinking requests, random mixes; element sizes of the real ARRAY_TYPE instances."""
    lines = []
    sizes = (1, 4, 8, 16, 24, 56)
    for sz in sizes:
        lines.append("arr %d %s" % (sz, " ".join(str(i) for i in range(1, 70))))           # Append by Append
        for first in (1, 2, 8, 9, 12, 13, 100, 4097):
            lines.append("arr %d %d %d %d" % (sz, first, first + 1, 3 * first + 5))           # reserve, append, jump
    for _ in range(60 if tier == "quick" else 1500):
        sz = rng.choice(sizes)
        n = rng.randint(1, 12)
        cur = 0
        seq = []
        for _ in range(n):
            kind = rng.random()
            if kind < 0.4:
                cur = cur + 1
            elif kind < 0.7:
                cur = cur + rng.randint(2, 40)
            elif kind < 0.9:
                cur = cur * rng.randint(2, 5) + rng.randint(0, 9)
            else:
                cur = max(0, cur - rng.randint(0, 20))
            cur = min(cur, 200000)
            seq.append(cur)
        lines.append("arr %d %s" % (sz, " ".join(map(str, seq))))
    return lines


def array_differential(chk, d, repo, broken):
    try:
        exe = ah.build(repo, d)
    except RuntimeError as e:
        broken.append({"kind": "harness-build", "msg": str(e)[-800:]})
        return
    lines = array_lines(chk.rng, chk.tier)
    real = ah.run(exe, lines)
    model = vlib.DriverProc(READERDRIVER).batch(lines, timeout=600)
    nmis = 0
    for ln, r, m in zip(lines, real, model):
        chk.count_case(("arr", ln), True, {"line": ln, "real": r[:120], "model": m[:120]} if nmis == 0 and ln.endswith(" 9 10 32") else None)
        if "OVERFLOW" in r or ":0" in r:
            # the real primitive returned true but the block is smaller than the capacity it reports / lost elements
            chk.violation("array-ensure-capacity-under-allocates",
                          "arrayEnsureCapacity (array.c) returns true but the block it leaves is smaller than the requested length "
                          "(ASan: heap-buffer-overflow when the reserved slots are written) or does not preserve the elements: `" + ln + "` -> `" + r + "`",
                          {"mode": "array", "line": ln, "real": r, "model": m,
                           "replay_cmd": "python3 tools/check.py C10 --replay <this file>"}, True)
        elif r != m:
            nmis += 1
            if nmis <= 3:
                broken.append({"kind": "correspondence", "msg": f"array: `{ln}` real `{r}` model `{m}`"})
    chk.coverage["array_sequences"] = len(lines)
    chk.coverage["array_mismatches"] = nmis


def model_verdicts(cases):
    """cases: [(data, debug)] -> ['ok' | 'err N' | 'ub reason']"""
    uniq = {}
    for b, dbg in cases:               # the same image is run under many option sets: ask the model once
        uniq.setdefault((b, dbg), len(uniq))
    lines = [rd.line_for(b, dbg, True) for (b, dbg) in uniq]
    out = vlib.DriverProc(READERDRIVER).batch(lines, timeout=1800)
    out = [x if not x.startswith("ok") else "ok" for x in out]
    return [out[uniq[(b, dbg)]] for b, dbg in cases]


def run(tier):
    chk = vlib.Check(PROP, tier)
    chk.coverage["trusted_base"] = list(vlib.GLOBAL_TRUSTED) + [
        "the enumeration of unchecked indexing / fixed buffers / frees in lean/W2c2Verif/Model/Obligations.md is by hand; it is "
        "validated by the AddressSanitizer/UBSan runs of the unmodified sources (every report outside the enumeration is a violation)",
        "printf's %u %i %llu %lli %X formats produce the digits Spec'd in Props/C10 (decimal/hex digit counts); %.9g/%.17g bounds are argued from the C standard's format, not from glibc's source",
        "calloc/realloc succeed or return NULL; libc internals are not modelled",
        "gcc 12 / clang 14 AddressSanitizer and UBSan as the oracle for memory errors and undefined operations",
    ]
    chk.assumptions = ["heap growth arithmetic (length + (capacity >> 1)) does not overflow size_t (below 2^63 elements)",
                       "output directory is writable; file-system refusals are outside the property"]
    pr = prove(chk, MODULES, GENS)
    broken = []
    if not pr["build_ok"]:
        broken += pr["errors"]
    ok, out = vlib.lake_build(["readerdriver"])
    if not ok:
        broken.append({"kind": "driver-build", "msg": out[-2000:]})
    chk.coverage["rule"] = ("a case is (file image, option list, instrumented build); valid images: wasmgen modules of all 8 profiles x option "
                            "sets from a fixed matrix (-p -m -g -f N -t N -c -d MODE) + 6 hand-built witnesses + reserve-many modules (name sections naming "
                            "9..300 functions dense/sparse/unordered/duplicate under -g, deep operand stacks, deep nesting + br_table, hundreds of "
                            "entities); array primitive: (element size, reservation sequence) vs Model.Array under ASan; truncated images: every "
                            "prefix 0<k<len of the modules <= 2 kB (quick) ; observed: exit status / signal / every ASan+UBSan report; "
                            "compared with Model.Reader's verdict (accept, reject, which undefined operation). Non-trivial = distinct case.")
    findings = {}      # key -> dict(smallest reproducer)
    site_hist = collections.Counter()
    outcome_hist = collections.Counter()
    model_hist = collections.Counter()

    refs = {}          # label -> reference module bytes (cases run with -r)

    def note_finding(key, what, data, opts, build, asan_opts, res, label=None):
        cur = findings.get(key)
        if cur is None or len(data) < len(cur["data"]):
            findings[key] = {"what": what, "data": data, "opts": list(opts), "build": build, "asan_options": asan_opts,
                             "rc": res["rc"], "signal": res["signal"], "reports": res["reports"][:4], "stderr_tail": res["stderr_tail"],
                             "ref": refs.get(label), "label": label}

    with vlib.scratch("c10-") as d:
        repo = vlib.copy_repo(os.path.join(d, "repo"))
        exes = {}
        with concurrent.futures.ThreadPoolExecutor(max_workers=3) as ex:
            futs = {name: ex.submit(rd.build_w2c2, repo, d, "w2c2_" + name.replace("-", "_"), cc, flags)
                    for name, (cc, flags) in BUILDS.items()}
            for name, f in futs.items():
                exes[name] = f.result()
        # ------------------------------------------------------------------ the array primitive, in-process
        if ok:
            array_differential(chk, d, repo, broken)
        # ------------------------------------------------------------------ case lists
        from wasmgen import PROFILES, encode, module_for
        valid = []        # (label, data, opts, asan_opts, build)
        for name, data, opts, ao in witnesses():
            for b in BUILDS:
                valid.append(("witness:" + name, data, opts, ao, b))
        for k, (label, data, optsets) in enumerate(reserve_many.modules(chk.rng, tier)):
            for j, opts in enumerate(optsets):
                valid.append(("reserve:" + label, data, opts, ASAN_LATER, ("gcc-strict", "clang-strict", "gcc-recover")[(k + j) % 3]))
        # -r REFERENCE: the writers work on a static and a dynamic ID list, both shorter than the module's function count
        npairs = 0
        for k, (label, data, ref, optsets) in enumerate(ref_modules.pairs(chk.rng, tier)):
            refs[label] = ref
            npairs += 1
            for j, opts in enumerate(optsets):
                valid.append((label, data, opts, ASAN_LATER, ("gcc-strict", "clang-strict", "gcc-recover")[(k + j) % 3]))
        chk.coverage["reference_pairs"] = npairs
        # unreachable code that is valid only on a polymorphic stack (block/loop/if inside dead code, pops from the empty stack, ...)
        dead_mods = {}
        ndead = ninvalid = 0
        try:
            from wasmgen import v8 as _v8
        except Exception:                       # pragma: no cover
            _v8 = None
        for k, (label, mod) in enumerate(dead_code.modules(chk.rng, tier)):
            data = encode(mod)
            if _v8 is not None and not _v8.validate(data):
                ninvalid += 1                   # a generator problem, not the translator's: skipped and reported in the evidence
                continue
            dead_mods[label] = mod
            ndead += 1
            osets = OPTION_SETS if tier == "thorough" else [OPTION_SETS[(k * 3 + j * 5) % len(OPTION_SETS)] for j in range(3)]
            for j, opts in enumerate(osets):
                valid.append((label, data, opts, ASAN_LATER, ("gcc-strict", "clang-strict", "gcc-recover")[(k + j) % 3]))
        chk.coverage["dead_code_modules"] = ndead
        chk.coverage["dead_code_functions"] = sum(len(m_.funcs) - 2 for m_ in dead_mods.values())
        chk.coverage["dead_code_modules_rejected_by_v8"] = ninvalid
        if ninvalid:
            chk.notes.append(f"dead-code generator produced {ninvalid} module(s) V8 rejects; they were skipped")
        # data segments (empty, all-zero, passive, ...) x EVERY -d mode x -p/-f/-t/-g/-m/-c: exit status 0, no report (seeded C10/8:
        # an EMPTY segment was reported as a write error by the blob writer of the external modes -> abort())
        ndata = nempty = 0
        for k, (label, data) in enumerate(data_segment_modules(chk.seed, tier)):
            if _v8 is not None and not _v8.validate(data):
                chk.notes.append(f"data-segment module {label} is rejected by V8; skipped")
                continue
            ndata += 1
            for mi, mode in enumerate(DATA_MODES):
                extras = DATA_EXTRA if tier == "thorough" else [DATA_EXTRA[(k + mi + j * 3) % len(DATA_EXTRA)] for j in range(2)]
                for j, extra in enumerate(extras):
                    valid.append((label, data, list(extra) + ["-d", mode], ASAN_LATER, ("gcc-strict", "clang-strict", "gcc-recover")[(k + mi + j) % 3]))
        chk.coverage["data_segment_modules"] = ndata
        chk.coverage["data_segment_modes"] = list(DATA_MODES)
        nmod = 4 if tier == "quick" else 30
        small = []
        for profile in PROFILES:
            for index in range(nmod if profile != "names" else nmod * 3):
                try:
                    data = encode(module_for(chk.seed, profile, index))
                except Exception as e:
                    chk.notes.append(f"wasmgen failed on {chk.seed}:{profile}:{index}: {e}")
                    continue
                label = f"{chk.seed}:{profile}:{index}"
                nopt = 3 if tier == "quick" else len(OPTION_SETS)
                osets = [OPTION_SETS[(index * 5 + j * 3 + len(profile)) % len(OPTION_SETS)] for j in range(nopt)]
                if ["-g", "-t", "2", "-f", "1"] not in osets and index == 0:
                    osets.append(["-g", "-t", "2", "-f", "1"])
                for j, opts in enumerate(osets):
                    build = ("gcc-strict", "clang-strict", "gcc-recover")[(index + j) % 3]
                    valid.append((label, data, opts, ASAN_LATER, build))
                if len(data) <= 2048:
                    small.append((label, data))
        trunc = []
        small.sort(key=lambda x: len(x[1]))
        budget = 6000 if tier == "quick" else 200000
        for label, data in small:
            if len(trunc) + len(data) > budget:
                continue
            for k in range(1, len(data)):
                trunc.append((f"{label}@{k}", data[:k], ["-t", "1"] if k % 5 else ["-g", "-t", "1"], ASAN_LATER,
                              "gcc-strict" if k % 2 else "clang-strict"))
        if tier == "thorough":
            # spec-suite modules: only those inside the supported feature set, i.e. which the translator itself
            # accepts in full (multi-value, reference types, ... make it print "unsupported" and abort())
            import glob
            cands = []
            for fpath in sorted(glob.glob(os.path.join(vlib.REPO, "tests", "gen", "*.wasm")))[:600]:
                data = open(fpath, "rb").read()
                if len(data) <= 400:
                    cands.append((fpath, data))
            with concurrent.futures.ThreadPoolExecutor(max_workers=min(14, (os.cpu_count() or 4))) as ex:
                full = list(ex.map(lambda t: run_case(exes["gcc-strict"], d, 10_000_000 + t[0], t[1][1], ["-t", "1"], ASAN_LATER),
                                   enumerate(cands)))
            nsup = 0
            for (fpath, data), res in zip(cands, full):
                if res["rc"] == 0 and not res["reports"]:
                    nsup += 1
                    valid.append((f"corpus:{os.path.basename(fpath)}", data, ["-t", "1"], ASAN_LATER, "clang-strict"))
                    for k in range(1, len(data)):
                        trunc.append((f"corpus:{os.path.basename(fpath)}@{k}", data[:k], ["-t", "1"], ASAN_LATER, "gcc-strict"))
            chk.coverage["corpus_modules_supported"] = f"{nsup}/{len(cands)}"
        allcases = [("valid",) + c for c in valid] + [("trunc",) + c for c in trunc]
        verdicts = model_verdicts([(c[2], "-g" in c[3]) for c in allcases]) if ok else [None] * len(allcases)
        with concurrent.futures.ThreadPoolExecutor(max_workers=min(14, (os.cpu_count() or 4))) as ex:
            results = list(ex.map(lambda t: run_case(exes[t[1][5]], d, t[0], t[1][2], t[1][3], t[1][4], ref=refs.get(t[1][1])), enumerate(allcases)))
        nmis = 0
        for (cls, label, data, opts, ao, build), res, mv in zip(allcases, results, verdicts):
            chk.count_case((cls, data, tuple(opts), build), True, None)
            flagged = bool(res["reports"]) or res["signal"] is not None or res["rc"] == "timeout"
            outcome_hist[f"{cls}/{'flagged' if flagged else 'rc=' + str(res['rc'])}"] += 1
            model_hist[f"{cls}/{(mv or '-').split(';')[0]}"] += 1
            keys = []
            for kind, site, msg, _inr in res["reports"]:
                k = site_key(kind, site)
                site_hist[k] += 1
                if k not in keys:
                    keys.append(k)
            if res["signal"] is not None and not keys:
                keys.append("signal-" + res["signal"])
            if res["rc"] == "timeout":
                keys.append("timeout")
            for k in keys:
                note_finding(k, "", data, opts, build, ao, res, label)
            if cls == "valid" and not flagged and res["rc"] != 0 and not (opts and opts[0] == "-d"):
                note_finding("valid-module-nonzero-exit", "", data, opts, build, ao, res, label)
            # ---- tie: the reader model's verdict vs what the real reader did
            if mv is None:
                continue
            reader_reports = [r for r in res["reports"] if r[3]]
            if mv.startswith("ub ") and cls in ("valid", "trunc"):
                # the model says the reader performs an undefined operation on a valid module or on a prefix of
                # one: that is the property failing (independently of whether this run made it visible)
                note_finding("model-ub-" + mv.split()[1] + "-on-" + ("valid-module" if cls == "valid" else "prefix"),
                             "", data, opts, build, ao, res)
            if mv.startswith("ub "):
                if not reader_reports and res["signal"] is None and "strcpy" not in str(res["reports"]):
                    nmis += 1
                    broken.append({"kind": "correspondence", "msg": f"model predicts `{mv}` for {label} {opts} but the instrumented reader reports nothing",
                                   "hex": data.hex()[:2000]})
            elif mv.startswith("err "):
                if flagged or res["rc"] != 1:
                    # an abort before the reader runs (strcpy overlap) is not a reader disagreement
                    if not any("strcpy" in r[0] for r in res["reports"]):
                        nmis += 1
                        broken.append({"kind": "correspondence", "msg": f"model rejects ({mv}) {label} {opts} but w2c2: rc={res['rc']} reports={res['reports'][:2]}",
                                       "hex": data.hex()[:2000]})
            else:
                if reader_reports:
                    nmis += 1
                    broken.append({"kind": "correspondence", "msg": f"model accepts {label} {opts} without undefined behaviour but the reader reports {reader_reports[:2]}",
                                   "hex": data.hex()[:2000]})
        # a finding on a dead-code module: reduce the failing input to ONE function of the family
        for key, f in list(findings.items()):
            mod = dead_mods.get(f.get("label"))
            if mod is None:
                continue
            for fi, fn in enumerate(mod.funcs[2:]):
                name = bytes(mod.exports[fi].name).decode()
                one = encode(dead_code.single(name, dead_code.VT[fn.type - 2], fn.body))
                r1 = run_case(exes[f["build"]], d, 20_000_000 + fi, one, f["opts"], f["asan_options"])
                k1 = [site_key(kk, ss) for kk, ss, _m, _r in r1["reports"]] or (["signal-" + r1["signal"]] if r1["signal"] else [])
                if key in k1:
                    f.update({"data": one, "rc": r1["rc"], "signal": r1["signal"], "reports": r1["reports"][:4], "stderr_tail": r1["stderr_tail"],
                              "label": f["label"] + ":" + name})
                    break
        chk.coverage["cases_valid"] = len(valid)
        chk.coverage["cases_truncated"] = len(trunc)
        chk.coverage["truncated_modules"] = len({c[0].split("@")[0] for c in trunc})
        chk.coverage["outcome_histogram"] = dict(outcome_hist)
        chk.coverage["model_verdict_histogram"] = dict(model_hist.most_common(30))
        chk.coverage["sanitizer_site_histogram"] = dict(site_hist)
        chk.coverage["reader_verdict_mismatches"] = nmis
        chk.coverage["traces_validated_against_impl"] = len(allcases)
    # ---------------------------------------------------------------------- findings -> violations
    DESCR = {
        "strcpy-overlap-dirname-basename": "strcpy(outputDir, dirname(outputDir)) (main.c:278) / strcpy(outputName, basename(outputName)) (c.c:6537) copy between overlapping (identical) ranges: undefined; ASan aborts every invocation",
        "hexescape-stack-overflow-stringBuilderAppendCharHex": "stringBuilderAppendCharHex: char buffer[3] + sprintf(\"%02X\", (signed) char): a name byte >= 0x80 prints 8 hex digits -> stack buffer overflow (valid module with a non-ASCII import/export name)",
        "hexescape-stack-overflow-wasmCWriteFileEscaped": "wasmCWriteFileEscaped: \"%c%02X\" on a signed char / isalnum on a negative char",
        "leb-i64-sign-extend-shift63": "leb128ReadI64: -((I64)1 << 63) for a 9-byte encoding with the sign bit set (e.g. i64.const -2^60): signed overflow (UBSan aborts a -fno-sanitize-recover build on a valid module)",
        "name-section-partial-strcmp-null": "-g with a name section that does not name every function: strcmp on NULL entries in wasmFunctionNamesRemoveDuplicates (SIGSEGV)",
        "name-table-under-allocated": "-g on a module whose name section covers more functions than the name table has slots: wasmNamesEnsureCapacity(functionCount) returned true with fewer slots (array.c growth does not honour the requested length), names[functionIndex] is stored past the block",
        "debuglines-null-g-multithread": "-g with more than one worker: task.debugLines == NULL is dereferenced in wasmCGetDebugLine",
    }
    os.makedirs(vlib.REPLAYS, exist_ok=True)
    for key, f in sorted(findings.items()):
        wasm_path = os.path.join(vlib.REPLAYS, f"C10-{re.sub(r'[^A-Za-z0-9_.-]+', '_', key)}.wasm")
        with open(wasm_path, "wb") as fh:
            fh.write(f["data"])
        what = DESCR.get(key, f"the instrumented translator reports {f['reports'][:1] or f['signal'] or f['rc']} on a "
                         + ("valid module" if True else ""))
        extra = {}
        if str(f.get("label") or "").startswith("data:"):
            what += f" (data-segment module {f['label']}; w2c2 {' '.join(f['opts'])})"
        if str(f.get("label") or "").startswith("dead-code:"):
            what += f" (function {f['label']}: unreachable code on a polymorphic stack; w2c2 {' '.join(f['opts'])})"
        if f.get("ref") is not None:
            what += f" with -r REFERENCE ({f['label']}): w2c2 {' '.join(f['opts'])} -r ref.wasm m.wasm m.c"
            extra = {"ref_hex": f["ref"].hex(), "pair": f["label"]}
        chk.violation(key, what, {**extra, "reproducer": wasm_path, "hex": f["data"].hex(), "options": f["opts"], "build": f["build"],
                                  "asan_options": f["asan_options"], "observed": {"rc": f["rc"], "signal": f["signal"], "reports": f["reports"]},
                                  "stderr_tail": f["stderr_tail"],
                                  "replay_cmd": "python3 tools/check.py C10 --replay <this file>"}, True)
    if tier == "thorough" and pr["build_ok"]:
        for m, msg in leanchecker(chk, MODULES):
            broken.append({"kind": "leanchecker", "msg": f"{m}: {msg}"})
    if broken and not chk.violations and not chk.known_hit:
        chk.violation("tie-or-proof-broken",
                      "a proof obligation or the reader-verdict correspondence of C10 no longer checks; the sanitizer sweep found no failing input",
                      {"broken": broken[:20]}, False)
    elif broken:
        chk.notes.append({"broken": broken[:10]})
    return chk.finish()


def replay(path):
    r = json.load(open(path))
    if r.get("mode") == "array":
        with vlib.scratch("c10r-") as d:
            repo = vlib.copy_repo(os.path.join(d, "repo"))
            out = ah.run(ah.build(repo, d), [r["line"]])[0]
        print(f"real arrayEnsureCapacity on `{r['line']}`: `{out}`; model: `{r.get('model')}`")
        return 1 if ("OVERFLOW" in out or ":0" in out) else 0
    if "hex" not in r:
        print("nothing to replay (no failing input was found):", json.dumps(r.get("broken", ""))[:600])
        return 1
    with vlib.scratch("c10r-") as d:
        repo = vlib.copy_repo(os.path.join(d, "repo"))
        cc, flags = BUILDS[r.get("build", "gcc-strict")]
        exe = rd.build_w2c2(repo, d, "w2c2_replay", cc, flags)
        res = run_case(exe, d, 0, bytes.fromhex(r["hex"]), r.get("options", []), r.get("asan_options", ASAN_LATER),
                       ref=bytes.fromhex(r["ref_hex"]) if r.get("ref_hex") else None)
    print("w2c2", " ".join(r.get("options", [])), ("-r REFERENCE (%s)" % r.get("pair")) if r.get("ref_hex") else "", "->", "rc", res["rc"], "signal", res["signal"])
    for rep in res["reports"][:6]:
        print("  ", rep)
    bad = bool(res["reports"]) or res["signal"] is not None
    return 1 if bad else 0
