#!/usr/bin/env python3
"""Regenerate MANIFEST.json from the table below (keeps it valid and consistent)."""
import json, os
V = os.path.dirname(os.path.dirname(os.path.abspath(__file__)))

CLAIMED = {
 "C01": {
  "technique": "Lean 4 theorems over macros/emitter table regenerated from the C source + runtime-ops differential tie",
  "text": "Every integer macro and portable fallback of w2c2_base.h, regenerated from the current source as a C AST, is proved (for all 2^32/2^64 operand values, incl. trap codes) equal to the WebAssembly operator of Spec.Int; the regenerated AST is additionally run against the gcc-compiled real macro and the spec on boundary+random operands on every run.",
  "design_ref": "DESIGN.md §5 C01",
  "note": "Trusted: Lean kernel; propext/Classical.choice/Quot.sound; per-theorem bv_decide axioms (listed in evidence); tools/extract translator (validated against compiled macros each run); CSem's reading of C (modular casts, arithmetic >>); gcc builtins as documented.",
 },
 "C02": {
  "technique": "Lean 4 theorems over regenerated float macros/emitter table + exact soft-float spec + runtime-ops/e2e differential tie",
  "text": "FMIN/FMAX regenerated from w2c2_base.h are proved equal to WebAssembly fmin/fmax for all operand bit patterns (incl. signed zeros, NaN→NaN); all 16 truncation macros are proved to trap with invalid-conversion (saturating: yield 0) on every NaN payload; for each of the 70 float/conversion opcodes the emitted statement is proved to compute the IEEE operation / cast chain / bit-level operation the specification names, with IEEE arithmetic given by an exact soft-float (CSem.Float) that is tested against the CPU on every run. Exactness of the finite truncation range guards is currently tied by boundary-neighbour differential runs (theorem trunc_guard_exact pending), stated as partial in the evidence.",
  "design_ref": "DESIGN.md §5 C02",
  "note": "Trusted: Lean kernel; tools/extract; CPU/libm IEEE-754 binary32/64 RNE arithmetic = CSem.Float (assumption, exercised by e2e on boundary+random operands each run); gcc gives casts the C11 meaning.",
 },
}

NOT_YET = {f"C{n:02d}": "check under construction in this round (model/theorems not yet committed); see DESIGN.md §8 build order" for n in range(1, 21)}

def main():
    checks = []
    for pid, c in sorted(CLAIMED.items()):
        checks.append({
            "property_id": pid,
            "quick_cmd": f"python3 tools/check.py {pid} --tier quick",
            "thorough_cmd": f"python3 tools/check.py {pid} --tier thorough",
            "evidence_file": f"/verif/evidence/{pid}.json",
            "replay_cmd_template": f"python3 tools/check.py {pid} --replay {{path}}",
            "engine": "lean4-proof+correspondence",
            "level_claimed": {"category": "proof", "text": c["text"], "design_ref": c["design_ref"]},
            "level_note": c["note"],
            "technique": c["technique"],
        })
    na = [{"property_id": p, "reason": r} for p, r in sorted(NOT_YET.items()) if p not in CLAIMED]
    m = {
        "version": 1,
        "setup_cmd": "bash tools/setup.sh",
        "hooks": {"guard": "TURBOLENT_W2C2_VERIF", "enable": "no source hooks are needed: harnesses #include the real sources, schedules are controlled by pthread interposition, file effects are observed with strace",
                  "baseline_off_cmd": "cmake --build /repo/_build >/dev/null && /repo/_build/w2c2/w2c2_test && /repo/_build/wasi/w2c2wasi_test",
                  "source_commits": [], "add_only": True},
        "engines": [{"name": "lean4-proof+correspondence", "path": "/verif/tools/check.py", "serves_properties": sorted(CLAIMED),
                     "kind_free_text": "Lean 4 theorems over models regenerated from / tied to the C source; differential correspondence harnesses; counterexample search on break"}],
        "checks": checks,
        "not_applicable": na,
        "notes": "See DESIGN.md. fix: commits in /repo are recorded in known_findings.txt.",
    }
    json.dump(m, open(os.path.join(V, "MANIFEST.json"), "w"), indent=1)

if __name__ == "__main__":
    main()
