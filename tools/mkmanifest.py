#!/usr/bin/env python3
"""Regenerate MANIFEST.json from the table below (keeps it valid and consistent)."""
import json, os
V = os.path.dirname(os.path.dirname(os.path.abspath(__file__)))

CLAIMED = {
 "C01": {
  "technique": "Lean 4 theorems over macros/emitter table regenerated from the C source + runtime-ops differential tie",
  "text": "Every integer macro and portable fallback of w2c2_base.h, regenerated from the current source as a C AST, is proved (for all 2^32/2^64 operand values, incl. trap codes) equal to the WebAssembly operator of Spec.Int — all six portable fallback bodies (32/64-bit CLZ, CTZ, POPCNT) included; 66 per-opcode theorems (C01Ops) state the same for the statement w2c2 emits for each integer opcode; operands given as immediates go through the whole pipeline (reader, literal, compiler); the regenerated AST is additionally run against the gcc-compiled real macro and the spec on boundary+random operands on every run.",
  "design_ref": "DESIGN.md §5 C01",
  "note": "Trusted: Lean kernel; propext/Classical.choice/Quot.sound; per-theorem bv_decide axioms (listed in evidence); tools/extract translator (validated against compiled macros each run); CSem's reading of C (modular casts, arithmetic >>); gcc builtins as documented.",
 },
 "C02": {
  "technique": "Lean 4 theorems over regenerated float macros/emitter table + exact soft-float spec + runtime-ops/e2e differential tie",
  "text": "FMIN/FMAX regenerated from w2c2_base.h are proved equal to WebAssembly fmin/fmax for all operand bit patterns (incl. signed zeros, NaN→NaN); all 16 truncation macros are proved to trap with invalid-conversion (saturating: yield 0) on every NaN payload; for each of the 70 float/conversion opcodes the emitted statement is proved to compute the IEEE operation / cast chain / bit-level operation the specification names, with IEEE arithmetic given by an exact soft-float (CSem.Float) that is tested against the CPU on every run. trunc_guard_exact (Props/C02Guards, C02TruncOps): for ALL operand bit patterns each of the 16 float-to-int truncation opcodes computes exactly the specification's trunc (trap codes included) / trunc_sat — the range guards of the TRUNC macros are exact (they compare with integer constants; Lemmas/Trunc), so the C cast is only evaluated where it is defined.",
  "design_ref": "DESIGN.md §5 C02",
  "note": "Trusted: Lean kernel; tools/extract; CPU/libm IEEE-754 binary32/64 RNE arithmetic = CSem.Float (assumption, exercised by e2e on boundary+random operands each run); gcc gives casts the C11 meaning.",
 },
 "C05": {
  "technique": "Lean 4 theorems over load/store bodies regenerated from w2c2_base.h + mem-ops differential tie",
  "text": "The bodies of all 14 load and 9 store functions are regenerated from the current header into a small statement language with explicit memory semantics and proved, for every memory, every in-bounds address of any alignment and every value, to return / write exactly the little-endian bytes the specification prescribes (with frame, round-trip and 33-bit effective-address theorems). The real functions are run against the regenerated bodies and an independently computed specification on every run. memory.grow's sequential semantics is proved in Props/C18 (imported); bulk operations and the emission of memory instructions are tied by e2e only (stated partial). Bulk memory: memory_copy_correct / memory_fill_correct / memory_init_correct (Props/C05Sim) — the specification's byte-by-byte reduction rules (forward copy when d<=s, backward otherwise) equal, for every memory, address pair and length in bounds and EVERY overlap, what the regenerated helpers wasmMemoryCopy / wasmMemoryFill / LOAD_DATA->load_data do under libc's contracts for memmove / memset / memcpy (Lemmas/Bulk: copy_eq_memmove, fill_eq_memset, init_eq_memcpy); these instructions are part of the simulation theorem (C03Num) and of the sim-semantics tie against V8 and the real output.",
  "design_ref": "DESIGN.md §5 C05",
  "note": "Trusted: Lean kernel; tools/extract; C object representation (memcpy = host byte order); libc contracts of memmove/memset/memcpy (C standard 7.24); gcc. Out-of-bounds accesses (and memory.init after data.drop, which w2c2 does not implement) are outside the property (in-bounds hypothesis).",
 },
 "C16": {
  "technique": "Lean 4 theorems over atomic accessor bodies regenerated from w2c2_base.h + mem-ops differential tie",
  "text": "All 63 atomic load/store/RMW/cmpxchg functions (bodies regenerated from the header, one __atomic builtin each) are proved to return the zero-extended old value and store the wrapped new value for all memories/addresses/operands; C16Conc: atomic_bodies_single_step (every wrapper performs exactly one memory access and it is an __atomic builtin — decided over the regenerated bodies), interleaving_is_sequential + trace_program_order (any schedule of any number of threads is the sequential execution of its steps, program order preserved: every returned old value belongs to one total order), no_lost_update (any schedule of rmw.add leaves initial + sum of all operands).",
  "design_ref": "DESIGN.md §5 C16",
  "note": "Trusted: indivisibility and sequential consistency of __atomic_* builtins on naturally aligned cells (assumed).",
 },
 "C19": {
  "technique": "Lean 4 theorems: big-endian bodies (regenerated) on a big-endian host = little-endian bodies on a little-endian host",
  "text": "For all 23 plain and 14 atomic load/store functions AND all 42 read-modify-write + 7 compare-exchange functions (C19Rmw: the mutex-based big-endian bodies, including C's integer promotion of 8/16-bit operands) the body selected under WASM_BIG_ENDIAN, run with big-endian object representation, is proved equal (result and memory image) to the little-endian body; the portable mask/shift swaps equal byte reversal for all inputs. C19Buf: the translator's float-immediate reader (buffer.h, regenerated) yields the little-endian reading on a big-endian host. C19Wasi: every raw (non-accessor) touch of guest memory by the WASI host moves bytes, and its accessor calls are exactly the witx cells, width for width (tables regenerated from wasi.c). The real BE bodies are compiled with forced WASM_BIG_ENDIAN on this host and compared with the model (body=be, host=le) and with the single-reversal expectation. C19Futex (over Gen/FutexLoads): every guest-memory read of the futex runtime goes through an endian-aware accessor of the demanded width; forced-BE vs LE runs of the real futex runtime.",
  "design_ref": "DESIGN.md §5 C19",
  "note": "No BE host in the image: BE theorems are about the regenerated model; the code runs only in forced-BE-on-LE configuration. Forced-BE builds of the accessors, of the immediate reader and of the WASI host (field-by-field comparison with the LE build) provide the failing-input search.",
 },
 "C07": {
  "technique": "Lean 4 theorems over the literal classifier regenerated from wasmCWriteLiteral + in-process text tie + compile round trip",
  "text": "For all 2^32/2^64 patterns: integer literals denote the constant; the float classifier (masks regenerated from c.c) selects NaN/inf/-0/finite exactly by IEEE class; NaN (any payload/sign), ±inf and -0 literals denote exactly the given bits; finite floats under the stated assumption that %.9g/%.17g printing plus the compiler's decimal parser round-trip (tested on every run through gcc and clang). C07Env.no_locale_change (the list of locale/environment-affecting libc calls of the translator regenerated: none); the constants pipeline is also run under a synthesised comma-decimal locale and with several writer threads.",
  "design_ref": "DESIGN.md §5 C07",
  "note": "Trusted/assumed: DecRoundTrips (glibc printf + gcc/clang literal parsing correctly rounded); C99 typing of hex literals; INFINITY macro.",
 },
 "C12": {
  "technique": "Lean 4 refinement theorems: WASI fd I/O model (constants/tables regenerated from wasi.c) refines a POSIX file model + three-way history correspondence (real wasi.c / POSIX twin / Lean model)",
  "text": "For every history of fd_read/write/pread/pwrite/seek/tell/close/path_open/filestat calls the model of wasi.c (whence/oflags/errno/filestat tables regenerated from the source on every run) is proved to perform exactly the POSIX operation the WASI specification names: iovecs gathered/scattered in order, positional I/O at the full 64-bit offset leaving the file position unchanged, seek/tell per lseek(2), filestat stores inside the ABI's struct for both ABIs, errno table rows. The real wasi.c is run in-process (ASan/UBSan) against a POSIX twin and the model on generated histories.",
  "design_ref": "DESIGN.md §5 C12",
  "note": "Hypotheses of fdio_refines_posix (GoodRun) are listed in Props/C12.lean; positional offsets beyond the file system's s_maxbytes are an OPEN known finding (known_findings.txt). Trusted: host POSIX calls behave as POSIX specifies; tools/extract/gen_wasi.py.",
 },
 "C13": {
  "technique": "Lean 4 invariant proofs over the descriptor-table state machine (regenerated constants) + history correspondence with the real wasi.c under ASan/UBSan",
  "text": "For every history of WASI calls on both ABIs: the descriptor table invariant holds (by induction over histories), closed or never-issued descriptors give EBADF for every implemented call (incl. fd_seek with any whence), descriptor numbers are never reused while open and never alias paths, std streams are preserved, preopens report their registered paths, and no call exhibits the modelled memory-safety UB kinds (double free / NULL deref) from any reachable state. The real code is driven with the same histories. native_fds_open_distinct: for every history every native descriptor stored in a live table entry is open and no two entries store the same one (the regenerated flag readdirClosesNativeFd must be false); the harness observes the real table after every call (stale / alias / retarget).",
  "design_ref": "DESIGN.md §5 C13",
  "note": "Trusted: host open/close/fstat as POSIX; tools/extract/gen_wasi.py; the model of the descriptor table is hand-written and tied by the correspondence.",
 },
 "C18": {
  "technique": "Lean 4 linearizability proof of memory.grow over all interleavings of its lock/read/write steps (step list regenerated from w2c2_base.h) + scheduled real-thread correspondence",
  "text": "The steps of wasmMemoryGrow are regenerated from the header; for ANY number of threads, deltas and interleavings every step list satisfying the decidable lock discipline (which the regenerated list is proved to satisfy) is linearizable: each grow returns the specification's value for some order consistent with real time, final size = initial + sum of successful deltas <= max, old sizes distinct. Real schedules (pthread interposition) are replayed against the model; a TSan run accompanies. grow_shared_never_writes_data and grow_zero_fill_inside_critical_section over the regenerated step list; scheduled observer histories (marker in a freshly grown page) and TSan stress on the data field.",
  "design_ref": "DESIGN.md §5 C18",
  "note": "memory.size read pages without the lock (repaired: fix ee826ee, now wasmMemorySize() under the mutex; the size-query theorems cover it). A run of the real code that does not finish under a schedule is reported as a violation (hang), not a tool error. Trusted: pthread mutex semantics; realloc/calloc; tools/extract/gen_memfuncs.py.",
 },
 "C20": {
  "technique": "Lean 4 theorems over the file-effect model of main()/clean (patterns, formats, call sites regenerated from main.c/c.c) + strace/snapshot correspondence of whole runs",
  "text": "For every file-system state, listing, option set and module partition: the clean loop removes exactly the names matching the implementation-file pattern (s|d + 10 digits + .c) in the output directory, writes go only to the output file, its header, implementation files and (external data modes) `datasegments`, inputs are opened read-only, nothing else changes, and main's order (chdir before clean/write) is as extracted. Real runs under strace with before/after snapshots are compared with the model's event list and judged against the property directly.",
  "design_ref": "DESIGN.md §5 C20",
  "note": "Property read at name level: a pre-existing symlink at an output name is followed by fopen (counted in evidence, not a violation). Paths >= PATH_MAX are UB in the model (C10's domain). Trusted: glob(3), fopen modes, remove(3) per POSIX; tools/extract/gen_files.py.",
 },
 "C08": {
  "technique": "Lean 4 theorems over the binary reader model (LEB128 decoders and section dispatch with constants regenerated from reader.c/leb128.h) + byte-level correspondence with the real reader on re-encoded modules",
  "text": "LEB128: for every value and every padded encoding up to the maximal length the regenerated decoders return the value and consume exactly the encoding (unsigned/signed, 32/64), with no UB for any buffer. Reader: custom sections anywhere and padded size fields do not change the decoded module (sections_framing_invariant, no hypothesis on the section readers), absent sections decode as empty, flag-0 and flag-2/memory-0 data segments decode equal (data_flag0_eq_flag2); read_encode_roundtrip / module_roundtrip (Props/C08Sections): EVERY specification encoding of every section kind w2c2 supports — type, import, function, table, memory, global, export, start, element, data-count, code, data, custom, and the name section under -g — is accepted and decoded to the section's abstract content whatever follows; two encodings of the same module are both accepted and give the same module (module_encodings_agree). The real reader's dump is compared with the model on modules re-encoded with minimal/maximal/random LEB widths, custom sections at every boundary, empty vs omitted sections; the real translator's emitted definitions are compared across encodings. C08Instr (over Gen/Instr: which reader every instruction immediate uses, regenerated from instruction.c/c.c, and the loop of wasmLocalsDeclarationsGetType): instr_immediates_leb (every grammar encoding of an instruction's immediates, any padding, is read back exactly), locals_type_lookup (zero-count groups anywhere, no unsigned wrap), locals_grouping_irrelevant. Ties: in-process immediate/locals harness vs the model, metamorphic re-encodings of every body-level LEB field and of the locals vector through the real translator and V8.",
  "design_ref": "DESIGN.md §5 C08",
  "note": "Explicit decidable hypotheses name what the real reader rejects (constant expressions other than one const/global.get, element forms other than 0, export indices out of range, code count ≠ function count). Function bodies and constant expressions are kept as raw bytes by the reader: their immediates are decoded by the C writer, tied by the encoding-metamorphic runs of the real translator (emit_encoding_independent). Trusted: tools/extract/gen_reader.py; the hand-written reader model (tied by reader-dump).",
 },
 "C10": {
  "technique": "Lean 4 theorems about buffer sizes / UB sites of the reader model + sanitizer (ASan/UBSan, gcc and clang) runs of the real translator on valid modules, all prefixes and the option matrix",
  "text": "Every sprintf/stringBuilder/file-name buffer is proved large enough for all arguments of its type (integer rows at full strength); the reader model reaches no undefined operation on any byte string except the two sites named in reader_ub_sites, neither of which is reachable from a prefix of a valid module (tested on every prefix, proved for the guarded sites). The real translator, built with sanitizers, is run on generated and spec-suite modules with names of every kind, every option combination and every truncation point. C10Array (growth arithmetic of array.c regenerated): ensure_capacity_contract (capacity' >= length, old slots preserved), no_wrap_lp64; C10Writer (loop bounds of the implementation-file writer regenerated); C10Names (index arithmetic of the -g debug-name lookup and the reader's name-table discipline regenerated): debug_name_lookup_in_bounds for every table length (a name section in front of the function section gives a table shorter than the index space), name_table_initialised. Ties: name sections in every legal position / repeated name sections under -g, in-process array harness, -g with large name sections, -r with partially differing references, dead-code families, all under ASan/UBSan.",
  "design_ref": "DESIGN.md §5 C10",
  "note": "translate_no_ub for the emitter is tied by sanitizer runs, not proved; float formatting buffer (sprintf_fits_float_partial) assumes glibc's %.17g length bound. A malformed (non-prefix) file can wrap codeSize (outside the quantifier; modelled as ub codeSizeUnderflow). Trusted: sanitizer completeness for the executed paths; tools/extract/gen_reader.py.",
 },
 "C14": {
  "technique": "Lean 4 theorems over the path-resolution / readdir model (guards, offsets, tables regenerated from wasi.c) + correspondence with the real wasi.c (ASan/UBSan) against a POSIX twin tree",
  "text": "resolvePath is proved to produce exactly the specified host path for every directory, guest path and length (any PATH_MAX), to be in bounds and NUL-terminated, to reject embedded NULs and over-long lengths without reading them; every path_* call acts on the resolved path with the named POSIX operation; fd_readdir returns every entry exactly once across any buffer size / resume cookie (induction over fuel and stream position), cookie 0 restarts, dirent layout round-trips.",
  "design_ref": "DESIGN.md §5 C14",
  "note": "readdir lstat fallback (DT_UNKNOWN) path length unchecked: model-level counterexample, not replayable on this file system. Trusted: host POSIX calls; Spec/Dir.lean LocOK validated against the kernel each run; tools/extract/gen_wasipath.py.",
 },
 "C15": {
  "technique": "Lean 4 theorems over the args/environ/clock/random/proc/thread-spawn models (strides, tables regenerated from wasi.c) + correspondence with the real wasi.c incl. interposed clocks and forked exits",
  "text": "args_get/environ_get write exactly the specified pointer and string regions for vectors of any size (pointwise final memory), sizes agree with get; clock ids and ns conversion per table; random_get fills every length < 2^32 (chunk loop); proc_exit status; thread ids distinct and start function run exactly once per successful spawn over any interleaving (invariant over Reach). clock_id_ignores_precision (the whole switch of clock_time_get regenerated: the host clock is a function of the WASI clock id only), clock_history_monotone_partial, spawn_lookup_exact (the thread entry is the first export named exactly wasi_thread_start). Ties: interposed and bracketed clock histories over all precisions, export-table look-alikes.",
  "design_ref": "DESIGN.md §5 C15",
  "note": "clock_monotonic_partial assumes the host clock; tid counter wrap excluded (stated). Trusted: getentropy/clock_gettime/pthread_create per POSIX; tools/extract/gen_wasipath.py.",
 },
 "C03": {
  "technique": "Lean 4 simulation proof (translator model vs WebAssembly semantics, all bodies / nesting depths / fuel) + token-for-token correspondence of the translator model with the real w2c2 + e2e vs V8",
  "text": "compile_sim_partial / func_sim_partial: for every function body the (strict) model of w2c2's single-pass translator accepts, every operand stack, locals and amount of fuel, when WebAssembly execution of block/loop/if/br/br_if/br_table/return/unreachable/select/drop/nop/local.*/global.*/const/numeric/load/store/memory.size/memory.grow/memory.copy/memory.fill/memory.init/atomic load/store/rmw/cmpxchg/fence (as executed by one thread)/call/call_indirect instructions finishes normally, by a branch (any depth, any stack height, with its carried value) or by a trap, the emitted C (slot variables, goto, labelled blocks, switch) finishes the same way with every operand in its slot and equal locals, globals and memory; whole functions return the same value and leave the same instance state, with parameters = arguments and declared locals zero. module_sim_concrete (Props/C03Num) instantiates every parameter of that theorem: the specification side runs Spec.numOp / Spec.load / Spec.store, the emitted-C side EXECUTES, by the C semantics, the statement w2c2 emits for each of the 136 numeric opcodes (dispatch table and header macros regenerated from c.c / w2c2_base.h) and the regenerated load/store functions — C01, C02 and C05 composed with C03/C04 in one theorem. The model is tied to the real translator on every run: the rendered model output equals the real w2c2 output token by token for every function of thousands of generated modules in plain/-p/-m modes, and the compiled real output agrees with V8.",
  "design_ref": "DESIGN.md §5 C03, §10",
  "note": "Partial: data.drop (w2c2 reports it as unimplemented and emits nothing) and memory.atomic.wait/notify inside a body make the modelled run `stuck` (outside the theorem: C17's subject); wasmMemoryGrow and host functions are parameters (any function). Trusted: Model.Sim's source semantics = the specification (tied to V8 by the xrun/mrun correspondence and e2e); the hand-written translator model only through emit-tokens.",
 },
 "C04": {
  "technique": "Lean 4 module-level simulation (function index space, recursion to any depth, host imports, call_indirect) + element-segment initialisation theorem + emit-tokens / e2e host-trace correspondence",
  "text": "module_sim_partial: for every module the model translates, every call-depth bound, function index and arguments, if the specification's invocation returns or traps the emitted C does the same — calls pop exactly the callee's parameters in declaration order and push its result (instr_step call/call_indirect), imports first in the index space, call_indirect through initialised, correctly typed slots; elem_init_correct: InitTables leaves in every slot the function of the last covering segment. Tied by emit-tokens (call statements, TF casts, import names) and e2e against V8 with ordered host-call traces (argument bits, instance identity) and table dumps. C04Mangle (over Gen/Mangle, the escaping rule regenerated from both copies in c.c): escape_injective, export_symbol_injective, mangle_injective under an explicit hypothesis on the module name, and the counterexample theorem of the recorded open finding (underscores at the module/field boundary); C04Tables (over Gen/InitTables): the InitTables text of either -p mode stores the listed function into slot offset+position (emitted_tables_correct, pretty_same_tokens); C04Child: NewChild runs InitTables on the child. Ties: e2e under -p/-m/-p -m with table dumps, inittables-text, NewChild families (parent/child/independent instances, call_indirect on children) against V8.",
  "design_ref": "DESIGN.md §5 C04, §10",
  "note": "Callees read and write the instance's globals and memory (state-passing); partial: module-level C text (InitTables, struct) is tied behaviourally (table dump), not token by token.",
 },
 "C09": {
  "technique": "Lean 4 proofs of the worker pool (all interleavings, spurious wake-ups), file partition and static/dynamic split + scheduled real w2c2 -t N replay + option-matrix correspondence",
  "text": "C09Seq (call-site argument roles of both #if HAS_PTHREAD branches regenerated): calls_pass_roles, seq_schedule_partition, seq_partition_exact — a translator built without pthreads writes the same partition; the translator is also BUILT in six configurations (no pthreads, bundled getopt / dirname+basename / strdup) and every output file compared byte for byte with the default build's. pool_exactly_once / pool_deadlock_free / pool_no_torn_task: the 36-program-counter model of the producer/worker hand-off in c.c delivers every task index exactly once, intact, and never deadlocks, for any number of workers, tasks and any interleaving; partition_exact: file ranges cover [0,n) exactly; split_static_sound. Real `w2c2 -t N` runs under the pthread-interposing scheduler are replayed token by token by the model; the option matrix {-p}x{-m}x{-f}x{-t}x{-r} is checked on real outputs: each function once, texts equal to single-file output, byte-identical across -t and runs, every file compiles alone, selected combinations executed against V8. C09Data: instantiation and what d<k> denotes are the same in every -d mode; C09Split.static_only_if_identical_reference_body for any hash separating the bodies at hand (SHA-1 collision resistance trusted; sha1.c tied to hashlib on every run); C09Threads: workers share no mutable static state (table of written statics regenerated). Ties: TSan build of the translator, -t N byte-identity on constants-heavy multi-file modules, value-carrying br_if families with and without -p.",
  "design_ref": "DESIGN.md §5 C09, §10",
  "note": "Option-independence of the emitted program is tied by the matrix (texts equal modulo formatting), not yet a Lean theorem over Render. OPEN finding: -m collision with an export literally named f<N>. Trusted: pthread semantics as modelled in Model.Pool.",
 },
 "C17": {
  "technique": "Lean 4 invariant proofs over the futex state machine (27 program counters of futex.c, any threads/addresses/bucket counts, spurious wake-ups, timeouts) + scheduled real futex.c correspondence under ASan/UBSan",
  "text": "futex_inv, no_lost_wakeup, notify_count_exact, wait_returns, futex_no_uaf, futex_deadlock_free, wait_effective_address: by induction over Reach for every interleaving. The real futex.c/list.c/map.c run under the deterministic scheduler on thousands of schedules (incl. colliding buckets, spurious wake-ups, timeouts) and the model replays the executed schedule; the wait/notify emission (static offset) is tied by token comparison and an e2e offset test. C17Timeout.cond_deadline_exact: the regenerated timeout arithmetic of wasmCondRelativeWait, run in the C semantics with its C types, yields exactly now + t for every 0 <= t < 2^63 without UB. Ties: interposed clock/cond-wait deadline recording, single-thread wait32/wait64 cases vs V8, linearisation oracle over scheduled histories.",
  "design_ref": "DESIGN.md §5 C17, §10",
  "note": "The doubly linked lists of list.c are abstracted to id lists (tied by the ASan correspondence only). Trusted: pthread mutex/condvar semantics as in Model.Threads.",
 },
 "C11": {
  "technique": "Lean 4 proofs that the translator model's output compiles (declared slots, unique labels, goto targets) and that numeric statements are never undefined (UB-tracking C semantics over regenerated macros/tables) + compile/sanitizer/cross-compiler matrix on the real output",
  "text": "decls_cover_uses: every slot variable mentioned by the emitted body and the return statement is declared; labels_well_formed: labels are pairwise distinct, never L0, every goto has a target — for every function the (strict) translator model accepts, by structural induction over all instructions; C11Ops: for all 136 numeric opcodes (incl. the 16 float-to-int truncations, via the exact range guards of Props/C02Guards) the emitted statement (dispatch table and macros regenerated from c.c / w2c2_base.h) evaluates for ALL operand values to a value or the specified trap, never to signed overflow, oversized shift, division overflow or a builtin outside its domain. The model is tied token by token to the real w2c2; the real output of generated and directed modules is compiled with gcc and clang at -O0..-O3, gnu89/default, plain and ASan+UBSan, must compile, report nothing, and agree across all builds and with V8.",
  "design_ref": "DESIGN.md §5 C11, §10",
  "note": "Module-level C text (Init*, struct, exports) compiles by the matrix only. Trusted: CSem's reading of C; sanitizer completeness on executed paths.",
 },
 "C06": {
  "technique": "Lean 4 refinement proof: model of <module>Instantiate (step order and guards regenerated from c.c) refines a declarative instantiation spec + instance-state correspondence with the real output + e2e vs V8",
  "text": "instantiate_refines_spec: for every module description, resolver and embedder state in which the specification does not trap, the emitted Instantiate (sequence and guards of the Init* calls regenerated from wasmCWriteInstantiateFunction on every run) yields exactly the specified state: imports bound to what the resolver returns, fresh zeroed memories/tables of minimum size, every byte/slot equal to the LAST active segment covering it (any number of overlapping segments; defined or imported objects), globals = their initialisers incl. imported globals, then the start function exactly once (start_once, no_start_no_call); instances_disjoint: operations on one instance leave another instance's own memories/tables/globals unchanged. The model's post-instantiation state is compared with the real instance (memory image, every global, table slots, import bindings) for generated and enumerated module shapes; the real output is run against V8 incl. two interleaved instances. C06Init (over Gen/InitMem: per-segment logic of InitMemories, blob/array writers and wasmMemoryAllocate regenerated): every active segment gets its LOAD_DATA in order in every -d mode, blob offset = sum of the lengths of ALL earlier segments, d<k> denotes segment k, pages of a new memory = declared minimum also when shared; C06Child (over the regenerated argument of every Init* call of NewChild): the child is in the specified initial state, the parent is unchanged, shared objects are exactly those the code shares. Ties: initmem-text in all four -d modes, gnu-ld blob linked and run, NewChild families and child-state tie.",
  "design_ref": "DESIGN.md §5 C06, §10",
  "note": "Fits hypothesis: segments that do not fit are UB in the generated C (no bounds checks) and trap in the spec — outside the property. The start function is a parameter (its semantics is C03/C04). Export wrappers / symbol names are tied by e2e (link + call), not by a theorem. Trusted: tools/extract/gen_instantiate.py; V8 as reference.",
 },
}

NOT_YET = {f"C{n:02d}": "check under construction in this round (model/theorems not yet committed); see DESIGN.md §8 build order" for n in range(1, 21)}

def main():
    checks = []
    for pid, c in sorted(CLAIMED.items()):
        checks.append({
            "property_id": pid,
            "quick_cmd": f"python3 tools/check.py {pid} --tier quick",
            "thorough_cmd": f"python3 tools/check.py {pid} --tier thorough",
            "evidence_file": f"/verif/evidence/{pid}.json",
            "replay_cmd_template": f"python3 tools/check.py {pid} --replay {{path}}",
            "engine": "lean4-proof+correspondence",
            "level_claimed": {"category": "proof", "text": c["text"], "design_ref": c["design_ref"]},
            "level_note": c["note"],
            "technique": c["technique"],
        })
    na = [{"property_id": p, "reason": r} for p, r in sorted(NOT_YET.items()) if p not in CLAIMED]
    m = {
        "version": 1,
        "setup_cmd": "bash tools/setup.sh",
        "hooks": {"guard": "TURBOLENT_W2C2_VERIF", "enable": "no source hooks are needed: harnesses #include the real sources, schedules are controlled by pthread interposition, file effects are observed with strace",
                  "baseline_off_cmd": "cmake --build /repo/_build >/dev/null && /repo/_build/w2c2/w2c2_test && /repo/_build/wasi/w2c2wasi_test",
                  "source_commits": [], "add_only": True},
        "engines": [{"name": "lean4-proof+correspondence", "path": "/verif/tools/check.py", "serves_properties": sorted(CLAIMED),
                     "kind_free_text": "Lean 4 theorems over models regenerated from / tied to the C source; differential correspondence harnesses; counterexample search on break"}],
        "checks": checks,
        "not_applicable": na,
        "notes": "See DESIGN.md. fix: commits in /repo are recorded in known_findings.txt.",
    }
    json.dump(m, open(os.path.join(V, "MANIFEST.json"), "w"), indent=1)

if __name__ == "__main__":
    main()
