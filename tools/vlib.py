"""vlib — shared machinery of the /verif checks (see DESIGN.md §4.9).

Every check is `python3 tools/check.py Cxx --tier quick|thorough`:
  1. regenerate `lean/W2c2Verif/Gen/*.lean` from /repo's working tree (tools/extract);
  2. `lake build` the property's theorem modules (serialised with flock) and audit them
     (forbidden words; `#print axioms` for every theorem);
  3. run the property's correspondences between the real code (built from a scratch copy of
     /repo) and the Lean driver;
  4. on any broken obligation/correspondence search for a concrete failing input, compare
     with known_findings.txt, print KNOWN-FINDING / VIOLATION lines, write evidence.
"""
import contextlib
import fcntl
import hashlib
import json
import os
import random
import re
import shutil
import subprocess
import sys
import tempfile
import time

VERIF = os.path.dirname(os.path.dirname(os.path.abspath(__file__)))
REPO = os.environ.get("VERIF_REPO", "/repo")
LEAN = os.path.join(VERIF, "lean")
TOOLS = os.path.join(VERIF, "tools")
EVIDENCE = os.path.join(VERIF, "evidence")
REPLAYS = os.path.join(VERIF, "replays")
DRIVER = os.path.join(LEAN, ".lake", "build", "bin", "driver")
SPECDRIVER = os.path.join(LEAN, ".lake", "build", "bin", "specdriver")

sys.path.insert(0, os.path.join(TOOLS, "extract"))

ALLOWED_AXIOMS = {"propext", "Classical.choice", "Quot.sound"}
BVDECIDE_AX = re.compile(r"\._native\.bv_decide\.ax_")
FORBIDDEN = re.compile(r"\bsorry\b|\badmit\b|^\s*axiom\s|native_decide|implemented_by|\bunsafe\s|maxHeartbeats\s+0\b")


# ----------------------------------------------------------------------------- basics

def log(*a):
    print(*a, file=sys.stderr, flush=True)


def run(cmd, cwd=None, timeout=None, env=None, input=None, check=False):
    e = dict(os.environ)
    if env:
        e.update(env)
    p = subprocess.run(cmd, cwd=cwd, timeout=timeout, env=e, input=input,
                       stdout=subprocess.PIPE, stderr=subprocess.PIPE, text=isinstance(input, str) or input is None)
    if check and p.returncode != 0:
        raise RuntimeError(f"command failed ({p.returncode}): {cmd}\n{p.stdout[-2000:]}\n{p.stderr[-2000:]}")
    return p


@contextlib.contextmanager
def scratch(prefix="w2c2verif-"):
    base = os.environ.get("VERIF_SCRATCH", tempfile.gettempdir())
    d = tempfile.mkdtemp(prefix=prefix, dir=base)
    try:
        yield d
    finally:
        shutil.rmtree(d, ignore_errors=True)


def copy_repo(dst):
    """Copy /repo's working tree (minus build output and .git) to dst."""
    os.makedirs(dst, exist_ok=True)
    run(["rsync", "-a", "--exclude", "_build", "--exclude", ".git", "--exclude", "examples",
         "--exclude", "tests/gen", REPO + "/", dst + "/"], check=True)
    return dst


def file_hash(path):
    h = hashlib.sha256()
    with open(path, "rb") as f:
        h.update(f.read())
    return h.hexdigest()


class Rng(random.Random):
    """All random choices of a check derive from VERIF_SEED through one PRNG."""
    pass


def seed_from_env():
    try:
        return int(os.environ.get("VERIF_SEED", "1"))
    except ValueError:
        return 1


# ----------------------------------------------------------------------------- Lean side

@contextlib.contextmanager
def lake_lock():
    path = os.path.join(LEAN, ".build.lock")
    with open(path, "w") as f:
        fcntl.flock(f, fcntl.LOCK_EX)
        try:
            yield
        finally:
            fcntl.flock(f, fcntl.LOCK_UN)


def write_if_changed(path, text):
    try:
        old = open(path).read()
    except FileNotFoundError:
        old = None
    if old != text:
        os.makedirs(os.path.dirname(path), exist_ok=True)
        with open(path, "w") as f:
            f.write(text)
        return True
    return False


def regenerate(gens):
    """Run extractors.  `gens` = list of (module_name, python_module, func).  Returns
    dict name -> {"ok": bool, "changed": bool, "error": str}."""
    import importlib
    res = {}
    with lake_lock():
        for name, modname in gens:
            mod = importlib.import_module(modname)
            try:
                text = mod.generate(REPO)
            except Exception as e:       # ExtractFail or parser crash: the tie is broken
                res[name] = {"ok": False, "changed": False, "error": str(e)}
                continue
            changed = write_if_changed(os.path.join(LEAN, "W2c2Verif", "Gen", name + ".lean"), text)
            res[name] = {"ok": True, "changed": changed, "error": ""}
    return res


def lake_build(targets, timeout=3600):
    """Build lake targets; returns (ok, combined output)."""
    with lake_lock():
        p = run(["lake", "build"] + list(targets), cwd=LEAN, timeout=timeout)
    out = (p.stdout or "") + (p.stderr or "")
    return p.returncode == 0, out


def failed_decls(build_output):
    """Extract `file:line:col: error` lines from lake output."""
    errs = []
    for m in re.finditer(r"error: (\S+\.lean):(\d+):(\d+): (.*)", build_output):
        errs.append({"file": m.group(1), "line": int(m.group(2)), "msg": m.group(4)[:300]})
    return errs


def strip_comments(src):
    # remove /- ... -/ (nested) and -- comments
    out = []
    i = 0
    depth = 0
    n = len(src)
    while i < n:
        if src.startswith("/-", i):
            depth += 1
            i += 2
        elif src.startswith("-/", i) and depth > 0:
            depth -= 1
            i += 2
        elif depth > 0:
            if src[i] == "\n":
                out.append("\n")
            i += 1
        elif src.startswith("--", i):
            while i < n and src[i] != "\n":
                i += 1
        else:
            out.append(src[i])
            i += 1
    return "".join(out)


def theorem_names(module):
    """Names of theorems declared in a Props module (namespace-qualified)."""
    path = os.path.join(LEAN, *module.split(".")) + ".lean"
    src = strip_comments(open(path).read())
    ns = []
    names = []
    for line in src.splitlines():
        m = re.match(r"\s*namespace\s+(\S+)", line)
        if m:
            ns.append(m.group(1))
            continue
        m = re.match(r"\s*end\s+(\S+)", line)
        if m and ns and ns[-1] == m.group(1):
            ns.pop()
            continue
        m = re.match(r"\s*(?:private\s+|protected\s+)?(?:@\[[^\]]*\]\s*)?(private\s+)?theorem\s+(\S+)", line)
        if m:
            if "private" in line.split("theorem")[0]:
                continue
            names.append(".".join(ns + [m.group(2)]))
    return names


def audit(prop_modules, dep_modules=()):
    """Forbidden-word grep over lean/W2c2Verif and `#print axioms` for every theorem of the
    property's modules.  Returns dict(obligations, discharged, axioms{thm: [..]}, problems[])."""
    problems = []
    # the property's modules and everything they (transitively) import from this project
    todo = list(prop_modules)
    seen = set()
    while todo:
        mod = todo.pop()
        if mod in seen or not (mod.startswith("W2c2Verif.") or mod.startswith("Driver.")):
            continue
        seen.add(mod)
        p = os.path.join(LEAN, *mod.split(".")) + ".lean"
        if not os.path.exists(p):
            problems.append(f"module {mod} not found")
            continue
        raw = open(p).read()
        for m in re.finditer(r"^import\s+(\S+)", raw, re.M):
            todo.append(m.group(1))
        src = strip_comments(raw)
        for i, line in enumerate(src.splitlines(), 1):
            if FORBIDDEN.search(line):
                problems.append(f"forbidden construct in {os.path.relpath(p, LEAN)}:{i}: {line.strip()[:120]}")
    thms = []
    for m in prop_modules:
        thms += theorem_names(m)
    lines = ["import " + m for m in prop_modules] + [f"#print axioms {t}" for t in thms]
    axioms = {}
    with scratch("audit-") as d:
        f = os.path.join(d, "Audit.lean")
        open(f, "w").write("\n".join(lines) + "\n")
        p = run(["lake", "env", "lean", f], cwd=LEAN, timeout=1800)
        out = (p.stdout or "") + (p.stderr or "")
    cur = None
    text = out.replace("\n  ", " ")
    for m in re.finditer(r"'([^']+)' depends on axioms: \[([^\]]*)\]|'([^']+)' does not depend on any axioms", text):
        if m.group(1):
            axioms[m.group(1)] = [a.strip() for a in m.group(2).replace("\n", " ").split(",") if a.strip()]
        else:
            axioms[m.group(3)] = []
    discharged = 0
    bv_axioms = []
    for t in thms:
        if t not in axioms:
            problems.append(f"theorem {t}: no `#print axioms` result (does it elaborate?)")
            continue
        bad = [a for a in axioms[t] if a not in ALLOWED_AXIOMS and not BVDECIDE_AX.search(a)]
        if bad:
            problems.append(f"theorem {t} depends on disallowed axioms {bad}")
        else:
            discharged += 1
        bv_axioms += [a for a in axioms[t] if BVDECIDE_AX.search(a)]
    if "error" in out and not axioms:
        problems.append("audit file failed to elaborate: " + out[-500:])
    return {"obligations": len(thms), "discharged": discharged, "axioms": axioms,
            "bv_decide_axioms": sorted(set(bv_axioms)), "problems": problems, "theorems": thms}


class DriverProc:
    """The compiled Lean driver behind its one-line-in / one-line-out protocol."""

    def __init__(self, exe=None):
        self.exe = exe or DRIVER

    def batch(self, lines, timeout=600):
        p = subprocess.run([self.exe], input="\n".join(lines) + "\n", stdout=subprocess.PIPE,
                           stderr=subprocess.PIPE, text=True, timeout=timeout)
        out = p.stdout.splitlines()
        if len(out) != len(lines):
            raise RuntimeError(f"driver answered {len(out)} lines for {len(lines)} requests; stderr={p.stderr[-500:]}")
        return out


# ----------------------------------------------------------------------------- findings / results

def known_findings():
    """Parse known_findings.txt → (open: {prop: [(key, text)]}, fixed: [...])."""
    path = os.path.join(VERIF, "known_findings.txt")
    opened = {}
    fixed = []
    if os.path.exists(path):
        for line in open(path):
            line = line.strip()
            if not line or line.startswith("#"):
                continue
            m = re.match(r"open:\s+property=(\S+)\s+key=(\S+)\s+(.*)", line)
            if m:
                opened.setdefault(m.group(1), []).append((m.group(2), m.group(3)))
                continue
            m = re.match(r"fixed:\s+property=(\S+)\s+(\S+)\s+(.*)", line)
            if m:
                fixed.append((m.group(1), m.group(2), m.group(3)))
    return opened, fixed


class Check:
    """State of one check run: collects obligations, correspondence stats, violations."""

    def __init__(self, prop, tier, level="proof"):
        self.prop = prop
        self.tier = tier
        self.seed = seed_from_env()
        self.rng = Rng(self.seed)
        self.level = level
        self.t0 = time.time()
        self.coverage = {"obligations": 0, "discharged": 0, "checker_cmd": "", "trusted_base": [],
                         "evaluations": 0, "distinct_nontrivial": 0, "rule": "", "samples": []}
        self.assumptions = []
        self.violations = []        # list of dict(key, what, replay, found_input)
        self.known_hit = []
        self.notes = []
        self._distinct = set()
        self._nrep = 0
        os.makedirs(EVIDENCE, exist_ok=True)
        os.makedirs(REPLAYS, exist_ok=True)

    # -- coverage accounting
    def count_case(self, case_key, nontrivial=True, sample=None):
        self.coverage["evaluations"] += 1
        if nontrivial and case_key not in self._distinct:
            self._distinct.add(case_key)
        if sample is not None and len(self.coverage["samples"]) < 12:
            self.coverage["samples"].append(sample)

    def add_proof_result(self, aud, checker_cmd):
        self.coverage["obligations"] += aud["obligations"]
        self.coverage["discharged"] += aud["discharged"]
        self.coverage["checker_cmd"] = checker_cmd
        self.coverage.setdefault("theorems", [])
        self.coverage["theorems"] += aud["theorems"]
        if aud["bv_decide_axioms"]:
            self.coverage["trusted_base"].append(
                f"{len(aud['bv_decide_axioms'])} bv_decide axioms (CaDiCaL + LRAT check, ofReduceBool-style): "
                + ", ".join(aud["bv_decide_axioms"][:40]) + (" …" if len(aud["bv_decide_axioms"]) > 40 else ""))

    # -- violations
    def violation(self, key, what, replay_obj, found_input=True):
        """Record a violation; `key` identifies the specific failing input/site/history."""
        opened, _ = known_findings()
        for k, text in opened.get(self.prop, []):
            if k == key:
                self.known_hit.append((k, text))
                return
        for v in self.violations:
            if v["key"] == key:
                v["count"] = v.get("count", 1) + 1
                return
        self._nrep += 1
        path = os.path.join(REPLAYS, f"{self.prop}-{self.seed}-{self._nrep}.json")
        replay_obj = dict(replay_obj)
        replay_obj.update({"property": self.prop, "key": key, "what": what, "seed": self.seed,
                           "tier": self.tier, "found_failing_input": found_input})
        with open(path, "w") as f:
            json.dump(replay_obj, f, indent=1, default=str)
        self.violations.append({"key": key, "what": what, "replay": path, "found_input": found_input})

    def finish(self):
        cov = self.coverage
        cov["distinct_nontrivial"] = len(self._distinct)
        wall = time.time() - self.t0
        ev = {"property_id": self.prop, "tier": self.tier, "seed": self.seed, "level": self.level,
              "coverage": cov, "assumptions": self.assumptions, "wall_s": round(wall, 2),
              "violations": len(self.violations)}
        if self.notes:
            cov["notes"] = self.notes
        if self.known_hit:
            cov["known_findings_hit"] = [k for k, _ in self.known_hit]
        # evidence schema: proof level wants obligations>=1 and discharged>=1, else generic fallback keys
        if cov["discharged"] == 0 or cov["obligations"] == 0:
            cov["obligations_total"] = cov.pop("obligations")
            cov["discharged_count"] = cov.pop("discharged")
        if cov["evaluations"] == 0:
            cov.pop("evaluations")
            cov.pop("distinct_nontrivial")
            if not cov["samples"]:
                cov.pop("samples")
            if not cov["rule"]:
                cov.pop("rule")
        with open(os.path.join(EVIDENCE, f"{self.prop}.json"), "w") as f:
            json.dump(ev, f, indent=1, default=str)
        seen = set()
        for k, text in self.known_hit:
            if k not in seen:
                seen.add(k)
                print(f"KNOWN-FINDING: property={self.prop} {k}: {text}")
        # violations with a failing input first; at most 20 lines (all of them are counted in the evidence file)
        vs = sorted(self.violations, key=lambda v: not v["found_input"])
        for v in vs[:20]:
            tail = "" if v["found_input"] else " no-failing-input-found"
            print(f"VIOLATION property={self.prop} replay={v['replay']}{tail}")
        if len(vs) > 20:
            print(f"({len(vs) - 20} further violations of {self.prop} not listed; replays under {os.path.dirname(vs[0]['replay'])})")
        sys.stdout.flush()
        return 1 if self.violations else 0


GLOBAL_TRUSTED = [
    "Lean 4.33 kernel (thorough tier: leanchecker re-check of the property modules)",
    "axioms propext, Classical.choice, Quot.sound",
    "statements in lean/W2c2Verif/Props and definitions in Spec/* and CSem/* (validated by runtime-ops / e2e correspondences)",
    "tools/extract (C -> Lean translator for Gen/*): validated on every run by evaluating each generated AST against the real macro compiled by gcc",
    "gcc/clang give C the meaning CSem assigns (modular unsigned->signed conversion, arithmetic >> on signed); IEEE-754 binary32/64 RNE arithmetic of CPU/libm = CSem.Float",
]
