#!/usr/bin/env python3
"""Seeded-change runner.  (VERIF_REPO=<git checkout> runs everything against that tree instead of /repo:
used with `vp run --with-repo` so that a seeded run never disturbs other work on /repo.)

  seeded.py confirm <dir>        confirm a candidate change (patch.diff + demo.sh) in a scratch worktree:
                                 applies, builds, project tests pass, demo exits 1 patched / 0 clean
  seeded.py run [<id>[/<name>]] [--tier quick|thorough] [--all-checks]
                                 for every kept change under /verif/seeded: apply to /repo, run the check of
                                 its property (and with --all-checks every claimed check), undo, record
                                 whether a VIOLATION was reported -> seeded/RESULTS.json, seeded/RESULTS.md

/repo is always restored with `git checkout -- .` (also on error / interrupt)."""
import argparse
import json
import os
import re
import shutil
import subprocess
import sys
import tempfile
import time

HERE = os.path.dirname(os.path.abspath(__file__))
VERIF = os.path.dirname(HERE)
REPO = os.environ.get("VERIF_REPO", "/repo")
SEEDED = os.path.join(VERIF, os.environ.get("VERIF_SEEDED_DIR", "seeded"))   # "harmless": behaviour-preserving rewrites (a detection there is a false alarm)


def sh(cmd, cwd=None, timeout=3600, env=None):
    p = subprocess.run(cmd, cwd=cwd, shell=isinstance(cmd, str), stdout=subprocess.PIPE, stderr=subprocess.STDOUT, text=True, errors="replace",
                       timeout=timeout, env=env)
    return p.returncode, p.stdout


def build_and_test(root):
    rc, out = sh("cmake -G Ninja -B _build -S . >/dev/null && cmake --build _build 2>&1 | tail -3", cwd=root)
    if rc != 0:
        return False, "build failed: " + out[-400:]
    for exe in ("_build/w2c2/w2c2_test", "_build/wasi/w2c2wasi_test"):
        rc, out = sh(os.path.join(root, exe), cwd=root)
        if rc != 0:
            return False, exe + " failed: " + out[-400:]
    return True, "ok"


def confirm(d):
    d = os.path.abspath(d)
    patch = os.path.join(d, "patch.diff")
    demo = os.path.join(d, "demo.sh")
    res = {"dir": d}
    wt = tempfile.mkdtemp(prefix="seedconf-", dir="/tmp")
    os.rmdir(wt)
    try:
        rc, out = sh(["git", "-C", REPO, "worktree", "add", "-q", "--detach", wt, "HEAD"])
        if rc != 0:
            res["error"] = "worktree: " + out
            return res
        ok, msg = build_and_test(wt)
        res["clean_builds_and_tests"] = ok
        rc, out = sh(["bash", demo, wt], cwd=d, timeout=1800)
        res["demo_exit_clean"] = rc
        res["demo_tail_clean"] = out[-300:]
        rc, out = sh(["git", "-C", wt, "apply", patch])
        res["applies"] = rc == 0
        if rc != 0:
            res["error"] = out[-300:]
            return res
        ok, msg = build_and_test(wt)
        res["patched_builds_and_tests"] = ok
        res["patched_msg"] = msg
        rc, out = sh(["bash", demo, wt], cwd=d, timeout=1800)
        res["demo_exit_patched"] = rc
        res["demo_tail_patched"] = out[-600:]
        res["confirmed"] = bool(res["clean_builds_and_tests"] and res["patched_builds_and_tests"] and res["demo_exit_clean"] == 0
                                and res["demo_exit_patched"] == 1)
        return res
    finally:
        sh(["git", "-C", REPO, "worktree", "remove", "--force", wt])
        shutil.rmtree(wt, ignore_errors=True)


def claimed():
    man = json.load(open(os.path.join(VERIF, "MANIFEST.json")))
    return {c["property_id"]: c for c in man["checks"]}


def run_check(pid, tier):
    c = claimed().get(pid)
    if not c:
        return {"claimed": False}
    cmd = c["quick_cmd"] if tier == "quick" else c["thorough_cmd"]
    t0 = time.time()
    rc, out = sh(cmd, cwd=VERIF, timeout=4 * 3600)
    viol = re.findall(r"^VIOLATION property=(\S+) replay=(\S+)(.*)$", out, re.M)
    return {"claimed": True, "rc": rc, "violations": [{"property": v[0], "replay": v[1], "tail": v[2].strip()} for v in viol],
            "wall_s": round(time.time() - t0, 1), "tail": out[-800:]}


def changes(sel=None):
    out = []
    if not os.path.isdir(SEEDED):
        return out
    for pid in sorted(os.listdir(SEEDED)):
        pd = os.path.join(SEEDED, pid)
        if not os.path.isdir(pd):
            continue
        for name in sorted(os.listdir(pd)):
            d = os.path.join(pd, name)
            if os.path.isfile(os.path.join(d, "patch.diff")):
                key = f"{pid}/{name}"
                if sel and not any(key == x or pid == x for x in sel.split(",")):
                    continue
                out.append((pid, name, d))
    return out


def restore_repo():
    sh(["git", "-C", REPO, "checkout", "--", "."])


def run(sel, tier, all_checks):
    rc, out = sh(["git", "-C", REPO, "status", "--porcelain", "--untracked-files=no"])
    if out.strip():
        print("refusing: /repo has uncommitted changes:\n" + out)
        return 2
    resf = os.path.join(SEEDED, "RESULTS.json")
    results = json.load(open(resf)) if os.path.exists(resf) else {}
    for pid, name, d in changes(sel):
        key = f"{pid}/{name}"
        print("==", key, flush=True)
        try:
            rc, out = sh(["git", "-C", REPO, "apply", os.path.join(d, "patch.diff")])
            if rc != 0:
                results[key] = {"error": "patch does not apply: " + out[-300:]}
                continue
            pids = sorted(claimed()) if all_checks else [pid]
            entry = results.get(key, {})
            entry.setdefault("tiers", {})
            per = {}
            for q in pids:
                r = run_check(q, tier)
                per[q] = {k: r.get(k) for k in ("claimed", "rc", "violations", "wall_s")}
                if q == pid:
                    per[q]["tail"] = r.get("tail", "")[-400:]
                print("  ", q, "rc", r.get("rc"), "violations", len(r.get("violations", [])), flush=True)
            entry["tiers"][tier] = per
            own = per.get(pid, {})
            entry["detected_" + tier] = bool(own.get("claimed") and own.get("rc") == 1 and own.get("violations"))
            entry["with_failing_input_" + tier] = bool(entry["detected_" + tier] and any("no-failing-input-found" not in v["tail"] for v in own["violations"]))
            results[key] = entry
        finally:
            restore_repo()
        json.dump(results, open(resf, "w"), indent=1)
    # regenerate Gen/* for the clean tree again
    sh([sys.executable, os.path.join(HERE, "regen_all.py")], cwd=VERIF)
    write_md(results)
    return 0


def write_md(results):
    harmless = os.path.basename(SEEDED) == "harmless"
    lines = ["# Behaviour-preserving rewrites: a VIOLATION here is a false alarm" if harmless else "# Seeded changes: which check catches which change", "",
             "| change | title | %s | quick | thorough |" % ("kind" if harmless else "manifests when"), "|---|---|---|---|---|"]
    for key in sorted(results):
        pid, name = key.split("/")
        meta = {}
        try:
            meta = json.load(open(os.path.join(SEEDED, pid, name, "meta.json")))
        except Exception:
            pass
        r = results[key]

        def cell(t):
            if ("detected_" + t) not in r:
                return "not run"
            if harmless:
                if not r["detected_" + t]:
                    return "quiet"
                return "FALSE ALARM WITH AN INPUT" if r.get("with_failing_input_" + t) else "alarm (tie broken, no-failing-input-found)"
            if not r["detected_" + t]:
                return "MISSED"
            return "caught (failing input)" if r.get("with_failing_input_" + t) else "caught (no-failing-input-found)"
        lines.append("| %s | %s | %s | %s | %s |" % (key, str(meta.get("title", "")).replace("|", "/"), str(meta.get("kind" if harmless else "manifests_when", "")).replace("|", "/")[:160],
                                                  cell("quick"), cell("thorough")))
    open(os.path.join(SEEDED, "RESULTS.md"), "w").write("\n".join(lines) + "\n")


def main():
    ap = argparse.ArgumentParser()
    ap.add_argument("cmd", choices=["confirm", "run", "md"])
    ap.add_argument("arg", nargs="?")
    ap.add_argument("--tier", default="quick")
    ap.add_argument("--all-checks", action="store_true")
    a = ap.parse_args()
    if a.cmd == "confirm":
        r = confirm(a.arg)
        print(json.dumps(r, indent=1))
        sys.exit(0 if r.get("confirmed") else 1)
    if a.cmd == "md":
        write_md(json.load(open(os.path.join(SEEDED, "RESULTS.json"))))
        return
    try:
        sys.exit(run(a.arg, a.tier, a.all_checks))
    finally:
        restore_repo()


if __name__ == "__main__":
    main()
