import W2c2Verif.CSem.Defs

namespace Driver
open W2c2Verif

def hexDigit (c : Char) : Option Nat :=
  if '0' ≤ c ∧ c ≤ '9' then some (c.toNat - '0'.toNat)
  else if 'a' ≤ c ∧ c ≤ 'f' then some (c.toNat - 'a'.toNat + 10)
  else if 'A' ≤ c ∧ c ≤ 'F' then some (c.toNat - 'A'.toNat + 10)
  else none

def parseHex (s : String) : Option Nat :=
  if s.isEmpty then none else
  s.toList.foldl (fun acc c => match acc, hexDigit c with
    | some a, some d => some (a * 16 + d) | _, _ => none) (some 0)

def toHex (n : Nat) : String := String.ofList (Nat.toDigits 16 n)

/-- `u32:ff` -/
def parseVal (s : String) : Option CVal :=
  match s.splitOn ":" with
  | [t, h] => do
    let ty ← CTy.ofName t.toUpper
    let n ← parseHex h
    some (CVal.ofBits ty n)
  | _ => none

def showOut : Out CVal → String
  | .val v => s!"val {v.ty.name.toLower} {toHex v.bits}"
  | .trap t => s!"trap {t.code}"
  | .ub k => s!"ub {k.name}"
  | .oof => "oof"

def words (line : String) : List String :=
  (line.trimAscii.toString.splitOn " ").filter (· ≠ "")

end Driver
