import Driver.PathsCommon
import W2c2Verif.Model.WasiReaddir

/-! `rdsess` — a whole fd_readdir session on one descriptor:
    `rdsess <pm> <pathhex> <loc0> <name:ino:dtype:loc,...|-> <bufLen:cookie,...>`
    answer: `errno used bufhex guardhex` per call, joined by `;` (memory per call: 8 + bufLen
    bytes of 0xAA, bufferUsedPointer = 0, bufferPointer = 8 — the buffer ends the memory). -/
namespace Driver.Paths
open W2c2Verif W2c2Verif.WasiPath W2c2Verif.Dir W2c2Verif.WasiReaddir

def parseEntry (s : String) : Option (Entry × Int) :=
  match s.splitOn ":" with
  | [n, ino, dt, loc] => do
    let name ← unhex n
    let ino ← ino.toNat?
    let dt ← dt.toNat?
    let loc ← loc.toInt?
    let ls := if fileTypeFromDT dt = Gen.WasiPath.fileTypeUnknown then some (fileTypeFromMode (dt <<< 12)) else none
    some ({ name := name, ino := ino, dtype := dt, lstat := ls }, loc)
  | _ => none

def parseDir (loc0 : Int) (s : String) : Option Dir :=
  if s == "-" then some { entries := [], loc := fun _ => loc0 } else do
  let es ← (s.splitOn ",").mapM parseEntry
  let locs := (loc0 :: es.map (·.2)).toArray
  some { entries := es.map (·.1), loc := fun i => locs.getD i (-1) }

/-- `bufLen:cookie` or `bufLen:cookie:ENAME` (value of errno on entry; `-`/absent = 0) -/
def parseCall (s : String) : Option (Nat × Nat × Option String) :=
  match s.splitOn ":" with
  | [a, b] => do some (← a.toNat?, ← b.toNat?, none)
  | [a, b, e] => do some (← a.toNat?, ← b.toNat?, if e == "-" then none else some e)
  | _ => none

def runSession (pm : Nat) (d : Dir) (path : List UInt8) : List (Nat × Nat × Option String) → Option Pos → List String → List String
  | [], _, acc => acc.reverse
  | (bl, cookie, stale) :: rest, st, acc =>
    let mem : Mem := List.replicate (8 + bl) 0xAA
    match fdReaddir pm d path stale st mem 8 bl cookie 0 with
    | .val (.done r) =>
      let used := leVal (r.mem.take 4)
      let line := s!"{r.errno} {used} {hex ((r.mem.drop 8).take bl)} {hex ((r.mem.drop 4).take 4)}"
      runSession pm d path rest r.dirState (line :: acc)
    | .val .unspecified => (("unspecified" :: acc).reverse)
    | .ub k => ((showUB k :: acc).reverse)
    | _ => (("oof" :: acc).reverse)

def readdirCmd (ws : List String) : Option String :=
  match ws with
  | ["rdsess", pm, path, loc0, ents, calls] => do
    let pm ← pm.toNat?
    let path ← unhex path
    let loc0 ← loc0.toInt?
    let d ← parseDir loc0 ents
    let cs ← (calls.splitOn ",").mapM parseCall
    some (";".intercalate (runSession pm d path cs none []))
  | _ => none

end Driver.Paths
