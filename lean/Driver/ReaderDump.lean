/-
  Driver.ReaderDump — `read <debug 0|1> <strict 0|1> <hex bytes>` → canonical dump of `Model.Reader.read`
  (same text as tools/harness/reader_dump.c prints for the real `wasmModuleRead`), or `err <code>` /
  `ub <reason>`.  SHA-1 (the function hash) is computed here, in the driver: the model only records which
  bytes are hashed.
-/
import W2c2Verif.Model.Reader
import Driver.ReaderLeb

namespace Driver.Reader
open W2c2Verif.Model.Reader

/-! SHA-1 (FIPS 180-1) on byte lists -/
namespace Sha1

def rotl (x : UInt32) (n : UInt32) : UInt32 := (x <<< n) ||| (x >>> (32 - n))

def pad (bs : List UInt8) : List UInt8 :=
  let l := bs.length
  let z := (119 - l % 64) % 64
  let bits := l * 8
  bs ++ [(0x80 : UInt8)] ++ List.replicate z (0 : UInt8) ++
    (List.range 8).map (fun i => UInt8.ofNat ((bits >>> (8 * (7 - i))) % 256))

def word (a b c d : UInt8) : UInt32 :=
  (a.toUInt32 <<< 24) ||| (b.toUInt32 <<< 16) ||| (c.toUInt32 <<< 8) ||| d.toUInt32

def wordsOf : List UInt8 → List UInt32
  | a :: b :: c :: d :: t => word a b c d :: wordsOf t
  | _ => []

def expand (w : Array UInt32) : Array UInt32 := Id.run do
  let mut w := w
  for i in [16:80] do
    w := w.push (rotl (w[i-3]! ^^^ w[i-8]! ^^^ w[i-14]! ^^^ w[i-16]!) 1)
  return w

def block (h : Array UInt32) (ws : Array UInt32) : Array UInt32 := Id.run do
  let w := expand ws
  let mut a := h[0]!
  let mut b := h[1]!
  let mut c := h[2]!
  let mut d := h[3]!
  let mut e := h[4]!
  for i in [0:80] do
    let (f, k) :=
      if i < 20 then ((b &&& c) ||| ((~~~b) &&& d), (0x5A827999 : UInt32))
      else if i < 40 then (b ^^^ c ^^^ d, (0x6ED9EBA1 : UInt32))
      else if i < 60 then ((b &&& c) ||| (b &&& d) ||| (c &&& d), (0x8F1BBCDC : UInt32))
      else (b ^^^ c ^^^ d, (0xCA62C1D6 : UInt32))
    let t := rotl a 5 + f + e + k + w[i]!
    e := d
    d := c
    c := rotl b 30
    b := a
    a := t
  return #[h[0]! + a, h[1]! + b, h[2]! + c, h[3]! + d, h[4]! + e]

partial def blocks (h : Array UInt32) (ws : List UInt32) : Array UInt32 :=
  if ws.length < 16 then h else blocks (block h (ws.take 16).toArray) (ws.drop 16)

def hex32 (x : UInt32) : String :=
  let s := toHex x.toNat
  String.ofList (List.replicate (8 - s.length) '0') ++ s

def digestHex (bs : List UInt8) : String :=
  let h := blocks #[0x67452301, 0xEFCDAB89, 0x98BADCFE, 0x10325476, 0xC3D2E1F0] (wordsOf (pad bs))
  String.join (h.toList.map hex32)

end Sha1

def optHex : Option Bytes → String
  | none => "~"
  | some bs => bytesHex bs

def vtList (ts : List ValType) : String :=
  if ts.isEmpty then "-" else ",".intercalate (ts.map ValType.name)

def natList (ns : List Nat) : String :=
  if ns.isEmpty then "-" else ",".intercalate (ns.map toString)

def limStr (l : Limits) : String := s!"{l.min} {l.max} {b01 l.shared}"

def dumpModule (m : RawModule) : String :=
  let parts : List String :=
    [s!"ok len={m.length}", s!"types={m.types.length}"] ++
    m.types.map (fun t => s!"T {vtList t.params}>{vtList t.results}") ++
    [s!"fimp={m.funcImports.length}"] ++
    m.funcImports.map (fun i => s!"FI {bytesHex i.module} {bytesHex i.name} {i.typeIndex}") ++
    [s!"gimp={m.globalImports.length}"] ++
    m.globalImports.map (fun i => s!"GI {bytesHex i.module} {bytesHex i.name} {i.globalType.valueType.name} {b01 i.globalType.mutable}") ++
    [s!"mimp={m.memImports.length}"] ++
    m.memImports.map (fun i => s!"MI {bytesHex i.module} {bytesHex i.name} {limStr i.limits}") ++
    [s!"timp={m.tableImports.length}"] ++
    m.tableImports.map (fun i => s!"TI {bytesHex i.module} {bytesHex i.name} {limStr i.limits}") ++
    [s!"funcs={m.functions.length}"] ++
    m.functions.map (fun f =>
      let locals := if f.locals.isEmpty then "-" else ",".intercalate (f.locals.map fun d => s!"{d.count}:{d.valueType.name}")
      let hash := match f.hashed with
        | none => "0000000000000000000000000000000000000000"
        | some bs => Sha1.digestHex bs
      s!"F ti={f.typeIndex} exp={optHex f.exportName} start={f.start} hash={hash} locals={locals} code={bytesHex f.code}") ++
    [s!"tables={m.tables.length}"] ++ m.tables.map (fun l => s!"TB {limStr l}") ++
    [s!"mems={m.memories.length}"] ++ m.memories.map (fun l => s!"MM {limStr l}") ++
    [s!"globals={m.globals.length}"] ++
    m.globals.map (fun g => s!"G {g.type.valueType.name} {b01 g.type.mutable} {bytesHex g.init}") ++
    [s!"exports={m.exports.length}"] ++
    m.exports.map (fun x => s!"X {bytesHex x.name} {x.kind} {x.index}") ++
    [match m.start with | none => "start=~" | some i => s!"start={i}"] ++
    [s!"elems={m.elems.length}"] ++
    m.elems.map (fun e => s!"E {e.tableIndex} {bytesHex e.offset} {natList e.funcs}") ++
    [s!"datas={m.datas.length}"] ++
    m.datas.map (fun d => s!"D {d.memoryIndex} {b01 d.passive} {bytesHex d.offset} {bytesHex d.bytes}") ++
    [s!"dbg={m.debugSections.length}"] ++
    m.debugSections.map (fun d => s!"DS {bytesHex d.name} {d.length} {d.present}") ++
    [s!"fnames={m.funcNamesLen}"] ++
    (m.funcNames.take m.funcNamesLen).map (fun n => s!"FN {optHex n}")
  ";".intercalate parts

def readCmd : List String → Option String
  | ["read", dbg, strict, hex] =>
    match parseBytes hex with
    | none => some "err bad-hex"
    | some bs =>
      match read { debug := dbg = "1", strict := strict = "1" } bs with
      | .ok m => some (dumpModule m)
      | .err c => some s!"err {c}"
      | .ub u => some s!"ub {u.name}"
  | ["sha1", hex] =>
    match parseBytes hex with
    | none => some "err bad-hex"
    | some bs => some (Sha1.digestHex bs)
  | _ => none

end Driver.Reader
