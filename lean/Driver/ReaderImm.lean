/-
  Driver.ReaderImm — Model.Instr on the line protocol (the real side: tools/harness/imm_harness.c):
    imm <reader[/case]> <hex>         → `ok <value>… rest=<n>` | `fail`      (values: decimal integers, floats as hex bytes)
    blocktype <hex>                   → `ok none|i32|i64|f32|f64 rest=<n>` | `fail`
    locals <count:type,…|-> <index>   → `i32|i64|f32|f64` | `none`
-/
import W2c2Verif.Model.Instr
import Driver.ReaderLeb

namespace Driver.Reader
open W2c2Verif.Model W2c2Verif.Model.Reader W2c2Verif.Model.Instr

def valStr : Val → String
  | .num i => toString i
  | .raw b => bytesHex b

def parseVT : String → Option ValType
  | "i32" => some .i32 | "i64" => some .i64 | "f32" => some .f32 | "f64" => some .f64 | _ => none

def parseLocals (s : String) : Option (List LocalsDecl) :=
  if s = "-" then some []
  else (s.splitOn ",").mapM fun g =>
    match g.splitOn ":" with
    | [c, t] => match c.toNat?, parseVT t with
      | some n, some vt => some { count := n, valueType := vt }
      | _, _ => none
    | _ => none

def immCmd : List String → Option String
  | ["imm", name, hex] =>
    match parseBytes hex, readerSteps name with
    | none, _ => some "err bad-hex"
    | _, none => some "err unknown-reader"
    | some bs, some steps =>
      match readSteps steps 0 bs with
      | .ok (vs, rest) => some (" ".intercalate (["ok"] ++ vs.map valStr ++ [s!"rest={rest.length}"]))
      | .err _ => some "fail"
      | .ub u => some s!"ub {u.name}"
  | ["blocktype", hex] =>
    match parseBytes hex with
    | none => some "err bad-hex"
    | some bs =>
      match blockType bs with
      | .ok (t, rest) => some s!"ok {match t with | none => "none" | some vt => vt.name} rest={rest.length}"
      | .err _ => some "fail"
      | .ub u => some s!"ub {u.name}"
  | ["locals", spec, idx] =>
    match parseLocals spec, idx.toNat? with
    | some ds, some i => some (match getType ds i with | some t => t.name | none => "none")
    | _, _ => some "err bad-locals"
  | _ => none

end Driver.Reader
