import Driver.Common
import W2c2Verif.Gen.LoadStore
import W2c2Verif.Spec.Mem

namespace Driver
open W2c2Verif

def hexByte (n : Nat) : String :=
  let d := Nat.toDigits 16 (n % 256)
  String.ofList (if d.length < 2 then '0' :: d else d)

def parseMemHex (s : String) : Option (Array UInt8) :=
  let cs := s.toList
  if cs.length % 2 ≠ 0 then none else
  let rec go (l : List Char) (acc : Array UInt8) : Option (Array UInt8) :=
    match l with
    | a :: b :: r => match hexDigit a, hexDigit b with
      | some x, some y => go r (acc.push (UInt8.ofNat (x * 16 + y)))
      | _, _ => none
    | [] => some acc
    | _ => none
  go cs #[]

def memOfArray (a : Array UInt8) : Mem :=
  { bytes := fun i => BitVec.ofNat 8 (a.getD i 0).toNat, size := a.size }

def memToHex (m : Mem) : String :=
  String.join ((List.range m.size).map fun i => hexByte (m.bytes i).toNat)

def allMemFuncs (body : String) : List (String × MFunc) :=
  if body == "be" then Gen.loadsBE ++ Gen.storesBE ++ Gen.atomicLoadsBE ++ Gen.atomicStoresBE ++ Gen.atomicRmwsBE
  else Gen.loadsLE ++ Gen.storesLE ++ Gen.atomicLoadsLE ++ Gen.atomicStoresLE ++ Gen.atomicRmwsLE

/-- `f <body:le|be> <host:le|be> <name> <memhex> <ty:hex>…` → `val <ty> <hex> mem <hex>` | `void mem <hex>` | `ub <kind>` -/
def memCmd (ws : List String) : Option String :=
  match ws with
  | "f" :: body :: host :: name :: memhex :: rest =>
    match parseMemHex memhex, rest.mapM parseVal, lookupAssoc (allMemFuncs body) name with
    | some arr, some args, some fn =>
      let e : End := if host == "be" then .be else .le
      match fn.call noDefs e (memOfArray arr) args with
      | .val (some v, m) => some s!"val {v.ty.name.toLower} {toHex v.bits} mem {memToHex m}"
      | .val (none, m) => some s!"void mem {memToHex m}"
      | .trap t => some s!"trap {t.code}"
      | .ub k => some s!"ub {k.name}"
      | .oof => some "oof"
    | _, _, _ => some "err parse"
  -- specification: `L <k> <s|u> <N> <memhex> <addr>` ; `S <k> <memhex> <addr> <valhex>`
  | ["L", k, sg, n, memhex, addr] =>
    match k.toNat?, n.toNat?, parseMemHex memhex, parseHex addr with
    | some k, some N, some arr, some a =>
      some s!"val {toHex (Spec.load k (sg == "s") N (memOfArray arr) a).toNat}"
    | _, _, _, _ => some "err parse"
  | ["S", k, memhex, addr, v] =>
    match k.toNat?, parseMemHex memhex, parseHex addr, parseHex v with
    | some k, some arr, some a, some v =>
      some s!"mem {memToHex (Spec.store k (memOfArray arr) a (BitVec.ofNat 64 v))}"
    | _, _, _, _ => some "err parse"
  | _ => none

end Driver
