import W2c2Verif.Model.WasiPosix
import Driver.Common

/-!
  wasidriver — line-protocol driver of the WASI model (C12, C13).  Reads the same history
  files as `tools/harness/wasi_ops.c` and prints results in the same canonical form:

    H <id> … E                       a history (state is reset at H)
    cfg maxbytes <n>                 host parameter (largest file offset of the file system)
    poke <addr> <hex> | mkfile <path> <hex|-> | mkdir <path> | cat <path> | ls <path>
    <p1|un> <call> <args…>           -> r <errno> [<addr>:<hex>]…  |  r unmodelled
  After a call whose model outcome is `.ub k` nothing more is printed for the history and it
  ends with `E died <k>`.
-/
open W2c2Verif W2c2Verif.Spec.Posix W2c2Verif.Model.Wasi Driver

def hex2 (b : UInt8) : String :=
  let d := Nat.toDigits 16 b.toNat
  String.ofList (if d.length < 2 then '0' :: d else d)

def hexOf (bs : Bytes) : String := String.join (bs.map hex2)

def unhex (s : String) : Bytes :=
  if s == "-" then [] else
  let rec go : List Char → Bytes
    | a :: b :: r => (UInt8.ofNat ((hexDigit a).getD 0 * 16 + (hexDigit b).getD 0)) :: go r
    | _ => []
  go s.toList

/-- changed bytes among the logged stores, as maximal runs -/
def diffRuns (old new : Mem) (log : List (Nat × Bytes)) : List (Nat × Bytes) :=
  let pos := (log.flatMap fun (a, bs) => (List.range bs.length).map (a + ·))
  let pos := (pos.toArray.qsort (· < ·)).toList.eraseDups
  let changed := pos.filter fun i => old.data i != new.data i
  let rec runs : List Nat → List (Nat × Bytes) → List (Nat × Bytes)
    | [], acc => acc.reverse
    | i :: r, [] => runs r [(i, [new.data i])]
    | i :: r, (a, bs) :: acc =>
      if a + bs.length == i then runs r ((a, bs ++ [new.data i]) :: acc)
      else runs r ((i, [new.data i]) :: (a, bs) :: acc)
  runs changed []

def showRuns (rs : List (Nat × Bytes)) : String :=
  String.join (rs.map fun (a, bs) => s!" {a}:{hexOf bs}")

def splitPath (s : String) : List Bytes := (s.splitOn "/").filter (· ≠ "") |>.map strBytes

def catFile (f : File) : String :=
  let pos := (f.ext.flatMap fun (a, n) => (List.range n).map (a + ·))
  let pos := (pos.toArray.qsort (· < ·)).toList.eraseDups
  let nz := pos.filter fun i => i < f.size && f.byteAt i != 0
  let rec runs : List Nat → List (Nat × Bytes) → List (Nat × Bytes)
    | [], acc => acc.reverse
    | i :: r, [] => runs r [(i, [f.byteAt i])]
    | i :: r, (a, bs) :: acc =>
      if a + bs.length == i then runs r ((a, bs ++ [f.byteAt i]) :: acc)
      else runs r ((i, [f.byteAt i]) :: (a, bs) :: acc)
  s!"file {f.size}{showRuns (runs nz [])}"

def bytesLt : Bytes → Bytes → Bool
  | [], [] => false
  | [], _ => true
  | _, [] => false
  | a :: r, b :: t => a < b || (a == b && bytesLt r t)

def lsDir (fs : FS) (p : List Bytes) : String :=
  match fs.node? p with
  | some .dir =>
    let kids := fs.nodes.filterMap fun (q, _) =>
      if q.length == p.length + 1 && q.take p.length == p then q.getLast? else none
    let kids := (kids.toArray.qsort bytesLt).toList
    "ls" ++ String.join (kids.map fun k => " " ++ String.ofList (k.map fun b => Char.ofNat b.toNat))
  | _ => "nodir"

structure DState where
  st : St State
  dead : Option String := none     -- `.ub` kind once reached
  maxBytes : Nat := 2 ^ 63 - 1

def nat (s : String) : Nat := s.toNat?.getD 0

def parseCall (name : String) (a : List Nat) : Option Call :=
  match name, a with
  | "fd_write", [f, i, c, r] => some (.ro (.fdWrite f i c r))
  | "fd_pwrite", [f, i, c, o, r] => some (.ro (.fdPwrite f i c o r))
  | "fd_read", [f, i, c, r] => some (.ro (.fdRead f i c r))
  | "fd_pread", [f, i, c, o, r] => some (.ro (.fdPread f i c o r))
  | "fd_seek", [f, o, w, r] => some (.ro (.fdSeek f o w r))
  | "fd_tell", [f, r] => some (.ro (.fdTell f r))
  | "fd_readdir", [f, b, l, c, u] => some (.fdReaddir f b l c u)
  | "fd_close", [f] => some (.fdClose f)
  | "fd_fdstat_get", [f, r] => some (.ro (.fdFdstatGet f r))
  | "fd_datasync", [f] => some (.ro (.fdDatasync f))
  | "fd_sync", [f] => some (.ro (.fdSync f))
  | "fd_prestat_get", [f, p] => some (.ro (.fdPrestatGet f p))
  | "fd_prestat_dir_name", [f, p, l] => some (.ro (.fdPrestatDirName f p l))
  | "path_open", [a, b, c, d, e, f, g, h, i] => some (.pathOpen a b c d e f g h i)
  | "fd_filestat_get", [f, p] => some (.ro (.fdFilestatGet f p))
  | "path_filestat_get", [f, fl, p, l, sp] => some (.ro (.pathFilestatGet f fl p l sp))
  | "path_rename", [a, b, c, d, e, f] => some (.ro (.pathRename a b c d e f))
  | "path_unlink_file", [f, p, l] => some (.ro (.pathUnlinkFile f p l))
  | "path_remove_directory", [f, p, l] => some (.ro (.pathRemoveDirectory f p l))
  | "path_create_directory", [f, p, l] => some (.ro (.pathCreateDirectory f p l))
  | "path_symlink", [a, b, c, d, e] => some (.ro (.pathSymlink a b c d e))
  | "path_readlink", [a, b, c, d, e, f] => some (.ro (.pathReadlink a b c d e f))
  | "fd_filestat_set_size", [f, _] => some (.ro (.nosys "fd_filestat_set_size" f))
  | "fd_fdstat_set_flags", [f, _] => some (.ro (.nosys "fd_fdstat_set_flags" f))
  | _, _ => none

def handle (d : DState) (line : String) : DState × Option String :=
  let ws := words line
  match ws with
  | ["H", id] => ({ st := initState d.maxBytes, maxBytes := d.maxBytes }, some s!"H {id}")
  | ["E"] => (d, some (match d.dead with | none => "E ok" | some k => s!"E died {k}"))
  | ["cfg", "maxbytes", n] => ({ d with maxBytes := nat n }, none)
  | _ =>
    if d.dead.isSome then (d, none) else
    match ws with
    | ["poke", a, h] =>
      match d.st.mem.write (nat a) (unhex h) with
      | .val m => ({ d with st := { d.st with mem := m } }, some "ok")
      | _ => (d, some "fail")
    | ["mkfile", p, h] =>
      ({ d with st := { d.st with host := d.st.host.mkfile (splitPath p) (unhex h) } }, some "ok")
    | ["mkfifo", p] =>
      ({ d with st := { d.st with host := d.st.host.mkfifo (splitPath p) } }, some "ok")
    | ["pipestdio"] =>
      let h := d.st.host
      let k := h.pipes.length
      let h' : State := { h with
        pipes := h.pipes ++ [strBytes "pipedata", [], []]
        fds := (h.fds.set 0 (some ⟨.fifo k, 0, .rdonly, [.nonblock]⟩)).set 1 (some ⟨.fifo (k + 1), 0, .wronly, [.nonblock]⟩)
                |>.set 2 (some ⟨.fifo (k + 2), 0, .wronly, [.nonblock]⟩) }
      ({ d with st := { d.st with host := h' } }, some "ok")
    | ["mkdir", p] =>
      ({ d with st := { d.st with host := d.st.host.mkdir (splitPath p) } }, some "ok")
    | ["cat", p] =>
      match d.st.host.fs.node? (splitPath p) with
      | some (.file ino) =>
        match d.st.host.fs.file? ino with
        | some f => (d, some (catFile f))
        | none => (d, some "nofile")
      | _ => (d, some "nofile")
    | ["ls", p] => (d, some (lsDir d.st.host.fs (splitPath p)))
    | abi :: name :: args =>
      let abi? : Option Abi := if abi == "p1" then some .preview1 else if abi == "un" then some .unstable else none
      match abi?, parseCall name (args.map nat) with
      | some ab, some c =>
        match step Cfg.ofGen posixHost ab d.st c with
        | .val (s', .errno e log) => ({ d with st := s' }, some s!"r {e}{showRuns (diffRuns d.st.mem s'.mem log)}")
        | .val (s', .unmodelled) => ({ d with st := s' }, some "r unmodelled")
        | .ub k => ({ d with dead := some k.name }, none)
        | _ => (d, some "err trap")
      | _, _ => (d, some "err unknown-call")
    | _ => (d, some "err unknown-command")

partial def loop (h : IO.FS.Stream) (out : IO.FS.Stream) (d : DState) : IO Unit := do
  let line ← h.getLine
  if line.isEmpty then return ()
  let (d', o) := handle d line
  match o with
  | some s => out.putStrLn s
  | none => pure ()
  loop h out d'

def main : IO Unit := do
  let out ← IO.getStdout
  loop (← IO.getStdin) out { st := initState (2 ^ 63 - 1) }
  out.flush
