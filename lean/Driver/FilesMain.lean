/-
  filesdriver — line protocol for Model.Files (C20).  One request line → one answer line.

    implname <prefix byte, decimal> <index, decimal>          → <hex name>
    clean <sg 0|1> <hex name>                                → val true|false | ub <kind>
    cleandir <sg 0|1> <hex name,hex name,…>                  → <hex names `remove` is called on, in order> | - | ub <kind>
    glob <hex name>                                          → true|false
    dirname|basename|header <hex path>                       → <hex>
    filecount <n> <fpf>                                      → <k>
    run k=v …                                                → event;event;… | ub <kind>
      keys: mod ref out (hex, `-` = empty / absent for ref) fpf t p g m c d modok refok nfuncs
            nstatic ndyn chdirok pathmax sg ls ls0 (comma separated hex names) fs fs0 (hex:kind,…)
      kinds: f de dn lf ld lx
-/
import W2c2Verif.Model.Files

open W2c2Verif W2c2Verif.Model.Files W2c2Verif.Gen.Files

namespace FilesDriver

def hexVal (c : Char) : Option Nat :=
  if '0' ≤ c ∧ c ≤ '9' then some (c.toNat - '0'.toNat)
  else if 'a' ≤ c ∧ c ≤ 'f' then some (c.toNat - 'a'.toNat + 10)
  else if 'A' ≤ c ∧ c ≤ 'F' then some (c.toNat - 'A'.toNat + 10)
  else none

def unhexL : List Char → Option (List UInt8)
  | [] => some []
  | a :: b :: rest => do
    let x ← hexVal a
    let y ← hexVal b
    let r ← unhexL rest
    some ((x * 16 + y).toUInt8 :: r)
  | _ => none

def unhex (s : String) : Option Name := if s = "-" then some [] else unhexL s.toList

def hexDigitC (n : Nat) : Char := if n < 10 then Char.ofNat (48 + n) else Char.ofNat (87 + n)

def hex (n : Name) : String :=
  if n.isEmpty then "-" else
  String.ofList (n.flatMap fun b => [hexDigitC (b.toNat / 16), hexDigitC (b.toNat % 16)])

def words (line : String) : List String :=
  (line.trimAscii.toString.splitOn " ").filter (· ≠ "")

def showOutB : Out Bool → String
  | .val b => s!"val {b}"
  | .trap t => s!"trap {t.code}"
  | .ub k => s!"ub {k.name}"
  | .oof => "oof"

def b01 (b : Bool) : String := if b then "1" else "0"

def showEv : Ev → String
  | .openRead p m => s!"r {hex p} {m}"
  | .chdir p ok => s!"cd {hex p} {b01 ok}"
  | .glob io pat => s!"glob {b01 io} {pat}"
  | .remove io n ok => s!"rm {b01 io} {hex n} {b01 ok}"
  | .openWrite io n m ok => s!"w {b01 io} {hex n} {m} {b01 ok}"
  | .exit c => s!"exit {c}"

def kindOf : String → Option Entry
  | "f" => some (.file false) | "de" => some .dirEmpty | "dn" => some .dirNonEmpty
  | "lf" => some (.linkFile false) | "ld" => some .linkDir | "lx" => some .linkDangling
  | _ => none

def parseNames (s : String) : Option (List Name) :=
  if s = "" ∨ s = "-" then some [] else (s.splitOn ",").mapM unhex

def parseFs (s : String) : Option (List (Name × Entry)) :=
  if s = "" ∨ s = "-" then some [] else
  (s.splitOn ",").mapM fun item =>
    match item.splitOn ":" with
    | [h, k] => do
      let n ← unhex h
      let e ← kindOf k
      some (n, e)
    | _ => none

def kv (ws : List String) : List (String × String) :=
  ws.filterMap fun w => match w.splitOn "=" with
    | [k, v] => some (k, v)
    | _ => none

def get (m : List (String × String)) (k : String) : Option String := (m.find? (·.1 == k)).map (·.2)
def getNat (m : List (String × String)) (k : String) : Option Nat := (get m k).bind String.toNat?
def getBool (m : List (String × String)) (k : String) : Option Bool := (getNat m k).map (· != 0)

def runCmd (ws : List String) : Option String := do
  let m := kv ws
  let modp ← (get m "mod").bind unhex
  let refS ← get m "ref"
  let ref ← if refS = "-" then some none else (unhex refS).map some
  let out ← (get m "out").bind unhex
  let fpf ← getNat m "fpf"
  let t ← getNat m "t"
  let o : Opts := { modulePath := modp, refPath := ref, outputPath := out, fpf := BitVec.ofNat 32 fpf,
                    threads := BitVec.ofNat 32 t, pretty := (← getBool m "p"), debug := (← getBool m "g"),
                    multi := (← getBool m "m"), clean := (← getBool m "c"), mode := (← get m "d") }
  let ls ← (get m "ls").bind parseNames
  let ls0 ← (get m "ls0").bind parseNames
  let fsOut ← (get m "fs").bind parseFs
  let fsInv ← (get m "fs0").bind parseFs
  let w : World := { moduleOk := (← getBool m "modok"), refOk := (← getBool m "refok"),
                     funcCount := BitVec.ofNat 32 (← getNat m "nfuncs"), nStatic := (← getNat m "nstatic"),
                     nDynamic := (← getNat m "ndyn"), chdirOk := (← getBool m "chdirok"),
                     listing := fun io => if io then ls else ls0, pathMax := (← getNat m "pathmax"),
                     charSigned := (← getBool m "sg") }
  let fs : FS := fun l => ((if l.inOut then fsOut else fsInv).find? (·.1 == l.name)).map (·.2)
  match runC o w fs with
  | .val st => some (";".intercalate (st.events.map showEv))
  | .ub k => some s!"ub {k.name}"
  | .trap t => some s!"trap {t.code}"
  | .oof => some "oof"

def handle (line : String) : String :=
  match words line with
  | ["implname", c, i] =>
    match c.toNat?, i.toNat? with
    | some c, some i => hex (implName c.toUInt8 (BitVec.ofNat 32 i))
    | _, _ => "err args"
  | ["clean", sg, h] =>
    match unhex h with
    | some n => showOutB (cleanDecision (sg == "1") n)
    | none => "err hex"
  | ["cleandir", sg, ls] =>
    -- the whole match loop (Model.cleanLoopF: a fold with the scan flag as carried state) over a listing in the GIVEN order
    match parseNames ls with
    | some names =>
      let st0 : St := { fs := fun _ => some (.file false), fpf := 0 }
      match cleanLoopF (sg == "1") (names.filter (globMatch globPattern)) flagInit st0 with
      | .val st =>
        let r := st.events.filterMap fun e => match e with
          | .remove _ n _ => some (hex n)
          | _ => none
        if r.isEmpty then "-" else ",".intercalate r
      | .ub k => s!"ub {k.name}"
      | .trap t => s!"trap {t.code}"
      | .oof => "oof"
    | none => "err hex"
  | ["glob", h] =>
    match unhex h with
    | some n => toString (globMatch globPattern n)
    | none => "err hex"
  | ["dirname", h] => match unhex h with | some n => hex (dirnameC n) | none => "err hex"
  | ["basename", h] => match unhex h with | some n => hex (basenameC n) | none => "err hex"
  | ["header", h] => match unhex h with | some n => hex (headerName n) | none => "err hex"
  | ["filecount", n, f] =>
    match n.toNat?, f.toNat? with
    | some n, some f => toString (fileCount n (BitVec.ofNat 32 f))
    | _, _ => "err args"
  | "run" :: rest => (runCmd rest).getD "err run-args"
  | _ => "err unknown-command"

end FilesDriver

partial def loop (h : IO.FS.Stream) (out : IO.FS.Stream) : IO Unit := do
  let line ← h.getLine
  if line.isEmpty then return ()
  out.putStrLn (FilesDriver.handle line)
  loop h out

def main : IO Unit := do
  let out ← IO.getStdout
  loop (← IO.getStdin) out
  out.flush
