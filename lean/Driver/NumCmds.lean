import Driver.Common
import W2c2Verif.Spec.Num
import W2c2Verif.Model.EmitNumeric
import W2c2Verif.Gen.Macros

namespace Driver
open W2c2Verif

def parseWVal (s : String) : Option Spec.Val :=
  match s.splitOn ":" with
  | [t, h] => do
    let n ← parseHex h
    match t with
    | "i32" => some (.i32 (BitVec.ofNat 32 n)) | "i64" => some (.i64 (BitVec.ofNat 64 n))
    | "f32" => some (.f32 (BitVec.ofNat 32 n)) | "f64" => some (.f64 (BitVec.ofNat 64 n))
    | _ => none
  | _ => none

def showWOut : Out Spec.Val → String
  | .val v => s!"val {v.tyName} {toHex v.bits}"
  | .trap t => s!"trap {t.code}"
  | .ub k => s!"ub {k.name}"
  | .oof => "oof"

def wvalToC : Spec.Val → Gen.VT × CVal
  | .i32 v => (.i32, .u32 v) | .i64 v => (.i64, .u64 v) | .f32 v => (.f32, .f32 v) | .f64 v => (.f64, .f64 v)

def cToW : CVal → Option Spec.Val
  | .u32 v => some (.i32 v) | .u64 v => some (.i64 v) | .f32 v => some (.f32 v) | .f64 v => some (.f64 v)
  | _ => none

def macroDefs : Defs := defsOfMacros Gen.macrosLE noDefs

/-- `N <mnemonic> <ty:hex>…` : specification;  `n <wasmOpcodeName> <ty:hex>…` : model of the emitted statement -/
def numCmd (ws : List String) : Option String :=
  match ws with
  | "N" :: op :: rest =>
    match rest.mapM parseWVal with
    | some args => some (showWOut (Spec.numOp op args))
    | none => some "err parse"
  | "n" :: opcode :: rest =>
    match rest.mapM parseWVal with
    | some args =>
      let r := Model.runNumeric macroDefs opcode (args.map wvalToC)
      some (showWOut (r >>= fun v => match cToW v with | some w => .val w | none => .ub .typeError))
    | none => some "err parse"
  | _ => none

end Driver
