/- concdriver — line-protocol driver of the concurrency / partition components (C18, C09 pool part). -/
import Driver.ConcGrow
import Driver.ConcPool

def words (line : String) : List String :=
  (line.trimAscii.toString.splitOn " ").filter (· ≠ "")

def handle (line : String) : String :=
  let ws := words line
  match Driver.Grow.cmd ws with
  | some r => r
  | none =>
  match Driver.Pool.cmd ws with
  | some r => r
  | none => "err unknown-command"

partial def loop (h : IO.FS.Stream) (out : IO.FS.Stream) : IO Unit := do
  let line ← h.getLine
  if line.isEmpty then return ()
  out.putStrLn (handle line)
  loop h out

def main : IO Unit := do
  let out ← IO.getStdout
  loop (← IO.getStdin) out
  out.flush
