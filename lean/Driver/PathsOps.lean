import Driver.PathsCommon
import W2c2Verif.Model.WasiPath

/-! path-call requests of `pathsdriver`:
    `pop <pm> <mkdir|rmdir|unlink|stat|readlink> <slot> <availhex> <len> [bufLen]`
    `poprename <pm> <slot1> <avail1> <len1> <slot2> <avail2> <len2>`
    `popsymlink <pm> <targethex> <tlen> <slot> <avail> <len>`
    `werrno <ENAME>`
    slot = hex of the descriptor's path | `null` (descriptor without path) | `oob` (no such descriptor).
    answer: `errno <n>` (no host operation performed) | `host <op> <pathhex> …` (the one host
    operation, performed on exactly these strings) | `ub <kind>`. -/
namespace Driver.Paths
open W2c2Verif W2c2Verif.WasiPath

/-- descriptor table with the slot under test at index 0 (and optionally a second one at 1) -/
def parseSlot (s : String) : Option (Option (Option Bytes)) :=
  if s == "oob" then some none
  else if s == "null" then some (some none)
  else do
    let b ← unhex s
    some (some (some (b ++ [0])))

def showHostOp : HostOp → String
  | .mkdir p m => s!"mkdir {hex p} {m}"
  | .rmdir p => s!"rmdir {hex p}"
  | .unlink p => s!"unlink {hex p}"
  | .rename a b => s!"rename {hex a} {hex b}"
  | .symlink t p => s!"symlink {hex t} {hex p}"
  | .readlink p n => s!"readlink {hex p} {n}"
  | .stat p => s!"stat {hex p}"
  | .lstat p => s!"lstat {hex p}"

def showPathResult : Out PathResult → String
  | .val r => match r.trace with
    | [] => s!"errno {r.errno}"
    | [op] => s!"host {showHostOp op}"
    | _ => "err multiple-host-ops"
  | .ub k => showUB k
  | _ => "oof"

def mkTable : List (Option (Option Bytes)) → FdTable × List Nat
  | slots =>
    -- present slots are placed in order; an `oob` slot gets an index past the end
    let present := slots.filterMap id
    let idx := slots.foldl (fun (acc : List Nat × Nat) s => match s with
      | none => (acc.1 ++ [1000], acc.2)
      | some _ => (acc.1 ++ [acc.2], acc.2 + 1)) ([], 0)
    (present, idx.1)

def opsCmd (ws : List String) : Option String :=
  let okHost : HostOp → HostRes := fun _ => .ok
  match ws with
  | "pop" :: pm :: call :: slot :: a :: len :: rest => do
    let pm ← pm.toNat?
    let slot ← parseSlot slot
    let a ← unhex a
    let len ← len.toNat?
    let c ← match call, rest with
      | "mkdir", [] => some PathCall.createDirectory
      | "rmdir", [] => some PathCall.removeDirectory
      | "unlink", [] => some PathCall.unlinkFile
      | "stat", [fl] => fl.toNat?.map PathCall.filestatGet
      | "readlink", [n] => n.toNat?.map PathCall.readlink
      | _, _ => none
    let (tbl, idx) := mkTable [slot]
    let st := List.replicate pm 0xAA
    some (showPathResult (pathCall pm okHost tbl c (idx.getD 0 1000) a len st st))
  | ["poprename", pm, s1, a1, l1, s2, a2, l2] => do
    let pm ← pm.toNat?
    let s1 ← parseSlot s1
    let a1 ← unhex a1
    let l1 ← l1.toNat?
    let s2 ← parseSlot s2
    let a2 ← unhex a2
    let l2 ← l2.toNat?
    let (tbl, idx) := mkTable [s1, s2]
    let st := List.replicate pm 0xAA
    -- the old path is directly followed by the new path in guest memory
    some (showPathResult (pathRename pm okHost tbl (idx.getD 0 1000) (a1 ++ a2) l1 (idx.getD 1 1000) a2 l2 st st st st))
  | ["popsymlink", pm, t, tl, s, a, l] => do
    let pm ← pm.toNat?
    let t ← unhex t
    let tl ← tl.toNat?
    let s ← parseSlot s
    let a ← unhex a
    let l ← l.toNat?
    let (tbl, idx) := mkTable [s]
    let st := List.replicate pm 0xAA
    some (showPathResult (pathSymlink pm okHost tbl (t ++ a) tl (idx.getD 0 1000) a l st st st st))
  | ["werrno", name] => some s!"{wasiErrno name}"
  | ["rlmem", bl, tgt] => do
    -- memory effect of path_readlink in the harness layout: [0,4) length cell | guard | [16,16+bl) buffer | 8 guard bytes
    let bl ← bl.toNat?
    let host : Sum String Bytes ← if tgt.startsWith "err:" then some (.inl (tgt.drop 4).toString) else (unhex tgt).map Sum.inr
    match pathReadlinkMem host (List.replicate (24 + bl) 0xAA) 16 bl 0 with
    | .val (e, m) => some s!"{e} {if e == 0 then leVal (m.take 4) else 0} {hex m}"
    | .ub k => some (showUB k)
    | _ => some "oof"
  | _ => none

end Driver.Paths
