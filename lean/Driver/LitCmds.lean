import Driver.Common
import W2c2Verif.Model.Literal

namespace Driver
open W2c2Verif Model

/-- `lit <i32|i64|f32|f64> <hexbits>` → `text <literal>` | `finite` -/
def litCmd (ws : List String) : Option String :=
  match ws with
  | ["lit", t, h] =>
    match parseHex h with
    | none => some "err parse"
    | some bits =>
      let vt : Option Gen.VT := match t with
        | "i32" => some .i32 | "i64" => some .i64 | "f32" => some .f32 | "f64" => some .f64 | _ => none
      match vt with
      | none => some "err type"
      | some vt => match literalText vt bits with
        | some s => some ("text " ++ s)
        | none => some "finite"
  | _ => none

end Driver
