import Driver.Common
import W2c2Verif.Model.Render
import W2c2Verif.Model.Sim

namespace Driver
open W2c2Verif Model

structure EmitSession where
  names : Names := {}
  ctx : Ctx := {}
  /-- bodies of the defined functions seen so far (function index, declared locals, body) -/
  bodies : List (Nat × List Gen.VT × List EInstr) := []
  /-- table 0 after element initialisation (`E elem`) -/
  table : List (Option Nat) := []
  /-- the instance's globals and memory, threaded through successive `E mrun` calls (`E ginit`, `E meminit`, `E data`) -/
  gs : Sim.GS := {}
  memMax : Nat := 65536
  /-- all data segments in index order (`E seg`): what memory.init reads -/
  segs : List (List UInt8) := []
  deriving Inhabited

def vtOfChar : Char → Option Gen.VT
  | 'i' => some .i32 | 'j' => some .i64 | 'f' => some .f32 | 'd' => some .f64 | _ => none
def wvtOfChar : Char → Option Wasm.VT
  | 'i' => some .i32 | 'j' => some .i64 | 'f' => some .f32 | 'd' => some .f64 | _ => none
def vtsOf (s : String) : Option (List Gen.VT) := if s = "-" then some [] else s.toList.mapM vtOfChar
def wvtsOf (s : String) : Option (List Wasm.VT) := if s = "-" then some [] else s.toList.mapM wvtOfChar
def btOf (s : String) : Option (Option Gen.VT) := if s = "_" then some none else (s.toList.head?.bind vtOfChar).map some

def parseBytesHex (s : String) : Option (List UInt8) :=
  if s = "-" then some [] else
  let cs := s.toList
  let rec go (l : List Char) (acc : List UInt8) : Option (List UInt8) :=
    match l with
    | a :: b :: r => match hexDigit a, hexDigit b with
      | some x, some y => go r (acc ++ [UInt8.ofNat (x * 16 + y)])
      | _, _ => none
    | [] => some acc
    | _ => none
  go cs []

/-- parse a token list into instructions up to a terminator (`end` / `else`); returns the
    instructions, the terminator seen and the remaining tokens -/
partial def parseBody (toks : List String) : Option (List EInstr × String × List String) :=
  match toks with
  | [] => some ([], "", [])
  | "end" :: rest => some ([], "end", rest)
  | "else" :: rest => some ([], "else", rest)
  | t :: rest =>
    let parts := t.splitOn ":"
    let cont (i : EInstr) (rest : List String) : Option (List EInstr × String × List String) :=
      (parseBody rest).map fun (is, term, r) => (i :: is, term, r)
    match parts with
    | ["nop"] => cont .nop rest | ["unreachable"] => cont .unreachable rest
    | ["drop"] => cont .drop rest | ["select"] => cont .select rest | ["ret"] => cont .ret rest
    | ["memsize"] => cont .memorySize rest | ["memgrow"] => cont .memoryGrow rest
    | ["memcopy"] => cont .memoryCopy rest | ["memfill"] => cont .memoryFill rest
    | ["meminit", n] => n.toNat?.bind fun n => cont (.memoryInit n) rest
    | ["datadrop", n] => n.toNat?.bind fun n => cont (.dataDrop n) rest
    | ["const", ty, h] => do
      let t ← ty.toList.head?.bind vtOfChar
      let b ← parseHex h
      cont (.const t b) rest
    | ["num", opcode, _] => cont (.numeric opcode) rest
    | ["lget", n] => n.toNat?.bind fun n => cont (.localGet n) rest
    | ["lset", n] => n.toNat?.bind fun n => cont (.localSet n) rest
    | ["ltee", n] => n.toNat?.bind fun n => cont (.localTee n) rest
    | ["gget", n] => n.toNat?.bind fun n => cont (.globalGet n) rest
    | ["gset", n] => n.toNat?.bind fun n => cont (.globalSet n) rest
    | ["load", opcode, _, _, off] => off.toNat?.bind fun o => cont (.load opcode o) rest
    | ["store", opcode, _, _, off] => off.toNat?.bind fun o => cont (.store opcode o) rest
    | ["aload", opcode, _, _, off] => off.toNat?.bind fun o => cont (.atomicLoad opcode o) rest
    | ["astore", opcode, _, _, off] => off.toNat?.bind fun o => cont (.atomicStore opcode o) rest
    | ["rmw", opcode, _, _, off] => off.toNat?.bind fun o => cont (.atomicRmw opcode o) rest
    | ["cmpxchg", opcode, _, _, off] => off.toNat?.bind fun o => cont (.atomicCmpxchg opcode o) rest
    | ["fence"] => cont .atomicFence rest
    | ["notify", off] => off.toNat?.bind fun o => cont (.atomicNotify o) rest
    | ["wait32", off] => off.toNat?.bind fun o => cont (.atomicWait false o) rest
    | ["wait64", off] => off.toNat?.bind fun o => cont (.atomicWait true o) rest
    | ["br", n] => n.toNat?.bind fun n => cont (.br n) rest
    | ["brif", n] => n.toNat?.bind fun n => cont (.brIf n) rest
    | ["brtable", ls, d] => do
      let labs ← (if ls = "" then some [] else (ls.splitOn ",").mapM String.toNat?)
      let d ← d.toNat?
      cont (.brTable labs d) rest
    | ["call", n] => n.toNat?.bind fun n => cont (.call n) rest
    | ["calli", ty, tb] => do
      let ty ← ty.toNat?; let tb ← tb.toNat?
      cont (.callIndirect ty tb) rest
    | ["block", bt] => do
      let bt ← btOf bt
      let (body, _, r) ← parseBody rest
      cont (.block bt body) r
    | ["loop", bt] => do
      let bt ← btOf bt
      let (body, _, r) ← parseBody rest
      cont (.loop bt body) r
    | ["if", bt] => do
      let bt ← btOf bt
      let (thn, term, r) ← parseBody rest
      if term = "else" then do
        let (els, _, r2) ← parseBody r
        cont (.ite bt thn (some els)) r2
      else cont (.ite bt thn none) r
    | _ => none

def decPlaceholder (t : Gen.VT) (bits : Nat) : String :=
  "@DEC:" ++ (match t with | .f32 => "f32" | .f64 => "f64" | .i32 => "i32" | .i64 => "i64") ++ ":" ++ toHex bits ++ "@"

def oneLine (s : String) : String := s.map fun c => if c = '\n' then ' ' else c

/-- stateful `E …` commands -/
def emitCmd (sess : EmitSession) (ws : List String) : Option (EmitSession × String) :=
  match ws with
  | ["E", "reset"] => some ({}, "ok")
  | ["E", "name", mn, multi, pretty] =>
    some ({ sess with names := { sess.names with moduleName := mn, multi := multi = "1", pretty := pretty = "1" } }, "ok")
  | ["E", "type", ps, rs] =>
    match wvtsOf ps, wvtsOf rs with
    | some p, some r =>
      let ft : Wasm.FuncType := ⟨p, r⟩
      some ({ sess with names := { sess.names with types := sess.names.types ++ [ft] },
                        ctx := { sess.ctx with types := sess.ctx.types ++ [ft] } }, "ok")
    | _, _ => some (sess, "err parse")
  | ["E", "impfunc", m, f, ti] =>
    match parseBytesHex m, parseBytesHex f, ti.toNat? with
    | some m, some f, some ti =>
      some ({ sess with names := { sess.names with funcImports := sess.names.funcImports ++ [(m, f)] },
                        ctx := { sess.ctx with funcTypeIdx := sess.ctx.funcTypeIdx ++ [ti] } }, "ok")
    | _, _, _ => some (sess, "err parse")
  | ["E", "deffunc", ti] =>
    match ti.toNat? with
    | some ti => some ({ sess with ctx := { sess.ctx with funcTypeIdx := sess.ctx.funcTypeIdx ++ [ti] } }, "ok")
    | none => some (sess, "err parse")
  | ["E", "impglobal", m, f, t] =>
    match parseBytesHex m, parseBytesHex f, t.toList.head?.bind vtOfChar with
    | some m, some f, some t =>
      some ({ sess with names := { sess.names with globalImports := sess.names.globalImports ++ [(m, f)] },
                        ctx := { sess.ctx with globalTypes := sess.ctx.globalTypes ++ [t] } }, "ok")
    | _, _, _ => some (sess, "err parse")
  | ["E", "global", t] =>
    match t.toList.head?.bind vtOfChar with
    | some t => some ({ sess with ctx := { sess.ctx with globalTypes := sess.ctx.globalTypes ++ [t] } }, "ok")
    | none => some (sess, "err parse")
  | ["E", "impmem", m, f] =>
    match parseBytesHex m, parseBytesHex f with
    | some m, some f => some ({ sess with names := { sess.names with memImports := sess.names.memImports ++ [(m, f)] } }, "ok")
    | _, _ => some (sess, "err parse")
  | ["E", "imptable", m, f] =>
    match parseBytesHex m, parseBytesHex f with
    | some m, some f => some ({ sess with names := { sess.names with tableImports := sess.names.tableImports ++ [(m, f)] } }, "ok")
    | _, _ => some (sess, "err parse")
  | "E" :: "func" :: fidx :: locals :: body =>
    match fidx.toNat?, vtsOf locals, parseBody body with
    | some fi, some ls, some (is, _, _) =>
      match sess.ctx.funcTypeIdx[fi]?.bind (sess.ctx.types[·]?) with
      | none => some (sess, "err no-type")
      | some ft =>
        let params := ft.params.map vtOfW
        let result := ft.results.head?.map vtOfW
        let sess := { sess with bodies := sess.bodies ++ [(fi, ls, is)] }
        match compileFunc sess.ctx params ls result is with
        | .ok cf => some (sess, "text " ++ oneLine (renderFunc sess.names decPlaceholder fi cf))
        | .error e => some (sess, "err " ++ e)
    | _, _, _ => some (sess, "err parse")
  | _ => none

end Driver
