import Driver.EmitCmds
import Driver.NumCmds
import W2c2Verif.Model.Sim
import W2c2Verif.Model.SimModule
import W2c2Verif.Model.Elem
import W2c2Verif.Model.SimMem
import Driver.MemCmds

namespace Driver
open W2c2Verif Model Sim

def arityOf (opcode : String) : Nat :=
  match lookupAssoc Gen.emitTable opcode with
  | some (.unary _ _ _) => 1
  | some _ => 2
  | none => 0

def driverNumSem : NumSem where
  arity := arityOf
  sem := fun opcode vals =>
    (Model.runNumeric macroDefs opcode (vals.map wvalToC)) >>= fun v =>
      match cToW v with | some w => .val w | none => .ub .typeError

def showVal (v : Spec.Val) : String := s!"{v.tyName}:{toHex v.bits}"

def zeroV : Gen.VT → Spec.Val | .i32 => .i32 0 | .i64 => .i64 0 | .f32 => .f32 0 | .f64 => .f64 0

/-- `E xrun <fuel> <funcIndex> <locals> <args: ty:hex,… or -> <body…>`:
    run the body under the WebAssembly semantics and run its translation under the C semantics -/
def simCmd (sess : EmitSession) (ws : List String) : Option String :=
  match ws with
  | "E" :: "xrun" :: fuel :: fidx :: locals :: args :: body =>
    match fuel.toNat?, fidx.toNat?, vtsOf locals, parseBody body,
          (if args = "-" then some [] else (args.splitOn ",").mapM parseWVal) with
    | some fuel, some fi, some ls, some (is, _, _), some argv =>
      match sess.ctx.funcTypeIdx[fi]?.bind (sess.ctx.types[·]?) with
      | none => some "err no-type"
      | some ft =>
        let params := ft.params.map vtOfW
        let result := ft.results.head?.map vtOfW
        let loc0 : Store := { locals := argv ++ ls.map zeroV }
        let nres := ft.results.length
        let src : String :=
          match erunSeq driverNumSem fuel is [] loc0 with
          | .normal stk _ | .branch 0 stk _ | .ret stk _ => "val " ++ " ".intercalate ((topN nres stk).map showVal)
          | .branch _ _ _ => "stuck-branch"
          | .trap t => s!"trap {t.code}" | .oof => "oof" | .stuck => "stuck"
        match compileFunc sess.ctx params ls result is with
        | .error e => some s!"src {src} | tgt err {e}"
        | .ok cf =>
          let σ0 : MSt := { slots := fun _ => 0, store := loc0 }
          let fin (σ : MSt) : String := match result with
            | some rt => "val " ++ showVal (σ.get ⟨rt, 0⟩)
            | none => "val "
          let tgt : String :=
            match execSeq driverNumSem fuel cf.body σ0 with
            | .normal σ => fin σ
            | .jump 0 σ => fin σ
            | .jump _ _ => "stuck-jump"
            | .trap t => s!"trap {t.code}" | .oof => "oof" | .stuck => "stuck"
          some s!"src {src} | tgt {tgt}"
    | _, _, _, _, _ => some "err parse"
  | _ => none

/-- the module of the session as `MModule` (imports are not callable here: `host` is undefined) -/
def sessModule (sess : EmitSession) : MModule :=
  let nimp := sess.names.funcImports.length
  { types := sess.ctx.types
    imports := sess.ctx.funcTypeIdx.take nimp
    funcs := (sess.ctx.funcTypeIdx.drop nimp).zipIdx.map fun (ti, k) =>
      match sess.bodies.find? (fun b => b.1 = nimp + k) with
      | some (_, ls, is) => ⟨ti, ls, is⟩
      | none => ⟨ti, [], [.unreachable]⟩
    table := sess.table
    globalTypes := sess.ctx.globalTypes
    host := fun _ _ _ => .ub .unboundVar }

def showOutW (o : Out (Option Spec.Val × GS)) : String :=
  match o with
  | .val (some v, _) => "val " ++ showVal v
  | .val (none, _) => "val "
  | .trap t => s!"trap {t.code}"
  | .ub k => "ub " ++ k.name
  | .oof => "oof"

/-- `E elem <size> <off>:<f>,<f>…;<off>:…` (or `-`): table initialisation by `Model.initTable`; remembered as the session's table.
    `E mrun <depth> <funcIndex> <args>`: module-level run (calls resolved through the function index space / table),
    specification side and emitted-C side -/
def simCmd2 (sess : EmitSession) (ws : List String) : Option (EmitSession × String) :=
  match ws with
  | ["E", "elem", size, segs] =>
    let parseSeg (t : String) : Option ElemSeg :=
      match t.splitOn ":" with
      | [o, fs] => do
        let o ← o.toNat?
        let fs ← (if fs = "" then some [] else (fs.splitOn ",").mapM String.toNat?)
        some ⟨o, fs⟩
      | _ => none
    match size.toNat?, (if segs = "-" then some [] else (segs.splitOn ";").mapM parseSeg) with
    | some n, some sg =>
      let tbl := initTable n sg
      some ({ sess with table := tbl }, "tbl " ++ ",".intercalate (tbl.map fun e => match e with | some f => toString f | none => "-"))
    | _, _ => some (sess, "err parse")
  | ["E", "ginit", vals] =>
    match (if vals = "-" then some [] else (vals.splitOn ",").mapM parseWVal) with
    | some vs => some ({ sess with gs := { sess.gs with globals := vs } }, "ok")
    | none => some (sess, "err parse")
  | ["E", "meminit", minP, maxP] =>
    match minP.toNat?, maxP.toNat? with
    | some a, some b => some ({ sess with gs := { sess.gs with mem := ⟨fun _ => 0, a * wasmPage⟩ }, memMax := b }, "ok")
    | _, _ => some (sess, "err parse")
  | ["E", "data", off, hex] =>
    match off.toNat?, parseMemHex hex with
    | some o, some arr =>
      let m0 := sess.gs.mem
      let m1 : Mem := ⟨fun i => if o ≤ i ∧ i < o + arr.size then BitVec.ofNat 8 (arr.getD (i - o) 0).toNat else m0.bytes i, m0.size⟩
      some ({ sess with gs := { sess.gs with mem := m1 } }, "ok")
    | _, _ => some (sess, "err parse")
  | ["E", "seg", hex] =>
    match parseBytesHex hex with
    | some bs => some ({ sess with segs := sess.segs ++ [bs] }, "ok")
    | none => some (sess, "err parse")
  | ["E", "mrun", depth, fidx, args] =>
    match depth.toNat?, fidx.toNat?, (if args = "-" then some [] else (args.splitOn ",").mapM parseWVal) with
    | some d, some fi, some argv =>
      let m := sessModule sess
      match m.compileFuncs m.funcs with
      | .error e => some (sess, "err compile " ++ e)
      | .ok cfs =>
        -- memory.grow as the specification has it (the real wasmMemoryGrow is the subject of C05Grow / C18)
        let growFn (mm : Mem) (dl : Nat) : Mem × BitVec 32 :=
          let pages := mm.size / wasmPage
          if pages + dl ≤ sess.memMax ∧ pages + dl ≤ 65535 then (⟨mm.bytes, (pages + dl) * wasmPage⟩, BitVec.ofNat 32 pages)
          else (mm, 0xFFFFFFFF#32)
        let ns := withConcMem driverNumSem growFn sess.segs
        let r := m.run ns cfs d
        let g0 : GS := if sess.gs.globals.isEmpty then { sess.gs with globals := sess.ctx.globalTypes.map zeroV } else sess.gs
        let rs := r.1 fi argv g0
        let rt := r.2 fi argv g0
        let showG (o : Out (Option Spec.Val × GS)) : String :=
          match o with
          | .val (_, g) => " g " ++ ",".intercalate (g.globals.map showVal) ++ s!" pages {g.mem.size / wasmPage}"
          | _ => ""
        let same : String := match rs, rt with
          | .val (_, g1), .val (_, g2) =>
            -- memories are compared on the addresses either side may have written: callers pass a window via `E memwin` (default first 4 KiB)
            if (List.range 4096).all (fun i => g1.mem.bytes i == g2.mem.bytes i) && g1.mem.size == g2.mem.size then " memeq 1" else " memeq 0"
          | _, _ => ""
        let sess' := match rs with | .val (_, g') => { sess with gs := g' } | _ => sess
        some (sess', s!"src {showOutW rs}{showG rs} | tgt {showOutW rt}{showG rt}{same}")
    | _, _, _ => some (sess, "err parse")
  | ["E", "mpeek", addr, n] =>
    match addr.toNat?, n.toNat? with
    | some a, some k => some (sess, "bytes " ++ String.join ((List.range k).map fun i => hexByte (sess.gs.mem.bytes (a + i)).toNat))
    | _, _ => some (sess, "err parse")
  | _ => none

end Driver
