import Driver.EmitCmds
import Driver.NumCmds
import W2c2Verif.Model.Sim

namespace Driver
open W2c2Verif Model Sim

def arityOf (opcode : String) : Nat :=
  match lookupAssoc Gen.emitTable opcode with
  | some (.unary _ _ _) => 1
  | some _ => 2
  | none => 0

def driverNumSem : NumSem where
  arity := arityOf
  sem := fun opcode vals =>
    (Model.runNumeric macroDefs opcode (vals.map wvalToC)) >>= fun v =>
      match cToW v with | some w => .val w | none => .ub .typeError

def showVal (v : Spec.Val) : String := s!"{v.tyName}:{toHex v.bits}"

def zeroV : Gen.VT → Spec.Val | .i32 => .i32 0 | .i64 => .i64 0 | .f32 => .f32 0 | .f64 => .f64 0

/-- `E xrun <fuel> <funcIndex> <locals> <args: ty:hex,… or -> <body…>`:
    run the body under the WebAssembly semantics and run its translation under the C semantics -/
def simCmd (sess : EmitSession) (ws : List String) : Option String :=
  match ws with
  | "E" :: "xrun" :: fuel :: fidx :: locals :: args :: body =>
    match fuel.toNat?, fidx.toNat?, vtsOf locals, parseBody body,
          (if args = "-" then some [] else (args.splitOn ",").mapM parseWVal) with
    | some fuel, some fi, some ls, some (is, _, _), some argv =>
      match sess.ctx.funcTypeIdx[fi]?.bind (sess.ctx.types[·]?) with
      | none => some "err no-type"
      | some ft =>
        let params := ft.params.map vtOfW
        let result := ft.results.head?.map vtOfW
        let loc0 := argv ++ ls.map zeroV
        let nres := ft.results.length
        let src : String :=
          match erunSeq driverNumSem fuel is [] loc0 with
          | .normal stk _ | .branch 0 stk _ | .ret stk _ => "val " ++ " ".intercalate ((topN nres stk).map showVal)
          | .branch _ _ _ => "stuck-branch"
          | .trap t => s!"trap {t.code}" | .oof => "oof" | .stuck => "stuck"
        match compileFunc sess.ctx params ls result is with
        | .error e => some s!"src {src} | tgt err {e}"
        | .ok cf =>
          let σ0 : MSt := { slots := fun _ => 0, locals := loc0 }
          let fin (σ : MSt) : String := match result with
            | some rt => "val " ++ showVal (σ.get ⟨rt, 0⟩)
            | none => "val "
          let tgt : String :=
            match execSeq driverNumSem fuel cf.body σ0 with
            | .normal σ => fin σ
            | .jump 0 σ => fin σ
            | .jump _ _ => "stuck-jump"
            | .trap t => s!"trap {t.code}" | .oof => "oof" | .stuck => "stuck"
          some s!"src {src} | tgt {tgt}"
    | _, _, _, _, _ => some "err parse"
  | _ => none

end Driver
