/-
  Driver.ReaderMain — line-protocol driver of the reader component (C08/C10): one line in, one line out.
    leb <u32|i32|u64|i64> <hex>            → Driver.ReaderLeb
    read <debug> <strict> <hex> | sha1 <hex> → Driver.ReaderDump
    arr <itemSize> <length>…                 → Driver.ReaderArray
    imm … | blocktype … | locals …          → Driver.ReaderImm
-/
import Driver.ReaderLeb
import Driver.ReaderDump
import Driver.ReaderArray
import Driver.ReaderImm

open Driver.Reader

def handle (line : String) : String :=
  let ws := words line
  match lebCmd ws with
  | some r => r
  | none =>
  match readCmd ws with
  | some r => r
  | none =>
  match arrCmd ws with
  | some r => r
  | none =>
  match immCmd ws with
  | some r => r
  | none => "err unknown-command"

partial def loop (h : IO.FS.Stream) (out : IO.FS.Stream) : IO Unit := do
  let line ← h.getLine
  if line.isEmpty then return ()
  out.putStrLn (handle line)
  loop h out

def main : IO Unit := do
  let out ← IO.getStdout
  loop (← IO.getStdin) out
  out.flush
