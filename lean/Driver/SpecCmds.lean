import Driver.Common
import W2c2Verif.Spec.Int

namespace Driver
open W2c2Verif

def showBV {N} : Out (BitVec N) → String
  | .val v => s!"val {toHex v.toNat}"
  | .trap t => s!"trap {t.code}"
  | .ub k => s!"ub {k.name}"
  | .oof => "oof"

/-- `s <op> <N> <hex>…` -/
def specInt (op : String) (N : Nat) (args : List Nat) : String :=
  let b (n : Nat) : BitVec N := BitVec.ofNat N n
  let v1 (f : BitVec N → BitVec N) : String := match args with
    | [a] => showBV (Out.val (f (b a))) | _ => "err arity"
  let v2 (f : BitVec N → BitVec N → BitVec N) : String := match args with
    | [a, c] => showBV (Out.val (f (b a) (b c))) | _ => "err arity"
  let o2 (f : BitVec N → BitVec N → Out (BitVec N)) : String := match args with
    | [a, c] => showBV (f (b a) (b c)) | _ => "err arity"
  let c2 (f : BitVec N → BitVec N → BitVec 32) : String := match args with
    | [a, c] => showBV (Out.val (f (b a) (b c))) | _ => "err arity"
  match op with
  | "add" => v2 Spec.iadd | "sub" => v2 Spec.isub | "mul" => v2 Spec.imul
  | "div_s" => o2 Spec.idiv_s | "div_u" => o2 Spec.idiv_u
  | "rem_s" => o2 Spec.irem_s | "rem_u" => o2 Spec.irem_u
  | "and" => v2 Spec.iand | "or" => v2 Spec.ior | "xor" => v2 Spec.ixor
  | "shl" => v2 Spec.ishl | "shr_s" => v2 Spec.ishr_s | "shr_u" => v2 Spec.ishr_u
  | "rotl" => v2 Spec.irotl | "rotr" => v2 Spec.irotr
  | "clz" => v1 Spec.iclz | "ctz" => v1 Spec.ictz | "popcnt" => v1 Spec.ipopcnt
  | "eqz" => (match args with | [a] => showBV (Out.val (Spec.ieqz (b a))) | _ => "err arity")
  | "eq" => c2 Spec.ieq | "ne" => c2 Spec.ine
  | "lt_s" => c2 Spec.ilt_s | "lt_u" => c2 Spec.ilt_u | "gt_s" => c2 Spec.igt_s | "gt_u" => c2 Spec.igt_u
  | "le_s" => c2 Spec.ile_s | "le_u" => c2 Spec.ile_u | "ge_s" => c2 Spec.ige_s | "ge_u" => c2 Spec.ige_u
  | "extend8_s" => v1 (Spec.iextend_s 8) | "extend16_s" => v1 (Spec.iextend_s 16)
  | "extend32_s" => v1 (Spec.iextend_s 32)
  | _ => "err unknown-op"

def specCmd (ws : List String) : Option String :=
  match ws with
  | "s" :: op :: n :: rest =>
    match n.toNat?, rest.mapM parseHex with
    | some N, some args => some (specInt op N args)
    | _, _ => some "err parse"
  | _ => none

end Driver
