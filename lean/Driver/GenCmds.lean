import Driver.Common
import W2c2Verif.Gen.Macros

namespace Driver
open W2c2Verif

def fallbackDefs : Defs := defsOfFuncs Gen.funcsFallback noDefs

/-- `m <cfg> <NAME> <ty:hex>…`  cfg ∈ le | fb | be | beplain -/
def macroCmd (ws : List String) : Option String :=
  match ws with
  | "m" :: cfg :: nameR :: rest =>
    let (name, rty) : String × Option CTy := match nameR.splitOn ">" with
      | [n, t] => (n, CTy.ofName t.toUpper)
      | _ => (nameR, none)
    let showOut (o : Out CVal) : String := match rty with
      | some t => Driver.showOut (o >>= fun v => v.castInt t)
      | none => Driver.showOut o
    match rest.mapM parseVal with
    | none => some "err parse"
    | some args =>
      match cfg with
      | "le" =>
        match lookupAssoc Gen.macrosLE name with
        | some m => some (showOut (m.call noDefs args))
        | none => some "err unknown-macro"
      | "fb" =>
        match lookupAssoc Gen.funcsFallback name with
        | some f => some (showOut (f.call fallbackDefs args))
        | none => some "err unknown-func"
      | "be" =>
        match name with
        | "swapU16" => some (showOut (Gen.m_BE_swapU16.call noDefs args))
        | "swapU32" => some (showOut (Gen.m_BE_swapU32.call noDefs args))
        | "swapU64" => some (showOut (Gen.m_BE_swapU64.call noDefs args))
        | _ => some "err unknown-macro"
      | "beplain" =>
        match name with
        | "swapU16" => some (showOut (Gen.m_BEplain_swapU16.call noDefs args))
        | "swapU32" => some (showOut (Gen.m_BEplain_swapU32.call noDefs args))
        | "swapU64" => some (showOut (Gen.m_BEplain_swapU64.call noDefs args))
        | _ => some "err unknown-macro"
      | _ => some "err unknown-cfg"
  | _ => none

end Driver
