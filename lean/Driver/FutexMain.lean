import Driver.FutexCmds

/-!
  futexdriver — line protocol (one request line → one reply line):
    run <B> <shared> <init> <threads> <token>…        replay a shim schedule in `Model.Futex`
    dfs <B> <shared> <init> <threads> <depth> <maxSpurious> <stateBudget>
                                                       search the model for crash / stuck Notified
                                                       waiter / miscounted notify (search-on-break)
    emit wait32|wait64|notify <stackIndex> <offset>    statement text w2c2 emits (model `Futex.Emit`)
-/
open Driver.Futex

def words (line : String) : List String :=
  (line.trimAscii.toString.splitOn " ").filter (· ≠ "")

def handle (line : String) : IO String := do
  match words line with
  | "run" :: rest => return runCmd rest
  | "dfs" :: rest => dfsCmd rest
  | "emit" :: rest => return emitCmd rest
  | _ => return "err unknown-command"

partial def loop (h : IO.FS.Stream) (out : IO.FS.Stream) : IO Unit := do
  let line ← h.getLine
  if line.isEmpty then return ()
  out.putStrLn (← handle line)
  loop h out

def main : IO Unit := do
  let out ← IO.getStdout
  loop (← IO.getStdin) out
  out.flush
