import W2c2Verif.Model.Futex

/-!
  Driver.FutexCmds — `Model.Futex` driven by the schedule strings of the scheduler shim
  (tools/sched).  One shim choice = one token:

    `k`     thread k performs its pending pthread call (or starts) and runs on to its next
            scheduling point  = one model step from a `PC.isYield` pc, then `run` steps while the
            pc is not a scheduling point;
    `ks`    spurious wake-up of parked thread k;     `kt`  timeout of parked thread k;
    `0…`    the harness' main thread (create/join): no model step.

  Request:  run <B> <shared> <init> <threads> <token>…
      init    `-` or `addr:width:value,…`            (decimal)
      threads `ops|ops|…` for threads 1,2,…; ops `,`-separated:
              `w32:addr:expect:timeout` `w64:addr:expect:timeout` `n:addr:count` `s:addr:width:value`
  Reply:    verdict=<ok|deadlock|running|crash|mismatch:i:tok> res=<r.r.r|…> st=<fin|blk:pc|…> map=<null|empty|nonempty> marks=<n>
-/
namespace Driver.Futex
open W2c2Verif W2c2Verif.Threads W2c2Verif.Futex

def pcName : PC → String
  | .idle => "idle" | .wLock => "wLock" | .wLoad => "wLoad" | .wUnlockNe => "wUnlockNe" | .wAlloc => "wAlloc"
  | .wMapCreate => "wMapCreate" | .wMapGet => "wMapGet" | .wMapInsert => "wMapInsert" | .wPrepend => "wPrepend"
  | .wCondWait => "wCondWait" | .wParked => "wParked" | .wCheck => "wCheck" | .wIsTimeout => "wIsTimeout"
  | .wRemove => "wRemove" | .wMapRemove => "wMapRemove" | .wFree => "wFree" | .wUnlock => "wUnlock"
  | .nShared => "nShared" | .nLock => "nLock" | .nGetMap => "nGetMap" | .nMapGet => "nMapGet" | .nHead => "nHead"
  | .nLoop => "nLoop" | .nSignal => "nSignal" | .nUnlock => "nUnlock" | .sPoint => "sPoint"
  | .crashed .useAfterFree => "crashed:useAfterFree" | .crashed .nullDeref => "crashed:nullDeref"
  | .crashed .mutexMisuse => "crashed:mutexMisuse" | .crashed .condMisuse => "crashed:condMisuse"
  | .crashed .assertFail => "crashed:assertFail"

def parseOp (s : String) : Option Op :=
  match s.splitOn ":" with
  | ["w32", a, e, t] => do some (.wait false (← a.toNat?) (← e.toNat?) (← t.toInt?))
  | ["w64", a, e, t] => do some (.wait true (← a.toNat?) (← e.toNat?) (← t.toInt?))
  | ["n", a, c] => do some (.notify (← a.toNat?) (← c.toNat?))
  | ["s", a, w, v] => do some (.store (← a.toNat?) (← w.toNat?) (← v.toNat?))
  | _ => none

def parseThreads (s : String) : Option (List (List Op)) :=
  (s.splitOn "|").mapM fun t =>
    if t = "" ∨ t = "-" then some [] else (t.splitOn ",").mapM parseOp

def parseInit (s : String) (mem : Nat → Nat) : Option (Nat → Nat) :=
  if s = "-" ∨ s = "" then some mem else
  (s.splitOn ",").foldlM (fun m item =>
    match item.splitOn ":" with
    | [a, w, v] => do some (storeLE m (← a.toNat?) (← v.toNat?) (← w.toNat?))
    | _ => none) mem

structure St where
  g : G
  ls : Array L        -- index = thread id; thread 0 is the harness' main thread (empty program)

inductive Tok
  | main | run (t : Nat) (sub : Nat) | spurious (t : Nat) | timeout (t : Nat)

def parseTok (s : String) : Option Tok :=
  if s.endsWith "s" then (s.dropEnd 1).toString.toNat?.map .spurious
  else if s.endsWith "t" then (s.dropEnd 1).toString.toNat?.map .timeout
  else match s.splitOn "/" with
    | [a] => a.toNat?.map fun t => if t = 0 then .main else .run t 0
    | [a, b] => do let t ← a.toNat?; let k ← b.toNat?; some (if t = 0 then .main else .run t k)
    | _ => none

def succs (B : Nat) (st : St) (t : Nat) (lab : Label) : List (G × L) :=
  match st.ls[t]? with
  | none => []
  | some l => ((stepL B st.g l).filter (·.1 = lab)).map (·.2)

def setThread (st : St) (t : Nat) (p : G × L) : St := { g := p.1, ls := st.ls.set! t p.2 }

/-- run thread `t` on to its next scheduling point -/
def runLocal (B : Nat) (t : Nat) : Nat → St → St
  | 0, st => st
  | fuel + 1, st =>
    match st.ls[t]? with
    | none => st
    | some l =>
      if l.pc.isYield then st else
      match succs B st t .run with
      | [] => st
      | p :: _ => runLocal B t fuel (setThread st t p)

/-- apply one token; `none` = the token is not enabled in the model -/
def applyTok (B : Nat) (st : St) : Tok → Option St
  | .main => some st
  | .spurious t => (succs B st t .spurious).head?.map (setThread st t)
  | .timeout t => (succs B st t .timeout).head?.map (setThread st t)
  | .run t k =>
    match st.ls[t]? with
    | none => none
    | some l =>
      if l.pc.isYield then
        match (succs B st t .run)[k]? with
        | none => none
        | some p => some (runLocal B t 100000 (setThread st t p))
      else some (runLocal B t 100000 st)

def finished (l : L) : Bool := l.pc = .idle ∧ l.prog.isEmpty

def isCrashed (l : L) : Bool := match l.pc with | .crashed _ => true | _ => false

/-- can thread `t` make progress (a `run` or `timeout` step)? -/
def canProgress (B : Nat) (st : St) (t : Nat) : Bool :=
  !(succs B st t .run).isEmpty || !(succs B st t .timeout).isEmpty

def opAddrs (tss : List (List Op)) : List Nat :=
  (tss.flatten.map fun | .wait _ a _ _ => a | .notify a _ => a | .store a _ _ => a).eraseDups

def report (B : Nat) (st : St) (addrs : List Nat) (verdict : String) : String :=
  let ths := st.ls.toList.drop 1
  let res := "|".intercalate (ths.map fun l => ".".intercalate (l.done.map fun d => toString d.ret))
  let sts := "|".intercalate (ths.map fun l => if finished l then "fin" else "blk:" ++ pcName l.pc)
  let anyNode := addrs.any fun a => !(st.g.buckets (a % B)).isEmpty
  let map := if !st.g.mapAlloc then "null" else if anyNode then "nonempty" else "empty"
  s!"verdict={verdict} res={res} st={sts} map={map} marks={st.g.marks.length}"

def finalVerdict (B : Nat) (st : St) : String :=
  let ths := st.ls.toList.drop 1
  if ths.any isCrashed then "crash"
  else if ths.all finished then "ok"
  else if (List.range st.ls.size).any (fun t => t ≠ 0 && canProgress B st t) then "running"
  else "deadlock"

def mkState (shared : Bool) (mem : Nat → Nat) (tss : List (List Op)) : St :=
  { g := G.init shared mem,
    ls := (([] : List Op) :: tss).toArray.mapIdx fun i p => L.init i p }

def runCmd (ws : List String) : String :=
  match ws with
  | bS :: shS :: initS :: thrS :: toks =>
    match bS.toNat?, shS.toNat?, parseInit initS (fun _ => 0), parseThreads thrS with
    | some B, some sh, some mem, some tss =>
      let st0 := mkState (sh ≠ 0) mem tss
      let addrs := opAddrs tss
      let rec go (i : Nat) (st : St) : List String → String
        | [] => report B st addrs (finalVerdict B st)
        | tk :: rest =>
          match parseTok tk with
          | none => s!"err bad-token {tk}"
          | some tok =>
            match applyTok B st tok with
            | none => report B st addrs s!"mismatch:{i}:{tk}"
            | some st' =>
              if st'.ls.toList.any isCrashed then report B st' addrs "crash"
              else go (i + 1) st' rest
      go 0 st0 toks
    | _, _, _, _ => "err parse"
  | _ => "err usage"

/-! ### model-side DFS at shim granularity (search-on-break: lost wake-up / double count / crash) -/

structure Found where
  kind : String
  sched : List String

def tokStr : Tok → String
  | .main => "0" | .run t k => if k = 0 then toString t else s!"{t}/{k}"
  | .spurious t => s!"{t}s" | .timeout t => s!"{t}t"

/-- all enabled tokens of the model state (threads ≥ 1) -/
def enabledToks (B : Nat) (st : St) (allowSpurious : Bool) : List Tok :=
  let ts := (List.range st.ls.size).drop 1
  let runs := ts.flatMap fun t =>
    match st.ls[t]? with
    | none => []
    | some l =>
      if finished l then [] else
      if l.pc.isYield then (List.range (succs B st t .run).length).map (Tok.run t ·)
      else [Tok.run t 0]
  let tos := ts.filter (fun t => !(succs B st t .timeout).isEmpty) |>.map Tok.timeout
  let sps := if allowSpurious then ts.filter (fun t => !(succs B st t .spurious).isEmpty) |>.map Tok.spurious else []
  runs ++ tos ++ sps

/-- anomaly of a state with no progress possible: a Notified waiter still blocked, or a blocked
    thread that is not a legitimately waiting (Waiting, infinite timeout) waiter -/
def stuckAnomaly (st : St) : Option String :=
  let ths := st.ls.toList.drop 1
  if ths.all finished then none else
  ths.findSome? fun l =>
    if finished l then none
    else if l.pc = .wParked ∧ (st.g.waits l.wait).status = .waiting ∧ l.timeout < 0 then none
    else some s!"stuck:T{l.tid}:{pcName l.pc}"

def countAnomaly (st : St) : Option String :=
  let ws := st.g.marks.map (·.wait)
  if ws.eraseDups.length ≠ ws.length then some "double-count" else
  (st.ls.toList.drop 1).findSome? fun l =>
    (List.range l.done.length).findSome? fun k =>
      match l.done[k]? with
      | some d =>
        match d.op with
        | .notify a n =>
          let mine := st.g.marks.filter fun m => m.tid = l.tid ∧ m.serial = k
          if d.ret ≠ mine.length ∨ d.ret > n ∨ mine.any (fun m => (st.g.waits m.wait).addr ≠ a) then some s!"notify-count:T{l.tid}:{k}" else none
        | _ => none
      | none => none

partial def dfs (B : Nat) (depth : Nat) (maxSp : Nat) (st : St) (pre : List String) (nsp : Nat)
    (budget : IO.Ref Nat) (out : IO.Ref (List Found)) : IO Unit := do
  if (← budget.get) = 0 then return
  if (← out.get).length ≥ 5 then return
  budget.modify (· - 1)
  if st.ls.toList.any isCrashed then
    out.modify (⟨"crash", pre.reverse⟩ :: ·); return
  match countAnomaly st with
  | some k => out.modify (⟨k, pre.reverse⟩ :: ·); return
  | none => pure ()
  let en := enabledToks B st (nsp < maxSp)
  let prog := en.filter fun | .spurious _ => false | _ => true
  if prog.isEmpty then
    match stuckAnomaly st with
    | some k => out.modify (⟨k, pre.reverse⟩ :: ·)
    | none => pure ()
    return
  if depth = 0 then return
  for tok in en do
    match applyTok B st tok with
    | none => pure ()
    | some st' =>
      let nsp' := match tok with | .spurious _ => nsp + 1 | _ => nsp
      dfs B (depth - 1) maxSp st' (tokStr tok :: pre) nsp' budget out

def dfsCmd (ws : List String) : IO String := do
  match ws with
  | [bS, shS, initS, thrS, dS, spS, budS] =>
    match bS.toNat?, shS.toNat?, parseInit initS (fun _ => 0), parseThreads thrS, dS.toNat?, spS.toNat?, budS.toNat? with
    | some B, some sh, some mem, some tss, some d, some sp, some bud =>
      let budget ← IO.mkRef bud
      let out ← IO.mkRef ([] : List Found)
      dfs B d sp (mkState (sh ≠ 0) mem tss) [] 0 budget out
      let fs ← out.get
      let used := bud - (← budget.get)
      let body := ";".intercalate (fs.reverse.map fun f => f.kind ++ "@" ++ " ".intercalate f.sched)
      return s!"dfs states={used} found={fs.length} {body}"
    | _, _, _, _, _, _, _ => return "err parse"
  | _ => return "err usage"

/-- `emit wait32|wait64|notify <stackIndex> <offset>` → the statement text of `Futex.Emit` -/
def emitCmd (ws : List String) : String :=
  match ws with
  | [kind, kS, offS] =>
    match kS.toNat?, offS.toNat? with
    | some k, some off =>
      if kind = "wait32" then Emit.waitStmt false k off
      else if kind = "wait64" then Emit.waitStmt true k off
      else if kind = "notify" then Emit.notifyStmt k off
      else "err kind"
    | _, _ => "err parse"
  | _ => "err usage"

end Driver.Futex
