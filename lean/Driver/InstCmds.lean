import Driver.Common
import W2c2Verif.Model.Instantiate
import W2c2Verif.Model.InitMem
import W2c2Verif.Model.NewChild
import W2c2Verif.Model.InitTables
import W2c2Verif.Model.FuncExports

/-!
  `I inst key=value …` — post-instantiation state (before the start function) of a module description as
  `Model.Inst.initAll` computes it, and the verdict of `Model.Inst.instantiate` with the identity as start function.

  keys: mi ti gi (numbers of imported memories/tables/globals), mems tables (`min:max,…`), globals (`c:<hex>` | `g:<idx>`),
  datas (`a|p:<mem>:<c:hex|g:idx>:<hexbytes|->` separated by `;`), elems (`<table>:<c:hex|g:idx>:<f,f…|->;…`), start (0|1),
  hmems (pages of every embedder memory object), htables (sizes), hglobals (hex values),
  rmem rtable rglobal (address returned by the resolver for the k-th import, `n` = NULL); `-` = empty list;
  shared (0|1 per defined memory), mode (arrays|gnu-ld|sectcreate1|sectcreate2, default arrays),
  hfill (`<host memory>:<offset>:<hexbytes>;…` bytes the embedder wrote into its memories before instantiation).
  answer: `val mimp=… timp=… gimp=… omems=… otables=… globals=… hglobals=… mem<addr>=<size>[/<off>:<hexbytes>…] … tab<addr>=<f|->,… | steps <same?> <emitted same?>`
          or `ub <kind>` / `trap <code>` / `oof`.  The state shown is that of `Model.InitMem.initAllE mode` (the emitted InitMemories of
          that mode, allocation through the regenerated wasmMemoryAllocate); `emitted same` = it equals `Model.Inst.initAll`.

  `I initmem mode=… mi=… mems=… shared=… datas=…` — the text of `<module>InitMemories` as `Model.InitMem.render` prints it and the data it
  refers to: `text <tokens> | blob <hex|-> | arrays <hex|-|n>;… | emitted <statements|none>`; tokens: the literal chunks, `M<i>` = `i-><memory i>`,
  `P<i>` = `parent-><memory i>`, `U<i>` = `(*i-><memory i>)`, numbers, `d<k>`, `E<c:hex|g:idx>` = the offset expression.
-/
namespace Driver
open W2c2Verif Model.Inst

def listOf (s : String) (sep : String) : List String := if s = "-" || s = "" then [] else s.splitOn sep

def parseCE (a b : String) : Option ConstE :=
  if a = "c" then (parseHex b).map .const else if a = "g" then b.toNat?.map .globalGet else none

def parseBytesI (s : String) : Option (List UInt8) :=
  if s = "-" then some [] else
  let rec go (l : List Char) (acc : List UInt8) : Option (List UInt8) :=
    match l with
    | a :: b :: r => match hexDigit a, hexDigit b with
      | some x, some y => go r (UInt8.ofNat (x * 16 + y) :: acc)
      | _, _ => none
    | [] => some acc.reverse
    | _ => none
  go s.toList []

def kv (ws : List String) (k : String) : String :=
  match ws.find? (fun w => w.startsWith (k ++ "=")) with
  | some w => (w.drop (k.length + 1)).toString
  | none => "-"

def parsePairs (s : String) : Option (List (Nat × Nat)) :=
  (listOf s ",").mapM fun t => match t.splitOn ":" with
    | [a, b] => do some ((← a.toNat?), (← b.toNat?))
    | _ => none

def parsePtrs (s : String) : Option (List (Option Nat)) :=
  (listOf s ",").mapM fun t => if t = "n" then some none else t.toNat?.map some

def showOptNats (l : List (Option Nat)) : String := ",".intercalate (l.map fun | some p => toString p | none => "n")
def showNats (l : List Nat) : String := ",".intercalate (l.map toString)
def dash (s : String) : String := if s = "" then "-" else s

def hex2 (b : UInt8) : String :=
  let d := Nat.toDigits 16 b.toNat
  String.ofList (if d.length < 2 then '0' :: d else d)

/-- `<size>/<off>:<hex>/<off>:<hex>…`: runs of non-zero bytes -/
def sparseMem (a : Array UInt8) : String := Id.run do
  let mut out : String := toString a.size
  let mut run : String := ""
  let mut start : Nat := 0
  for h : k in [0:a.size] do
    let b := a[k]
    if b ≠ 0 then
      if run = "" then start := k
      run := run ++ hex2 b
    else if run ≠ "" then
      out := out ++ "/" ++ toString start ++ ":" ++ run
      run := ""
  if run ≠ "" then out := out ++ "/" ++ toString start ++ ":" ++ run
  return out

def showTable (a : Array (Option Nat)) : String :=
  dash (",".intercalate (a.toList.map fun | some f => toString f | none => "-"))

def showSt (s : St) : String :=
  let mems := " ".intercalate (s.1.mems.zipIdx.map fun (a, k) => s!"mem{k}={sparseMem a}")
  let tabs := " ".intercalate (s.1.tables.zipIdx.map fun (a, k) => s!"tab{k}={showTable a}")
  s!"mimp={dash (showOptNats s.2.memImp)} timp={dash (showOptNats s.2.tabImp)} gimp={dash (showOptNats s.2.globImp)} " ++
  s!"omems={dash (showNats s.2.mems)} otables={dash (showNats s.2.tables)} globals={dash (",".intercalate (s.2.globals.map toHex))} " ++
  s!"hglobals={dash (",".intercalate (s.1.globals.map toHex))} {mems} {tabs}"

open W2c2Verif.Model.InitMem W2c2Verif.Gen.InitMem in
def parseMode (s : String) : Option Mode :=
  if s = "arrays" || s = "-" then some .arrays else if s = "gnu-ld" then some .gnuld
  else if s = "sectcreate1" then some .sectcreate1 else if s = "sectcreate2" then some .sectcreate2 else none

def showCE : ConstE → String
  | .const b => "c:" ++ toHex b
  | .globalGet k => "g:" ++ toString k

open W2c2Verif.Model.InitMem in
def showTok : Tok → String
  | .kw k => k.text
  | .memRef i => s!"M{i}"
  | .memRefParent i => s!"P{i}"
  | .num n => toString n
  | .segName k => s!"d{k}"
  | .memUse i => s!"U{i}"
  | .expr e => "E" ++ showCE e
  | .bad => "?"

open W2c2Verif.Model.InitMem in
def showEmitted : Emitted → String
  | .alloc i a b => s!"alloc:{i}:{a}:{b}"
  | .allocShared i a b => s!"allocShared:{i}:{a}:{b}"
  | .ptrInit k off => s!"ptr:{k}:{off}"
  | .loadArr m e k len => s!"loadArr:{m}:{showCE e}:{k}:{len}"
  | .loadBlob m e off len => s!"loadBlob:{m}:{showCE e}:{off}:{len}"

def hexBytes (l : List UInt8) : String := dash (String.join (l.map hex2))

def parseDatas (s : String) : Option (List DataSeg) :=
  (listOf s ";").mapM fun t => match t.splitOn ":" with
    | [m, idx, a, b, bytes] => do
      some ({ passive := m = "p", mem := (← idx.toNat?), offset := (← parseCE a b), bytes := (← parseBytesI bytes) } : DataSeg)
    | _ => none

def parseShared (s : String) : List Bool := (listOf s ",").map (· = "1")

/-- `<host memory>:<offset>:<hexbytes>;…` -/
def applyFill (mems : List (Array UInt8)) (s : String) : Option (List (Array UInt8)) :=
  (listOf s ";").foldlM (fun ms t => match t.splitOn ":" with
    | [p, off, bytes] => do
      let p ← p.toNat?
      let off ← off.toNat?
      let bs ← parseBytesI bytes
      let a ← ms[p]?
      some (ms.set p (writeArr a off bs))
    | _ => none) mems

open W2c2Verif.Model.InitMem in
def initmemCmd (rest : List String) : Option String := do
  let mode ← parseMode (kv rest "mode")
  let mi ← (kv rest "mi").toNat?
  let mems ← parsePairs (kv rest "mems")
  let datas ← parseDatas (kv rest "datas")
  let d : ModDesc := { memImports := mi, mems, memShared := parseShared (kv rest "shared"), datas }
  let src := sourcesOf mode d
  let arrays := ";".intercalate (src.arrays.map fun | some a => hexBytes a | none => "n")
  let em := match parse (render mode d) with
    | some es => dash (" ".intercalate (es.map showEmitted))
    | none => "none"
  some s!"text {" ".intercalate ((render mode d).map showTok)} | blob {hexBytes src.blob} | arrays {dash arrays} | emitted {em}"

/-- the module description, resolver, embedder world and data segment mode of an `I inst` / `I child` request -/
def instReq (rest : List String) : Option (ModDesc × Resolver × World × W2c2Verif.Model.InitMem.Mode) := do
  let mi ← (kv rest "mi").toNat?
  let ti ← (kv rest "ti").toNat?
  let gi ← (kv rest "gi").toNat?
  let mems ← parsePairs (kv rest "mems")
  let tables ← parsePairs (kv rest "tables")
  let globals ← (listOf (kv rest "globals") ",").mapM fun t => match t.splitOn ":" with
    | [a, b] => parseCE a b | _ => none
  let datas ← parseDatas (kv rest "datas")
  let mode ← parseMode (kv rest "mode")
  let elems ← (listOf (kv rest "elems") ";").mapM fun t => match t.splitOn ":" with
    | [tb, a, b, fs] => do
      some ({ table := (← tb.toNat?), offset := (← parseCE a b), funcs := (← (listOf fs ",").mapM String.toNat?) } : ElemSegD)
    | _ => none
  let hmems ← (listOf (kv rest "hmems") ",").mapM String.toNat?
  let htables ← (listOf (kv rest "htables") ",").mapM String.toNat?
  let hglobals ← (listOf (kv rest "hglobals") ",").mapM parseHex
  let rmem ← parsePtrs (kv rest "rmem")
  let rtable ← parsePtrs (kv rest "rtable")
  let rglobal ← parsePtrs (kv rest "rglobal")
  let d : ModDesc := { memImports := mi, tableImports := ti, globalImports := gi, mems, memShared := parseShared (kv rest "shared"),
                       tables, globals, datas, elems, hasStart := kv rest "start" = "1" }
  let hm ← applyFill (hmems.map fun p => Array.replicate (p * pageSize) 0) (kv rest "hfill")
  let w : World := { mems := hm, tables := htables.map fun n => Array.replicate n none, globals := hglobals }
  let res : Resolver := { mem := fun k => (rmem[k]?).join, table := fun k => (rtable[k]?).join, global := fun k => (rglobal[k]?).join }
  some (d, res, w, mode)

/-- `I child <keys of I inst> [pset=<defined global index>:<hex>,…] [pmem=<offset>:<hexbytes>;…]` — the parent is instantiated
    (`initAllE`), then its defined globals `pset` are overwritten and `pmem` is written into its memory 0 (what calls did to it), then
    `Model.Inst.newChild` (start function = identity) makes a child.  Answer: `val <state of the child, as I inst> | parent
    <struct unchanged?> pglobals=<parent's defined globals afterwards> pmems=<parent's own memory objects> | shared <0|1 per defined
    memory: the child's pointer = the parent's>` -/
def childCmd (rest : List String) : Option String := do
  let (d, res, w, mode) ← instReq rest
  let pset ← (listOf (kv rest "pset") ",").mapM fun t => match t.splitOn ":" with
    | [k, v] => do some ((← k.toNat?), (← parseHex v)) | _ => none
  let pmem ← (listOf (kv rest "pmem") ";").mapM fun t => match t.splitOn ":" with
    | [o, b] => do some ((← o.toNat?), (← parseBytesI b)) | _ => none
  match W2c2Verif.Model.InitMem.initAllE mode d res w with
  | .val s =>
    let self : Instance := { s.2 with globals := pset.foldl (fun g kv => g.set kv.1 kv.2) s.2.globals }
    let w1 : World := match memPtr d self 0 with
      | some p => { s.1 with mems := pmem.foldl (fun ms ob => match ms[p]? with | some a => ms.set p (writeArr a ob.1 ob.2) | none => ms) s.1.mems }
      | none => s.1
    match newChild d res .val w1 self with
    | .val x =>
      let shared := ",".intercalate ((List.range d.mems.length).map fun k => if x.child.mems[k]? == x.self.mems[k]? then "1" else "0")
      some s!"val {showSt (x.w, x.child)} | parent {x.self == self} pglobals={dash (",".intercalate (x.self.globals.map toHex))} pmems={dash (showNats x.self.mems)} | shared {dash shared}"
    | .ub k => some s!"ub {k.name}"
    | .trap t => some s!"trap {t.code}"
    | .oof => some "oof"
  | .ub k => some s!"parent-ub {k.name}"
  | .trap t => some s!"parent-trap {t.code}"
  | .oof => some "parent-oof"

def showTTok : W2c2Verif.Model.InitTables.Tok → String
  | .kw k => k.text
  | .tableRef i => s!"R{i}"
  | .tableUse i => s!"T{i}"
  | .num n => toString n
  | .expr e => "E" ++ showCE e
  | .funcRef f => s!"F{f}"
  | .bad => "?"

/-- `I inittables pretty=<0|1> ti=<imported tables> tables=<min:max,…> elems=<table>:<c:hex|g:idx>:<f,f…|->;…` — the body of
    `<module>InitTables` as `Model.InitTables.render` prints it: `text <tokens>`; tokens: the literal chunks, `R<i>` = `&i->t<i>`,
    `T<i>` = table i used as a value, numbers, `E<c:hex|g:idx>` = the offset expression, `F<f>` = `&<function f>` -/
def inittablesCmd (rest : List String) : Option String := do
  let ti ← (kv rest "ti").toNat?
  let tables ← parsePairs (kv rest "tables")
  let elems ← (listOf (kv rest "elems") ";").mapM fun t => match t.splitOn ":" with
    | [tb, a, b, fs] => do
      some ({ table := (← tb.toNat?), offset := (← parseCE a b), funcs := (← (listOf fs ",").mapM String.toNat?) } : ElemSegD)
    | _ => none
  let d : ModDesc := { tableImports := ti, tables, elems }
  some s!"text {" ".intercalate ((W2c2Verif.Model.InitTables.render (kv rest "pretty" = "1") d).map showTTok)}"

/-- `I funcexports exports=<f|m|t|g>:<index>,…` — `<module>FuncExports` as `Model.FuncExports.table` builds it:
    `size <declared rows> rows <function index of every written row, `-` = NULL row>` or `toolong` -/
def funcexportsCmd (rest : List String) : Option String := do
  let es ← (listOf (kv rest "exports") ",").mapM fun t => match t.splitOn ":" with
    | [k, i] => do
      let kind ← if k = "f" then some W2c2Verif.Gen.FuncExports.Kind.func else if k = "m" then some .memory
                 else if k = "t" then some .table else if k = "g" then some .global else none
      some ({ kind, index := (← i.toNat?), name := [] } : W2c2Verif.Model.FuncExports.Export)
    | _ => none
  match W2c2Verif.Model.FuncExports.table es with
  | some t => some s!"size {W2c2Verif.Model.FuncExports.declaredRows es} rows {dash (",".intercalate (t.map fun | some r => toString r.1 | none => "-"))}"
  | none => some "toolong"

def instCmd (ws : List String) : Option String :=
  match ws with
  | "I" :: "initmem" :: rest => some ((initmemCmd rest).getD "err parse")
  | "I" :: "child" :: rest => some ((childCmd rest).getD "err parse")
  | "I" :: "inittables" :: rest => some ((inittablesCmd rest).getD "err parse")
  | "I" :: "funcexports" :: rest => some ((funcexportsCmd rest).getD "err parse")
  | "I" :: "inst" :: rest =>
    let r : Option String := do
      let (d, res, w, mode) ← instReq rest
      let a := W2c2Verif.Model.InitMem.initAllE mode d res w
      let a0 := initAll d res w
      let b := instantiate d res .val w
      let eqSt : Out St → Out St → Bool := fun a b => match a, b with
        | .val x, .val y => x.2 == y.2 && x.1.globals == y.1.globals && x.1.mems == y.1.mems && x.1.tables == y.1.tables
        | .ub k, .ub k' => k == k'
        | _, _ => false
      let same := eqSt a0 b
      let esame := eqSt a a0
      some (match a with
        | .val s => s!"val {showSt s} | steps {same} {esame}"
        | .ub k => s!"ub {k.name} | steps {same} {esame}"
        | .trap t => s!"trap {t.code}"
        | .oof => "oof")
    some (r.getD "err parse")
  | _ => none

end Driver
