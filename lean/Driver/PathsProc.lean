import Driver.PathsCommon
import W2c2Verif.Model.WasiProc

/-! C15 requests of `pathsdriver` (same lines as tools/harness/wasi_paths.c):
    `args|env <memsize> <p> <b> <cP> <sP> <n> <hex>*n`  → `e1 count size e2 <memhex | fnv:XXXXXXXX>`
    `clockf <id> <sec> <nsec>`                          → `0 <ns> <CLOCK_NAME>` | `<errno> - none` | `ub …`
    `random <len>`                                      → `<errno> <bytesWritten> <outsideChanged>`
    `exit <code>`                                       → `exited <status>`
    `spawn <threads> <per> <hasExport> [seed]`          → `ids … neg N children C starts … argsok 1` -/
namespace Driver.Paths
open W2c2Verif W2c2Verif.WasiPath W2c2Verif.WasiProc

def showMem (m : Mem) : String := if m.length ≤ 2048 then hex m else s!"fnv:{hex8 (fnv m)}"

def vecCmd (isEnv : Bool) (msize p b cP sP : Nat) (v : List (List UInt8)) : String :=
  let mem0 : Mem := List.replicate msize 0xAA
  let r1 := if isEnv then environSizesGet v mem0 cP sP else argsSizesGet v mem0 cP sP
  match r1 with
  | .ub k => showUB k
  | .val (e1, m1) =>
    let cnt := leVal ((m1.drop cP).take 4)
    let sz := leVal ((m1.drop sP).take 4)
    match (if isEnv then environGet v mem0 p b else argsGet v mem0 p b) with
    | .ub k => showUB k
    | .val (e2, m2) => s!"{e1} {cnt} {sz} {e2} {showMem m2}"
    | _ => "oof"
  | _ => "oof"

/-- seeded scheduler over the executable transition system: `threads` spawner threads issue `per`
    calls each (call `j` of spawner `t` has arg `1000·t + j`); every step of every call and every
    thread start is a separately scheduled action -/
structure Sim where
  sys : Sys
  issued : List Nat          -- per spawner: number of calls issued
  cur : List (Option Nat)    -- per spawner: index of its call in flight
  rng : Nat

def lcg (x : Nat) : Nat := (x * 6364136223846793005 + 1442695040888963407) % 18446744073709551616

def callDone (s : Sys) (i : Nat) : Bool :=
  match s.calls[i]? with
  | some (.done _ _) => true
  | _ => false

def nextAction (s : Sys) (i : Nat) : Option Action :=
  match s.calls[i]? with
  | some (.init _) => some (.lookup i)
  | some (.looked _) => some (.fetchAdd i)
  | some (.gotId _ _) => some (.newChild i)
  | some (.hasChild _ _ _) => some (.create i)
  | _ => none

def simulate (hasExport : Bool) (per : Nat) : Nat → Sim → Sim
  | 0, sim => sim
  | fuel + 1, sim =>
    let n := sim.issued.length
    -- enabled choices: spawner t (issue or advance), or run pending thread j
    let pendingThreads := (List.range sim.sys.threads.length).filter (fun j => !sim.sys.started.contains j)
    let spawners := (List.range n).filter (fun t =>
      match sim.cur.getD t none with
      | some i => !callDone sim.sys i || sim.issued.getD t 0 < per
      | none => sim.issued.getD t 0 < per)
    let choices := spawners.map Sum.inl ++ pendingThreads.map Sum.inr
    if choices.isEmpty then sim else
    let r := lcg sim.rng
    match choices.getD ((r / 65536) % choices.length) (Sum.inl 0) with
    | .inr j =>
      match exec hasExport sim.sys (.run j) with
      | some s' => simulate hasExport per fuel { sim with sys := s', rng := r }
      | none => sim
    | .inl t =>
      let issueNew : Sim :=
        let arg := 1000 * t + sim.issued.getD t 0
        match exec hasExport sim.sys (.call arg) with
        | some s' => { sys := s', issued := sim.issued.set t (sim.issued.getD t 0 + 1),
                       cur := sim.cur.set t (some (s'.calls.length - 1)), rng := r }
        | none => sim
      match sim.cur.getD t none with
      | none => simulate hasExport per fuel issueNew
      | some i =>
        if callDone sim.sys i then simulate hasExport per fuel issueNew
        else match nextAction sim.sys i with
          | some a => match exec hasExport sim.sys a with
            | some s' => simulate hasExport per fuel { sim with sys := s', rng := r }
            | none => sim
          | none => sim

def joinNats (l : List Nat) : String := if l.isEmpty then "-" else ",".intercalate (l.map toString)

def sortNats (l : List Nat) : List Nat := (l.toArray.qsort (· < ·)).toList

def spawnCmd (threads per : Nat) (hasExport : Bool) (seed : Nat) : String :=
  let init : Sim := ⟨Sys.initial, List.replicate threads 0, List.replicate threads none, seed + 12345⟩
  let sim := simulate hasExport per (threads * per * 8 + 64) init
  let s := sim.sys
  let ids := sortNats (s.calls.filterMap fun c => match c with | .done _ (some t) => some t | _ => none)
  let neg := (s.calls.filter fun c => match c with | .done _ none => true | _ => false).length
  let starts := sortNats (s.started.filterMap fun j => (s.threads[j]?).map (·.tid))
  -- every start carries the (tid, arg) of a successfully returned call and a child created for it
  let argsok := s.started.all fun j => match s.threads[j]? with
    | some t => s.calls.any (fun c => c == .done t.arg (some t.tid)) && t.child < s.children
    | none => false
  s!"ids {joinNats ids} neg {neg} children {s.children} starts {joinNats starts} argsok {if argsok then 1 else 0}"

/-- `spawnx ncalls argbase k namehex*k`: one thread issues `ncalls` thread-spawn calls one after the other on
    a module whose export table has the given names (function of export `i` = marker `i`); every call runs
    to completion and its thread starts before the next call.
    answer: `ret r1,…` (as i32) ` ran idx:tid:arg:childOk,…` (sorted by tid) ` children N` -/
def spawnxCmd (childFirst : Bool) (ncalls argbase : Nat) (names : List String) : String :=
  let table : ExportTable := names.zipIdx.map fun (n, i) => (n, i)
  let entry := lookupStart table
  let has := entry.isSome
  let runOne (s : Sys) (arg : Nat) : Sys :=
    match exec has s (.call arg) with
    | none => s
    | some s1 =>
      let i := s1.calls.length - 1
      let rec go (fuel : Nat) (s : Sys) : Sys :=
        match fuel with
        | 0 => s
        | fuel + 1 => match nextAction s i with
          | some a => match exec has s a with
            | some s' => go fuel s'
            | none => s
          | none => s
      let s2 := go 8 s1
      -- the created thread (if any) runs
      match exec has s2 (.run (s2.threads.length - 1)) with
      | some s3 => s3
      | none => s2
  let final := (List.range ncalls).foldl (fun s j => runOne s (argbase + j)) Sys.initial
  -- `childFirst`: every created thread has run to completion before its spawner continues
  let retOuts := final.calls.map fun c => match c with
    | .done _ (some t) => spawnReturn childFirst t
    | _ => (.val 4294967295 : Out Nat)
  if retOuts.any (fun o => match o with | .ub _ => true | _ => false) then "ub useAfterFree" else
  let rets := retOuts.map fun o => match o with
    | .val 4294967295 => "-1"
    | .val t => toString t
    | _ => "?"
  let ran := final.started.filterMap fun j => (final.threads[j]?).map fun t =>
    s!"{entry.getD 99}:{t.tid}:{t.arg}:{if t.child < final.children then 1 else 0}"
  let showL (l : List String) := if l.isEmpty then "-" else ",".intercalate l
  s!"ret {showL rets} ran {showL ran} children {final.children}"

/-- `spawnm childFirst argbase M {k namehex*k}*M ncalls inst*ncalls`: several module instances in one process, each
    with its own export table (export `j` of instance `i` has the marker `100·i + j`); the calls are issued one
    after the other by the named instances, every started thread runs before the next call.  The start function
    of a call is `lookupCall prev table` (the model of the lookup including the storage class of its result).
    answer: `ret r,…` ` ran callerInst:entryInst:entryExport:tid:arg:childOk,…` ` children N` -/
def spawnmCmd (childFirst : Bool) (argbase : Nat) (tables : List (List String)) (callers : List Nat) : String :=
  let tbls : List ExportTable := tables.zipIdx.map fun (names, i) => names.zipIdx.map fun (n, j) => (n, 100 * i + j)
  let step (acc : Sys × Option Nat × List String × Nat) (who : Nat) : Sys × Option Nat × List String × Nat :=
    let (s, prev, ran, j) := acc
    let entry := lookupCall prev (tbls.getD who [])
    let has := entry.isSome
    let arg := argbase + j
    match exec has s (.call arg) with
    | none => (s, entry, ran, j + 1)
    | some s1 =>
      let i := s1.calls.length - 1
      let rec go (fuel : Nat) (s : Sys) : Sys :=
        match fuel with
        | 0 => s
        | fuel + 1 => match nextAction s i with
          | some a => match exec has s a with
            | some s' => go fuel s'
            | none => s
          | none => s
      let s2 := go 8 s1
      if has then
        match exec has s2 (.run (s2.threads.length - 1)) with
        | some s3 =>
          let r := match s3.threads.getLast? with
            | some t => [s!"{who}:{entry.getD 0 / 100}:{entry.getD 0 % 100}:{t.tid}:{t.arg}:{if t.child < s3.children then 1 else 0}"]
            | none => []
          (s3, entry, ran ++ r, j + 1)
        | none => (s2, entry, ran, j + 1)
      else (s2, entry, ran, j + 1)
  let (final, _, ran, _) := callers.foldl step (Sys.initial, none, [], 0)
  let retOuts := final.calls.map fun c => match c with
    | .done _ (some t) => spawnReturn childFirst t
    | _ => (.val 4294967295 : Out Nat)
  if retOuts.any (fun o => match o with | .ub _ => true | _ => false) then "ub useAfterFree" else
  let rets := retOuts.map fun o => match o with
    | .val 4294967295 => "-1"
    | .val t => toString t
    | _ => "?"
  let showL (l : List String) := if l.isEmpty then "-" else ",".intercalate l
  s!"ret {showL rets} ran {showL ran} children {final.children}"

/-- parse `{k namehex*k}*M` -/
def parseTables : Nat → List String → Option (List (List String) × List String)
  | 0, rest => some ([], rest)
  | m + 1, k :: rest => do
    let k ← k.toNat?
    if rest.length < k then none else
    let names ← (rest.take k).mapM fun h => (unhex h).map fun b => String.ofList (b.map fun c => Char.ofNat c.toNat)
    let (more, rest') ← parseTables m (rest.drop k)
    some (names :: more, rest')
  | _, [] => none

def procCmd (ws : List String) : Option String :=
  match ws with
  | "argsx" :: msize :: p :: b :: cP :: sP :: argc :: n :: rest => do
    let msize ← msize.toNat?
    let p ← p.toNat?
    let b ← b.toNat?
    let cP ← cP.toNat?
    let sP ← sP.toNat?
    let argc ← argc.toNat?
    let arr : Option (List (List UInt8)) ← if n == "-1" then some none else do
      let v ← rest.mapM unhex
      if toString v.length ≠ n then none else some (some v)
    let mem0 : Mem := List.replicate msize 0xAA
    match argsSizesGetArr arr argc mem0 cP sP with
    | .ub k => some (showUB k)
    | .val (e1, m1) =>
      let cnt := leVal ((m1.drop cP).take 4)
      let sz := leVal ((m1.drop sP).take 4)
      -- args_get: `for (; index < wasi.argc; index++)` over the same array
      let v := (arr.getD []).take argc
      if argc > (arr.getD []).length then some "ub nullDeref" else
      match argsGet v mem0 p b with
      | .ub k => some (showUB k)
      | .val (e2, m2) => some s!"{e1} {cnt} {sz} {e2} {showMem m2}"
      | _ => some "oof"
    | _ => some "oof"
  | "spawnm" :: cf :: ab :: m :: rest => do
    let cf ← cf.toNat?
    let ab ← ab.toNat?
    let m ← m.toNat?
    let (tables, rest') ← parseTables m rest
    match rest' with
    | n :: callers => do
      let n ← n.toNat?
      let callers ← callers.mapM String.toNat?
      if callers.length ≠ n then none else some (spawnmCmd (cf != 0) ab tables callers)
    | [] => none
  | "spawnx" :: n :: ab :: k :: rest => do
    let n ← n.toNat?
    let ab ← ab.toNat?
    let k ← k.toNat?
    let names ← rest.mapM fun h => (unhex h).map fun bs => String.ofList (bs.map fun b => Char.ofNat b.toNat)
    if names.length ≠ k then none else some (spawnxCmd false n ab names)
  | "spawnxs" :: n :: ab :: k :: rest => do
    let n ← n.toNat?
    let ab ← ab.toNat?
    let k ← k.toNat?
    let names ← rest.mapM fun h => (unhex h).map fun bs => String.ofList (bs.map fun b => Char.ofNat b.toNat)
    if names.length ≠ k then none else some (spawnxCmd true n ab names)
  | kind :: msize :: p :: b :: cP :: sP :: n :: rest =>
    if kind == "args" || kind == "env" then do
      let msize ← msize.toNat?
      let p ← p.toNat?
      let b ← b.toNat?
      let cP ← cP.toNat?
      let sP ← sP.toNat?
      let n ← n.toNat?
      let v ← rest.mapM unhex
      if v.length ≠ n then none else
      some (vecCmd (kind == "env") msize p b cP sP v)
    else none
  | "clockf" :: id :: rest => do
    -- `clockf id sec nsec` (precision 1) | `clockf id precision sec nsec`
    let id ← id.toNat?
    let (prec, sec, nsec) ← match rest with
      | [sec, nsec] => some ((1 : Nat), ← sec.toInt?, ← nsec.toInt?)
      | [p, sec, nsec] => some (← p.toNat?, ← sec.toInt?, ← nsec.toInt?)
      | _ => none
    let name := (clockNative id prec).getD "none"
    match clockTimeGet (fun _ => .inr (sec, nsec)) id prec (List.replicate 8 0xAA) 0 with
    | .val (0, m) =>
      let u := leVal m
      let v : Int := if u < 9223372036854775808 then u else (u : Int) - 18446744073709551616
      some s!"0 {v} {name}"
    | .val (e, _) => some s!"{e} - {name}"
    | .ub k => some (showUB k)
    | _ => some "oof"
  | ["clockfb", id, sec, usec] => do
    -- fallback-timer configuration: interposed gettimeofday / getrusage deliver (sec, usec)
    let id ← id.toNat?
    let sec ← sec.toInt?
    let usec ← usec.toInt?
    let call := match Gen.WasiPath.fallbackClockTable.find? (fun r => r.1 == id) with
      | some (_, n) => n
      | none => "none"
    match clockTimeGetFallback (fun _ => .inr (sec, usec)) id (List.replicate 8 0xAA) 0 with
    | .val (0, m) =>
      let u := leVal m
      let v : Int := if u < 9223372036854775808 then u else (u : Int) - 18446744073709551616
      some s!"0 {v} {call}"
    | .val (e, _) => some s!"{e} - {call}"
    | .ub k => some (showUB k)
    | _ => some "oof"
  | ["random", len] => do
    let len ← len.toNat?
    let mem : Mem := List.replicate (64 + len) 0
    match randomGet (getentropySpec (fun _ => 1)) (fun m _ _ => .val (Gen.WasiPath.errnoSuccess, m)) (fun _ => 2) mem 64 len with
    | .val (e, m) =>
      let written := ((m.drop 64).filter (· != 0)).length
      let outside := if (m.take 64).all (· == 0) then 0 else 1
      some s!"{e} {written} {outside}"
    | .ub k => some (showUB k)
    | _ => some "oof"
  | ["exit", code] => do
    let code ← code.toNat?
    some s!"exited {procExitStatus code}"
  | ["spawn", t, p, e] => do
    some (spawnCmd (← t.toNat?) (← p.toNat?) ((← e.toNat?) != 0) 1)
  | ["spawn", t, p, e, seed] => do
    some (spawnCmd (← t.toNat?) (← p.toNat?) ((← e.toNat?) != 0) (← seed.toNat?))
  | _ => none

end Driver.Paths
