import W2c2Verif.CSem.Basic

/-! helpers of the `pathsdriver` line protocol (hex byte strings, FNV-1a, words) -/
namespace Driver.Paths
open W2c2Verif

def hexDigit (c : Char) : Option Nat :=
  if '0' ≤ c ∧ c ≤ '9' then some (c.toNat - '0'.toNat)
  else if 'a' ≤ c ∧ c ≤ 'f' then some (c.toNat - 'a'.toNat + 10)
  else if 'A' ≤ c ∧ c ≤ 'F' then some (c.toNat - 'A'.toNat + 10)
  else none

/-- `-` is the empty byte string -/
def unhex (s : String) : Option (List UInt8) :=
  if s == "-" then some [] else
  let rec go : List Char → List UInt8 → Option (List UInt8)
    | [], acc => some acc.reverse
    | [_], _ => none
    | a :: b :: rest, acc =>
      match hexDigit a, hexDigit b with
      | some x, some y => go rest (UInt8.ofNat (x * 16 + y) :: acc)
      | _, _ => none
  go s.toList []

def hexChar (n : Nat) : Char := if n < 10 then Char.ofNat (48 + n) else Char.ofNat (87 + n)

def hex (bs : List UInt8) : String :=
  if bs.isEmpty then "-" else
  String.ofList (bs.foldr (fun b acc => hexChar (b.toNat / 16) :: hexChar (b.toNat % 16) :: acc) [])

def fnv (bs : List UInt8) : Nat :=
  bs.foldl (fun h b => ((h ^^^ b.toNat) * 16777619) % 4294967296) 2166136261

def hex8 (n : Nat) : String :=
  let d := Nat.toDigits 16 n
  String.ofList (List.replicate (8 - d.length) '0' ++ d)

def words (line : String) : List String :=
  (line.trimAscii.toString.splitOn " ").filter (· ≠ "")

def showUB (k : UBKind) : String := s!"ub {k.name}"

end Driver.Paths
