import Driver.SpecCmds
import Driver.GenCmds
import Driver.NumCmds
import Driver.MemCmds
import Driver.LitCmds
import Driver.EmitCmds
import Driver.SimCmds
import Driver.InstCmds

open Driver

def handle (line : String) : String :=
  let ws := words line
  match specCmd ws with
  | some r => r
  | none =>
  match macroCmd ws with
  | some r => r
  | none =>
  match numCmd ws with
  | some r => r
  | none =>
  match memCmd ws with
  | some r => r
  | none =>
  match litCmd ws with
  | some r => r
  | none => "err unknown-command"

partial def loop (h : IO.FS.Stream) (out : IO.FS.Stream) (sess : EmitSession) : IO Unit := do
  let line ← h.getLine
  if line.isEmpty then return ()
  match simCmd sess (words line) with
  | some r => out.putStrLn r; loop h out sess
  | none =>
  match instCmd (words line) with
  | some r => out.putStrLn r; loop h out sess
  | none =>
  match simCmd2 sess (words line) with
  | some (sess', r) => out.putStrLn r; loop h out sess'
  | none =>
  match emitCmd sess (words line) with
  | some (sess', r) => out.putStrLn r; loop h out sess'
  | none => out.putStrLn (handle line); loop h out sess

def main : IO Unit := do
  let out ← IO.getStdout
  loop (← IO.getStdin) out {}
  out.flush
