/-
  Driver.ReaderArray — `arr <itemSize> <length_1> … <length_k>`: starting from an empty array, call
  `EnsureCapacity(length_i)` in turn (Model.Array, 64-bit `size_t`, allocator never fails); after each call check
  that the slots filled so far still hold their marks, then mark slots `0 … length_i − 1`.
  Output per call `capacity:preserved`; `OVERFLOW` (and stop) if marking would leave the allocated block — the
  event AddressSanitizer reports on the real code (tools/harness/array_harness.c prints the same text).
-/
import W2c2Verif.Model.Array
import Driver.ReaderLeb

namespace Driver.Reader
open W2c2Verif.Model.Array

def arrRun (itemSize : Nat) : List Nat → Block Nat → Nat → List String → List String
  | [], _, _, acc => acc.reverse
  | len :: rest, b, filled, acc =>
    match ensureCapacity (2 ^ 64) itemSize true b len with
    | none => ("FAIL" :: acc).reverse
    | some b' =>
      let preserved := (List.range filled).all fun i => b'.slots[i]? == some (some i)
      if len ≤ b'.slots.length then
        let marked := (List.range len).map (fun i => some i) ++ b'.slots.drop len
        arrRun itemSize rest { b' with slots := marked } (max filled len)
          (s!"{b'.capacity}:{b01 preserved}" :: acc)
      else ("OVERFLOW" :: s!"{b'.capacity}:{b01 preserved}" :: acc).reverse

def arrCmd : List String → Option String
  | "arr" :: itemSize :: lens =>
    match itemSize.toNat?, lens.mapM String.toNat? with
    | some sz, some ls => if sz = 0 then some "err bad-item-size" else some (" ".intercalate (arrRun sz ls Block.empty 0 []))
    | _, _ => some "err bad-number"
  | _ => none

end Driver.Reader
