import Driver.PathsCommon
import W2c2Verif.Model.WasiPath
import Driver.PathsReaddir
import Driver.PathsOps
import Driver.PathsProc

/-! `pathsdriver` — line-protocol driver of the C14/C15 models (one line in → one line out;
    the same request lines as tools/harness/wasi_paths.c). -/
open Driver.Paths W2c2Verif W2c2Verif.WasiPath

namespace Driver.Paths

/-- synthetic directory string of the `rps` sweep (same formula as in wasi_paths.c) -/
def synthDir (n : Nat) (dslash : Bool) : List UInt8 :=
  let base := (List.range n).map fun i => if i = 0 then (47 : UInt8) else UInt8.ofNat (97 + i % 26)
  match n with
  | 0 => []
  | k + 1 =>
    if dslash then base.set k 47
    else if base[k]? = some 47 then base.set k 100 else base

def synthPath (n : Nat) (isabs : Bool) (seed : Nat) : List UInt8 :=
  let base := (List.range n).map fun i => UInt8.ofNat ((i * 131 + seed * 31 + i / 256) % 251 + 1)
  if n = 0 then [] else
  let b := if isabs then base.set 0 47 else if base[0]? = some 47 then base.set 0 46 else base
  if seed % 4 = 3 ∧ n ≥ 2 then b.set (n / 2) 0 else b

def showResolve (summary : Bool) : Out (Option (List UInt8)) → String
  | .val none => "none"
  | .val (some buf) =>
    let s := cstr buf
    if summary then s!"some {s.length} {hex8 (fnv s)}" else s!"some {hex s}"
  | .ub k => showUB k
  | .trap _ => "trap"
  | .oof => "oof"

def pathCmd (ws : List String) : Option String :=
  match ws with
  | ["rp", pm, d, a, len] => do
    let pm ← pm.toNat?
    let d ← unhex d
    let a ← unhex a
    let len ← len.toNat?
    some (showResolve false (resolvePath pm (d ++ [0]) a len (List.replicate pm 0xAA)))
  | ["rps", pm, dl, ds, ab, len, seed] => do
    let pm ← pm.toNat?
    let dl ← dl.toNat?
    let ds ← ds.toNat?
    let ab ← ab.toNat?
    let len ← len.toNat?
    let seed ← seed.toNat?
    some (showResolve true (resolvePath pm (synthDir dl (ds != 0) ++ [0]) (synthPath len (ab != 0) seed) len
      (List.replicate pm 0xAA)))
  | _ => none

end Driver.Paths

def handle (line : String) : String :=
  let ws := words line
  match pathCmd ws with
  | some r => r
  | none =>
  match readdirCmd ws with
  | some r => r
  | none =>
  match opsCmd ws with
  | some r => r
  | none =>
  match procCmd ws with
  | some r => r
  | none => "err unknown-command"

partial def loop (h : IO.FS.Stream) (out : IO.FS.Stream) : IO Unit := do
  let line ← h.getLine
  if line.isEmpty then return ()
  out.putStrLn (handle line)
  loop h out

def main : IO Unit := do
  let out ← IO.getStdout
  loop (← IO.getStdin) out
  out.flush
