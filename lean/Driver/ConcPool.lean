/-
  Driver.ConcPool — line protocol for the C09 pool/partition/split models:

    plan <fOpt> <count> <nStatic> <nDynamic>     -> main | files s:<i>:<a>:<b> … d:<i>:<a>:<b> …
    split <h,h,…|-> <r,r,…|->                    -> static <idx,…|-> dynamic <idx,…|->      (hex hashes in function-index order)
    psched <N> <K> <token>…                       -> ok ops <op>… ex <worker>:<file>… pcs <pc>…  |  mismatch <k> <what>
       tokens of tools/sched: `k` (thread k performs its pending pthread operation and runs to the next one),
       `k/j` (signal waking the j-th parked thread in thread-id order), `ks` (spurious wake-up of k)
-/
import W2c2Verif.Model.Pool
import W2c2Verif.Model.Partition
import W2c2Verif.Model.Split

namespace Driver.Pool
open W2c2Verif W2c2Verif.Model W2c2Verif.Model.Pool

def planCmd (fOpt count nS nD : Nat) : String :=
  match Partition.plan fOpt count nS nD with
  | none => "main"
  | some (s, d) =>
    let f (p : String) (l : List (Nat × Nat × Nat)) := l.map fun e => s!" {p}:{e.1}:{e.2.1}:{e.2.2}"
    "files" ++ String.join (f "s" s) ++ String.join (f "d" d)

def hexVal (s : String) : Nat :=
  s.toList.foldl (fun acc c =>
    let d := if '0' ≤ c ∧ c ≤ '9' then c.toNat - '0'.toNat
             else if 'a' ≤ c ∧ c ≤ 'f' then c.toNat - 'a'.toNat + 10 else 0
    acc * 16 + d) 0

def parseHashes (s : String) : List Nat := if s == "-" then [] else (s.splitOn ",").map hexVal

def showIdx (l : List Split.FnId) : String :=
  if l.isEmpty then "-" else ",".intercalate (l.map fun x => toString x.idx)

def splitCmd (hs rs : String) : String :=
  let ids := Split.sortIds (Split.idsOf (parseHashes hs))
  let ref := Split.sortIds (Split.idsOf (parseHashes rs))
  let r := Split.split ids ref
  s!"static {showIdx r.1} dynamic {showIdx r.2} sorted {showIdx ids}"

/-- program counters at which the next statement is a pthread call (a scheduling point of tools/sched) -/
def PC.isSync : PC → Bool
  | .w0 | .w1 | .w3 | .w3p | .w3r | .w5 | .w8 | .wret
  | .p1 | .p3 | .p3p | .p3r | .p6 | .p7 | .p8 | .p10 | .p10p | .p10r | .p12 | .p13 | .p14 | .pend => true
  | _ => false

def opName : PC → String
  | .w0 | .p1 | .p8 => "lock"
  | .w1 => "signal:produce" | .p6 => "signal:consume"
  | .w3 => "cond_wait:consume" | .p3 | .p10 => "cond_wait:produce"
  | .w3p | .p3p | .p10p => "wake"
  | .w3r | .p3r | .p10r => "reacquire"
  | .w5 | .w8 | .p7 | .p13 => "unlock"
  | .p12 => "broadcast:consume"
  | .p14 => "join"
  | _ => "none"

abbrev St := Sh × (Tid → Loc)

/-- run the local (non-pthread) statements of thread `t` up to its next pthread call -/
def runLocal (cfg : Cfg) (t : Nat) : Nat → St → St
  | 0, s => s
  | f + 1, s =>
    if PC.isSync (s.2 t).pc && !((s.2 t).pc == .p14 && (s.2 t).j > cfg.N) then s
    else match step true cfg t s.1 (s.2 t) with
      | (g', l') :: _ => runLocal cfg t f (g', upd s.2 t l')
      | [] => s

def nthSmallest (l : List Nat) (j : Nat) : Option Nat := (l.mergeSort (· ≤ ·))[j]?

/-- one scheduler token; returns the new state and the operation performed -/
def token (cfg : Cfg) (s : St) (t : Nat) (j : Nat) (spur : Bool) : Except String (St × String) :=
  let l := s.2 t
  let pc := l.pc
  if spur then
    -- spurious wake-up of a parked thread
    if (pc == .w3p && s.1.consume.contains t) || ((pc == .p3p || pc == .p10p) && s.1.produce.contains t) then
      match step true cfg t s.1 l with
      | (g', l') :: _ => .ok ((g', upd s.2 t l'), "spurious-wake")
      | [] => .error "spurious: no step"
    else .error s!"thread {t} is not parked (pc {repr pc})"
  else
    let finish (s' : St) (op : String) : Except String (St × String) := .ok (runLocal cfg t 64 s', op)
    match pc with
    | .w3p | .p3p | .p10p =>
      -- signalled waiter: leave the wait, then re-acquire (one token of the shim)
      let parked := if pc == .w3p then s.1.consume.contains t else s.1.produce.contains t
      if parked then .error s!"thread {t} is parked and was not signalled"
      else match step false cfg t s.1 l with
        | (g1, l1) :: _ =>
          match step false cfg t g1 l1 with
          | (g2, l2) :: _ => finish (g2, upd s.2 t l2) "reacquire"
          | [] => .error "reacquire: mutex not free"
        | [] => .error "wake: no step"
    | .w1 | .p6 =>
      -- signal: wake the j-th parked thread in thread-id order
      let ws := if pc == .w1 then s.1.produce else s.1.consume
      let choices := step false cfg t s.1 l
      if ws.isEmpty then
        match choices with
        | (g', l') :: _ => finish (g', upd s.2 t l') (opName pc)
        | [] => .error "signal: no step"
      else match nthSmallest ws j with
        | none => .error s!"signal: no waiter #{j}"
        | some w =>
          match choices.find? (fun c => !(if pc == .w1 then c.1.produce else c.1.consume).contains w) with
          | some (g', l') => finish (g', upd s.2 t l') (opName pc)
          | none => .error "signal: choice not found"
    | .wret | .pend => .error s!"thread {t} has finished"
    | _ =>
      if !PC.isSync pc then .error s!"thread {t} not at a pthread call (pc {repr pc})"
      else match step false cfg t s.1 l with
        | (g', l') :: _ => finish (g', upd s.2 t l') (if pc == .p14 then s!"join:{l.j}" else opName pc)
        | [] => .error s!"thread {t}: {opName pc} not enabled"

def parseToken (tok : String) : Option (Nat × Nat × Bool) :=
  if tok.endsWith "s" then (tok.dropEnd 1).toString.toNat?.map (fun t => (t, 0, true))
  else match tok.splitOn "/" with
    | [a] => a.toNat?.map (fun t => (t, 0, false))
    | [a, b] => do let t ← a.toNat?; let j ← b.toNat?; pure (t, j, false)
    | _ => none

def pcName (p : PC) : String := ((toString (repr p)).splitOn ".").getLast!

def pschedCmd (N K : Nat) (toks : List String) : String :=
  let cfg : Cfg := { N := N, K := K, startOf := fun i => i }
  let s0 : St := (List.range (N + 1)).foldl (fun s t => runLocal cfg t 64 s) (initState cfg)
  let rec go (s : St) (k : Nat) (ts : List String) (ops : List String) : String :=
    match ts with
    | [] =>
      let ex := s.1.ex.reverse.map fun e => s!"{e.1}:{e.2.1}"
      let pcs := (List.range (N + 1)).map fun t => pcName (s.2 t).pc
      s!"ok ops {" ".intercalate ops.reverse} ex {" ".intercalate ex} pcs {" ".intercalate pcs}"
    | tok :: rest =>
      match parseToken tok with
      | none => s!"mismatch {k} bad-token {tok}"
      | some (t, j, sp) =>
        if t > N then s!"mismatch {k} no-such-thread {t}" else
        match token cfg s t j sp with
        | .ok (s', op) => go s' (k + 1) rest (op :: ops)
        | .error e => s!"mismatch {k} {e}"
  go s0 0 toks []

def cmd (ws : List String) : Option String :=
  match ws with
  | ["plan", a, b, c, d] =>
    match a.toNat?, b.toNat?, c.toNat?, d.toNat? with
    | some a, some b, some c, some d => some (planCmd a b c d)
    | _, _, _, _ => some "err args"
  | ["split", hs, rs] => some (splitCmd hs rs)
  | "psched" :: n :: k :: toks =>
    match n.toNat?, k.toNat? with
    | some n, some k => some (pschedCmd n k toks)
    | _, _ => some "err args"
  | _ => none

end Driver.Pool
