/-
  Driver.ConcGrow — line protocol for the C18 model (Model/Grow.lean):

    gstatus                                   -> rul <0|1> lostupdate <0|1> wrapzero <0|1> sizerace <0|1> allocsize <n> rulrepaired <0|1> rulsize <0|1>
    gsteps gen|repaired                       -> the step list in the syntax gen_memfuncs.py emits, `;`-separated
    gsched <gen|repaired> <init> <max> <shared> <schedule> <op>…    op = g<delta> | s
                                              -> ret <v|->… pages <p> size <s> [blocked <t>]…   (same as grow_sched.c)
    gseq <gen|repaired> <init> <max> <shared> <delta>…              -> ret <v>… pages <p> size <s>
    gcontent <gen|repaired> <init> <max> <reallocFails> <delta>…    -> r=<ret>,p=<pages>,o=<0|1>,z=<n>,f=<off|-> …   (same as grow_sched.c `content`)
-/
import W2c2Verif.Lemmas.GrowCex
import W2c2Verif.Model.GrowContent

namespace Driver.Grow
open W2c2Verif W2c2Verif.Model W2c2Verif.Model.Grow

def fldName : MFld → String
  | .data => ".data" | .size => ".size" | .pages => ".pages" | .maxPages => ".maxPages" | .shared => ".shared"

partial def exprStr : MExpr → String
  | .lit n => s!"(.lit {n})"
  | .reg r => s!"(.reg {r})"
  | .add a b => s!"(.add {exprStr a} {exprStr b})"
  | .sub a b => s!"(.sub {exprStr a} {exprStr b})"
  | .mul a b => s!"(.mul {exprStr a} {exprStr b})"
  | .wmul a b => s!"(.wmul {exprStr a} {exprStr b})"
  | .eq a b => s!"(.eq {exprStr a} {exprStr b})"
  | .ne a b => s!"(.ne {exprStr a} {exprStr b})"
  | .lt a b => s!"(.lt {exprStr a} {exprStr b})"
  | .le a b => s!"(.le {exprStr a} {exprStr b})"
  | .gt a b => s!"(.gt {exprStr a} {exprStr b})"
  | .ge a b => s!"(.ge {exprStr a} {exprStr b})"
  | .lor a b => s!"(.lor {exprStr a} {exprStr b})"
  | .land a b => s!"(.land {exprStr a} {exprStr b})"
  | .lnot a => s!"(.lnot {exprStr a})"
  | .cond c a b => s!"(.cond {exprStr c} {exprStr a} {exprStr b})"

def stepStr : MStep → String
  | .set r e => s!".set {r} {exprStr e}"
  | .read r f => s!".read {r} {fldName f}"
  | .write f e => s!".write {fldName f} {exprStr e}"
  | .brUnless c k => s!".brUnless {exprStr c} {k}"
  | .ret e => s!".ret {exprStr e}"
  | .lock => ".lock"
  | .unlock => ".unlock"
  | .realloc r p n => s!".realloc {r} {exprStr p} {exprStr n}"
  | .memset p off v n => s!".memset {p} {exprStr off} {exprStr v} {exprStr n}"
  | .abort => ".abort"

def progOf : String → Option (List MStep)
  | "gen" => some Gen.growSteps
  | "repaired" => some repairedSteps
  | "size" => some Gen.sizeSteps
  | _ => none

def b01 (b : Bool) : String := if b then "1" else "0"

/-- the descriptor as wasmMemoryAllocate initialises it (size from the regenerated expression) -/
def allocMem (init max : Nat) (shared : Bool) : Mem :=
  let ρ : Nat → Nat := fun r => if r = 0 then init else if r = 1 then max else b2n shared
  { data := 1, size := Gen.allocSize.eval ρ, pages := init }

def parseOp (s : String) : Option (Bool × Nat) :=
  if s == "s" then some (false, 0)
  else if s.startsWith "g" then (s.drop 1).toNat?.map (fun d => (true, d % 4294967296))
  else none

def statusStr (l : Loc) : String :=
  match l.st with
  | .done v => toString v
  | _ => "-"

def gsched (prog : List MStep) (init max : Nat) (shared : Bool) (schedule : String) (ops : List (Bool × Nat)) : String :=
  let n := ops.length
  let cfg : Cfg :=
    { imm := { maxPages := max, shared := shared },
      prog := fun t => match ops[t]? with | some (true, _) => prog | _ => Gen.sizeSteps,
      arg := fun t => match ops[t]? with | some (_, d) => d | none => 0,
      isGrow := fun t => match ops[t]? with | some _ => true | none => false }   -- memory.size = a linearized operation too
  let sch := schedule.toList.filterMap (fun c => if c.isDigit then some (c.toNat - '0'.toNat) else none)
  let sch := sch.filter (· < n)
  let r := runSegments cfg sch (initState cfg (allocMem init max shared)) []
  let s := r.1
  let rets := (List.range n).map (fun t => statusStr (s.2 t))
  let blocked := r.2.map (fun t => s!" blocked {t}")
  -- an operation that has returned while the memory's mutex is still locked by it
  let held := match s.1.mutex with
    | some t => (match (s.2 t).st with | .done _ => s!" held {t}" | _ => "")
    | none => ""
  s!"ret {" ".intercalate rets} pages {s.1.mem.pages} size {s.1.mem.size}{String.join blocked}{held}"

/-- one operation alone, tracking the mutex: `none` = stuck, `some (m, v, held)`; `blocked` when it meets a mutex that an
    earlier operation left locked -/
def runOp (imm : Imm) (prog : List MStep) : Nat → Mem → Nat → (Nat → Nat) → Bool → Except String (Mem × Nat × Bool)
  | 0, _, _, _, _ => .error "stuck"
  | n + 1, m, pc, ρ, held =>
    match act imm prog m pc ρ with
    | .cont m' pc' ρ' => runOp imm prog n m' pc' ρ' held
    | .lock pc' => if held then .error "blocked-forever" else runOp imm prog n m pc' ρ true
    | .unlock pc' => runOp imm prog n m pc' ρ false
    | .ret v => .ok (m, v, held)
    | .abort => .error "abort"
    | .stuck => .error "stuck"

/-- consecutive operations of ONE thread: `some d` = memory.grow(d), `none` = memory.size -/
def gseq (prog : List MStep) (init max : Nat) (shared : Bool) (ops : List (Option Nat)) : String :=
  let imm : Imm := { maxPages := max, shared := shared }
  let rec go (m : Mem) (held : Bool) (ds : List (Option Nat)) (acc : List String) : String :=
    match ds with
    | [] => s!"ret {" ".intercalate acc.reverse} pages {m.pages} size {m.size}"
    | op :: rest =>
      let r := match op with
        | some d => runOp imm prog 200 m 0 (initRegs (d % 4294967296)) held
        | none => runOp imm Gen.sizeSteps 200 m 0 (initRegs 0) held
      match r with
      | .ok (m', v, held') => go m' held' rest (toString v :: acc)
      | .error e => s!"ret {" ".intercalate acc.reverse} {e}"
  go (allocMem init max shared) false ops []

/-- the byte pattern the real-side harness writes into the pages in use -/
def pat (i : Nat) : Nat := ((i * 31 + 7) % 256) ||| 1

/-- non-shared memory with contents; realloc leaves 0xAA beyond the old bytes (as tools/harness/grow_sched.c does) -/
def gcontent (prog : List MStep) (init max : Nat) (fail : Nat) (deltas : List Nat) : String :=
  -- fail: 0 never, 1 always, k ≥ 2: the (k-1)-th realloc call fails.  A grow calls realloc iff it fits and delta > 0.
  let rec go (st : GrowContent.CState) (calls : Nat) (ds : List Nat) (acc : List String) : List String :=
    match ds with
    | [] => acc.reverse
    | d :: rest =>
      let size := st.mem.pages * 65536
      let d := d % 4294967296
      let willRealloc := d > 0 && st.mem.pages + d ≤ max
      let calls := if willRealloc then calls + 1 else calls
      let imm : Imm := { maxPages := max, shared := false,
                         reallocFails := fail == 1 || (fail ≥ 2 && willRealloc && calls == fail - 1) }
      match GrowContent.growC imm (fun _ => 0xAA) prog st d with
      | none => ("stuck" :: acc).reverse
      | some (st', v) =>
        let newSize := st'.mem.pages * 65536
        let oldOk := (List.range (min size newSize)).all fun k => st'.cur.bytes k == pat k
        let bad := (List.range (newSize - size)).filter fun k => st'.cur.bytes (size + k) != 0
        let first := match bad with | [] => "-" | k :: _ => toString (size + k)
        let dsame := if v == 4294967295 then (if st'.mem.data == st.mem.data then "1" else "0") else "-"
        let line := s!"r={v},p={st'.mem.pages},d={dsame},o={if oldOk then 1 else 0},z={bad.length},f={first}"
        -- the program now uses the new pages
        let st'' : GrowContent.CState := { st' with cur := { st'.cur with bytes := pat } }
        go st'' calls rest (line :: acc)
  let st0 : GrowContent.CState :=
    { mem := { data := 1, size := init * 65536 % 4294967296, pages := init }, cur := { cap := init * 65536, bytes := pat } }
  " ".intercalate (go st0 0 deltas [])

def cmd (ws : List String) : Option String :=
  match ws with
  | ["gstatus"] =>
    some s!"rul {b01 (ReadsUnderLock Gen.growSteps)} lostupdate {b01 (lostUpdateCheck Gen.growSteps)} wrapzero {b01 (wrapZeroCheck Gen.growSteps)} sizerace {b01 (sizeRaceCheck Gen.growSteps)} allocsize {(allocMem 1 65536 true).size} rulrepaired {b01 (ReadsUnderLock repairedSteps)} rulsize {b01 (ReadsUnderLock Gen.sizeSteps)} nodatawrite {b01 (SharedNeverWritesData Gen.growSteps)} zerofillcs {b01 (ZeroFillInsideCS Gen.growSteps)}"
  | ["gsteps", p] =>
    match progOf p with
    | some prog => some ("; ".intercalate (prog.map stepStr))
    | none => some "err prog"
  | "gsched" :: p :: init :: max :: shared :: schedule :: ops =>
    match progOf p, init.toNat?, max.toNat?, shared.toNat?, ops.mapM parseOp with
    | some prog, some i, some m, some sh, some os => some (gsched prog i m (sh != 0) schedule os)
    | _, _, _, _, _ => some "err args"
  | "gseq" :: p :: init :: max :: shared :: deltas =>
    match progOf p, init.toNat?, max.toNat?, shared.toNat?,
        deltas.mapM (fun d => if d == "s" then some none else d.toNat?.map some) with
    | some prog, some i, some m, some sh, some ds => some (gseq prog i m (sh != 0) ds)
    | _, _, _, _, _ => some "err args"
  | "gcontent" :: p :: init :: max :: fail :: deltas =>
    match progOf p, init.toNat?, max.toNat?, fail.toNat?, deltas.mapM (·.toNat?) with
    | some prog, some i, some m, some f, some ds => some (gcontent prog i m f ds)
    | _, _, _, _, _ => some "err args"
  | _ => none

end Driver.Grow
