/-
  Driver.ReaderLeb — `leb <u32|i32|u64|i64> <hex bytes | ->`  →  `<bits hex> <count> <ub 0|1> <rest length>`
  (the bit pattern of `*result`, the return value, whether C undefined behaviour occurred, bytes left).
-/
import W2c2Verif.Model.Leb

namespace Driver.Reader
open W2c2Verif.Model

def hexVal (c : Char) : Option Nat :=
  if '0' ≤ c ∧ c ≤ '9' then some (c.toNat - '0'.toNat)
  else if 'a' ≤ c ∧ c ≤ 'f' then some (c.toNat - 'a'.toNat + 10)
  else if 'A' ≤ c ∧ c ≤ 'F' then some (c.toNat - 'A'.toNat + 10)
  else none

def parseBytesAux : List Char → List UInt8 → Option (List UInt8)
  | [], acc => some acc.reverse
  | [_], _ => none
  | a :: b :: t, acc =>
    match hexVal a, hexVal b with
    | some x, some y => parseBytesAux t (UInt8.ofNat (x * 16 + y) :: acc)
    | _, _ => none

def parseBytes (s : String) : Option (List UInt8) :=
  if s = "-" then some [] else parseBytesAux s.toList []

def hexDigitChar (n : Nat) : Char := if n < 10 then Char.ofNat (48 + n) else Char.ofNat (87 + n)

def toHex (n : Nat) : String := String.ofList (Nat.toDigits 16 n)

def byteHex (b : UInt8) : String :=
  String.ofList [hexDigitChar (b.toNat / 16), hexDigitChar (b.toNat % 16)]

def bytesHex (bs : List UInt8) : String :=
  if bs.isEmpty then "-" else String.join (bs.map byteHex)

def b01 (b : Bool) : String := if b then "1" else "0"

def words (line : String) : List String :=
  (line.trimAscii.toString.splitOn " ").filter (· ≠ "")

def lebCmd : List String → Option String
  | ["leb", kind, hex] =>
    match parseBytes hex with
    | none => some "err bad-hex"
    | some bs =>
      let d? := match kind with
        | "u32" => some W2c2Verif.Gen.Reader.leb128ReadU32
        | "i32" => some W2c2Verif.Gen.Reader.leb128ReadI32
        | "u64" => some W2c2Verif.Gen.Reader.leb128ReadU64
        | "i64" => some W2c2Verif.Gen.Reader.leb128ReadI64
        | _ => none
      match d? with
      | none => some "err bad-kind"
      | some d =>
        let r := Leb.run d bs
        some s!"{toHex r.1.value} {r.1.count} {b01 r.1.ub} {r.2.length}"
  | _ => none

end Driver.Reader
