/-
  Lemmas.WasiIov — the iovec marshalling of fd_write / fd_read: the array is read as `count`
  pairs of LE u32 at `ptr + stride·k`, the segments are gathered / filled strictly in order.
-/
import W2c2Verif.Lemmas.WasiMem

namespace W2c2Verif.Model.Wasi
open W2c2Verif W2c2Verif.Spec.Posix

/-- the `n` guest bytes at `a` -/
def memBytes (m : Mem) (a n : Nat) : Bytes := (List.range n).map fun k => m.data (a + k)

theorem Mem.read_val {m : Mem} {a n : Nat} {bs : Bytes} (h : m.read a n = .val bs) : bs = memBytes m a n := by
  unfold Mem.read at h
  split at h
  · cases h; rfl
  · cases h

theorem Mem.loadU32_val {m : Mem} {a v : Nat} (h : m.loadU32 a = .val v) : v = leNat (memBytes m a 4) := by
  unfold Mem.loadU32 Out.map' at h
  cases hr : m.read a 4 with
  | val bs => rw [hr] at h; simp at h; rw [← h, Mem.read_val hr]
  | trap t => rw [hr] at h; simp at h
  | ub k => rw [hr] at h; simp at h
  | oof => rw [hr] at h; simp at h

/-- entry `k` of the guest's iovec array -/
def iovecAt (m : Mem) (ptr stride bo lo k : Nat) : Nat × Nat :=
  (leNat (memBytes m (ptr + k * stride + bo) 4), leNat (memBytes m (ptr + k * stride + lo) 4))

/-- `readIovecs` returns the entries 0 … count−1 in order -/
theorem readIovecs_spec (m : Mem) (ptr stride bo lo : Nat) (cnt : Nat) (segs : List (Nat × Nat))
    (h : readIovecs m ptr stride bo lo cnt = .val segs) :
    segs = (List.range cnt).map (iovecAt m ptr stride bo lo) := by
  induction cnt generalizing segs with
  | zero => simp [readIovecs] at h; simp [h]
  | succ k ih =>
    unfold readIovecs at h
    cases hp : readIovecs m ptr stride bo lo k with
    | val pre =>
      rw [hp] at h
      simp only [Out.bind_val] at h
      cases hb : m.loadU32 (ptr + k * stride + bo) with
      | val b =>
        rw [hb] at h
        simp only [Out.bind_val] at h
        cases hl : m.loadU32 (ptr + k * stride + lo) with
        | val l =>
          rw [hl] at h
          simp only [Out.bind_val, Out.val.injEq] at h
          rw [← h, ih pre hp, List.range_succ, List.map_append]
          simp [iovecAt, Mem.loadU32_val hb, Mem.loadU32_val hl]
        | trap t => rw [hl] at h; simp at h
        | ub u => rw [hl] at h; simp at h
        | oof => rw [hl] at h; simp at h
      | trap t => rw [hb] at h; simp at h
      | ub u => rw [hb] at h; simp at h
      | oof => rw [hb] at h; simp at h
    | trap t => rw [hp] at h; simp at h
    | ub u => rw [hp] at h; simp at h
    | oof => rw [hp] at h; simp at h

/-- `gather` returns the bytes of each segment, in order -/
theorem gather_spec (m : Mem) (segs : List (Nat × Nat)) (bufs : List Bytes) (h : gather m segs = .val bufs) :
    bufs = segs.map fun sg => memBytes m sg.1 sg.2 := by
  induction segs generalizing bufs with
  | nil => simp [gather] at h; simp [h]
  | cons sg r ih =>
    obtain ⟨b, l⟩ := sg
    unfold gather at h
    cases hr : m.read b l with
    | val bs =>
      rw [hr] at h
      simp only [Out.bind_val] at h
      cases hg : gather m r with
      | val rest =>
        rw [hg] at h
        simp only [Out.bind_val, Out.val.injEq] at h
        rw [← h, ih rest hg, Mem.read_val hr]; rfl
      | trap t => rw [hg] at h; simp at h
      | ub u => rw [hg] at h; simp at h
      | oof => rw [hg] at h; simp at h
    | trap t => rw [hr] at h; simp at h
    | ub u => rw [hr] at h; simp at h
    | oof => rw [hr] at h; simp at h

/-- what `scatter` stores: consecutive chunks of the data, one per segment, in segment order,
    stopping when the data is used up -/
def chunks : List (Nat × Nat) → Bytes → List (Nat × Bytes)
  | [], _ => []
  | (b, l) :: r, bs => if bs.isEmpty then [] else (b, bs.take l) :: chunks r (bs.drop l)

theorem scatter_spec (segs : List (Nat × Nat)) : ∀ (w w' : MW) (bs : Bytes),
    scatter w segs bs = .val w' → w'.log = w.log ++ chunks segs bs := by
  induction segs with
  | nil => intro w w' bs h; simp [scatter] at h; simp [← h, chunks]
  | cons sg r ih =>
    intro w w' bs h
    obtain ⟨b, l⟩ := sg
    unfold scatter at h
    split at h
    · rename_i he; cases h; simp [chunks, he]
    · rename_i he
      cases hs : w.store b (bs.take l) with
      | val w1 =>
        rw [hs] at h
        simp only [Out.bind_val] at h
        have h1 := ih w1 w' _ h
        obtain ⟨_, hlog⟩ := MW.store_val hs
        rw [h1, hlog]
        simp [chunks, he]
      | trap t => rw [hs] at h; simp at h
      | ub u => rw [hs] at h; simp at h
      | oof => rw [hs] at h; simp at h

/-- the chunks, concatenated in order, are a prefix of the data: exactly the data when the
    segments have room for it -/
theorem chunks_flatten (segs : List (Nat × Nat)) : ∀ bs : Bytes,
    ((chunks segs bs).map (·.2)).flatten = bs.take (segs.map (·.2)).sum := by
  induction segs with
  | nil => intro bs; simp [chunks]
  | cons sg r ih =>
    intro bs
    obtain ⟨b, l⟩ := sg
    unfold chunks
    split
    · rename_i he
      have : bs = [] := List.isEmpty_iff.mp he
      subst this; simp
    · simp only [List.map_cons, List.flatten_cons, List.sum_cons]
      rw [ih]
      rw [List.take_drop]
      conv => rhs; rw [← List.take_append_drop l (bs.take (l + (r.map (·.2)).sum))]
      congr 1
      · rw [List.take_take]; congr 1; omega

end W2c2Verif.Model.Wasi
