import W2c2Verif.Lemmas.FutexStep

/-!
  Lemmas.FutexInv — the inductive invariant of `Model.Futex` (definition, program-counter classes,
  facts about `chainFind`/`listRemove`, and the initial states).  Preservation is proved field by
  field in `Lemmas/FutexInvA.lean` … and assembled in `Lemmas/FutexInvAll.lean`.
-/
namespace W2c2Verif.Futex
open W2c2Verif.Threads

/-! ### program-counter classes -/

/-- inside the critical section (between `WASM_MUTEX_LOCK` and the matching unlock / cond_wait) -/
def PC.holds : PC → Bool
  | .wLoad | .wUnlockNe | .wAlloc | .wMapCreate | .wMapGet | .wMapInsert | .wPrepend | .wCondWait
  | .wCheck | .wIsTimeout | .wRemove | .wMapRemove | .wFree | .wUnlock
  | .nGetMap | .nMapGet | .nHead | .nLoop | .nSignal | .nUnlock => true
  | _ => false

/-- the thread's `wait` record is allocated and not yet freed -/
def PC.hasWait : PC → Bool
  | .wMapCreate | .wMapGet | .wMapInsert | .wPrepend | .wCondWait | .wParked | .wCheck | .wIsTimeout
  | .wRemove | .wMapRemove | .wFree => true
  | _ => false

/-- the thread's `wait` is linked into the wait list of its address -/
def PC.enq : PC → Bool
  | .wCondWait | .wParked | .wCheck | .wIsTimeout | .wRemove => true
  | _ => false

/-- `waitList` / `value` points to a node's value slot -/
def PC.hasSlot : PC → Bool
  | .wPrepend | .wCondWait | .wParked | .wCheck | .wIsTimeout | .wRemove | .wMapRemove
  | .nHead | .nLoop | .nSignal => true
  | _ => false

/-- `mem->futex` is known to be non-NULL -/
def PC.afterCreate : PC → Bool
  | .wMapGet | .wMapInsert | .wPrepend | .wCondWait | .wParked | .wCheck | .wIsTimeout
  | .wRemove | .wMapRemove | .wFree | .nMapGet | .nHead | .nLoop | .nSignal => true
  | _ => false

/-- the current operation may already have created its map node -/
def PC.afterInsert : PC → Bool
  | .wPrepend | .wCondWait | .wParked | .wCheck | .wIsTimeout | .wRemove | .wMapRemove | .wFree
  | .wUnlock => true
  | _ => false

/-- the current operation has allocated its wait record (it may be freed again) -/
def PC.afterAlloc : PC → Bool
  | .wMapCreate | .wMapGet | .wMapInsert | .wPrepend | .wCondWait | .wParked | .wCheck | .wIsTimeout
  | .wRemove | .wMapRemove | .wFree | .wUnlock => true
  | _ => false

/-- executing `wasmMemoryAtomicWait` -/
def PC.inWait : PC → Bool
  | .wLock | .wLoad | .wUnlockNe | .wAlloc | .wMapCreate | .wMapGet | .wMapInsert | .wPrepend | .wCondWait
  | .wParked | .wCheck | .wIsTimeout | .wRemove | .wMapRemove | .wFree | .wUnlock => true
  | _ => false

/-- executing `wasmMemoryAtomicNotify` -/
def PC.inNotify : PC → Bool
  | .nShared | .nLock | .nGetMap | .nMapGet | .nHead | .nLoop | .nSignal | .nUnlock => true
  | _ => false

/-! ### the invariant (part A: heap shape, ownership, liveness, mutex, parking) -/

structure InvA (B : Nat) (c : Cfg G L) : Prop where
  tid_eq : ∀ t, (c.locals t).tid = t
  no_crash : ∀ t k, (c.locals t).pc ≠ .crashed k
  /-- the mutex is held exactly by the thread inside the critical section -/
  mutex_iff : ∀ t, c.g.mutex = some t ↔ (c.locals t).pc.holds = true
  /-- a thread's wait record is live, its own, and registered under its address -/
  wait_live : ∀ t, (c.locals t).pc.hasWait = true →
    (c.locals t).wait = (t, (c.locals t).serial) ∧ (c.g.waits (c.locals t).wait).live = true ∧
    (c.g.waits (c.locals t).wait).addr = (c.locals t).addr
  /-- every live wait record is the current one of its allocating thread -/
  live_wait : ∀ w, (c.g.waits w).live = true → (c.locals w.1).pc.hasWait = true ∧ (c.locals w.1).wait = w
  /-- remembered slot pointers point into live nodes keyed by the thread's address -/
  slot_ok : ∀ t, (c.locals t).pc.hasSlot = true →
    ∃ n, (c.locals t).slot = some n ∧ (c.g.nodes n).live = true ∧ (c.g.nodes n).key = (c.locals t).addr
  /-- an enqueued thread's wait is in the list its slot pointer designates -/
  enq_mem : ∀ t n, (c.locals t).pc.enq = true → (c.locals t).slot = some n →
    (c.locals t).wait ∈ (c.g.nodes n).waits
  /-- every element of a wait list is live and belongs to a thread enqueued on exactly that node -/
  list_ok : ∀ n w, (c.g.nodes n).live = true → w ∈ (c.g.nodes n).waits →
    (c.g.waits w).live = true ∧ (c.locals w.1).pc.enq = true ∧ (c.locals w.1).slot = some n
  list_nodup : ∀ n, (c.g.nodes n).live = true → (c.g.nodes n).waits.Nodup
  /-- bucket chains hold live nodes of that bucket, without repetition of nodes or keys -/
  chain_ok : ∀ b n, n ∈ c.g.buckets b → (c.g.nodes n).live = true ∧ (c.g.nodes n).key % B = b
  chain_nodup : ∀ b, (c.g.buckets b).Nodup
  chain_keys : ∀ b n m, n ∈ c.g.buckets b → m ∈ c.g.buckets b →
    (c.g.nodes n).key = (c.g.nodes m).key → n = m
  live_chain : ∀ n, (c.g.nodes n).live = true → n ∈ c.g.buckets ((c.g.nodes n).key % B)
  /-- node identities are fresh: `(t, k)` can be live only once `t`'s `k`-th operation inserted it -/
  node_fresh : ∀ n, (c.g.nodes n).live = true →
    n.2 < (c.locals n.1).serial ∨ (n.2 = (c.locals n.1).serial ∧ (c.locals n.1).pc.afterInsert = true)
  /-- only threads inside `pthread_cond_(timed)wait` are parked, on their own wait's condvar -/
  parked_ok : ∀ t w, (t, w) ∈ c.g.parked → (c.locals t).pc = .wParked ∧ (c.locals t).wait = w
  parked_nodup : c.g.parked.Nodup
  map_alloc : ∀ t, (c.locals t).pc.afterCreate = true → c.g.mapAlloc = true
  /-- the notifier's cursor is a suffix of the list it walks -/
  cursor_ok : ∀ t n, ((c.locals t).pc = .nLoop ∨ (c.locals t).pc = .nSignal) → (c.locals t).slot = some n →
    (c.locals t).cursor <:+ (c.g.nodes n).waits
  /-- at `nSignal` the cursor is non-empty -/
  signal_cursor : ∀ t, (c.locals t).pc = .nSignal → (c.locals t).cursor ≠ []

/-! ### `chainFind` (mapGet / mapRemove lookups) -/

theorem chainFind_ok_of_live (nodes : Id → NodeRec) (key : Nat) (ch : List Id)
    (h : ∀ n ∈ ch, (nodes n).live = true) : ∃ r, chainFind nodes key ch = .ok r := by
  induction ch with
  | nil => exact ⟨none, rfl⟩
  | cons n rest ih =>
    have hn := h n (List.mem_cons_self ..)
    unfold chainFind
    simp only [hn, Bool.not_true, Bool.false_eq_true, ↓reduceIte]
    split
    · exact ⟨some n, rfl⟩
    · exact ih (fun m hm => h m (List.mem_cons_of_mem _ hm))

theorem chainFind_some (nodes : Id → NodeRec) (key : Nat) (ch : List Id) (n : Id)
    (h : chainFind nodes key ch = .ok (some n)) : n ∈ ch ∧ (nodes n).key = key ∧ (nodes n).live = true := by
  induction ch with
  | nil => simp [chainFind] at h
  | cons m rest ih =>
    unfold chainFind at h
    split at h
    · simp at h
    · rename_i hl
      split at h
      · rename_i hk
        simp only [Except.ok.injEq, Option.some.injEq] at h
        subst h
        exact ⟨List.mem_cons_self .., hk, by simpa using hl⟩
      · have := ih h
        exact ⟨List.mem_cons_of_mem _ this.1, this.2⟩

theorem chainFind_none (nodes : Id → NodeRec) (key : Nat) (ch : List Id)
    (h : chainFind nodes key ch = .ok none) : ∀ n ∈ ch, (nodes n).key ≠ key := by
  induction ch with
  | nil => simp
  | cons m rest ih =>
    unfold chainFind at h
    split at h
    · simp at h
    · split at h
      · simp at h
      · rename_i hk
        intro n hn
        rcases List.mem_cons.mp hn with rfl | hn
        · exact hk
        · exact ih h n hn

theorem allLiveN_eq_true (g : G) (l : List Id) : allLiveN g l = true ↔ ∀ n ∈ l, (g.nodes n).live = true := by
  simp [allLiveN]

theorem allLiveW_eq_true (g : G) (l : List Id) : allLiveW g l = true ↔ ∀ w ∈ l, (g.waits w).live = true := by
  simp [allLiveW]

theorem allLiveN_eq_false (g : G) (l : List Id) : allLiveN g l = false ↔ ∃ n ∈ l, (g.nodes n).live = false := by
  simp [allLiveN]

theorem allLiveW_eq_false (g : G) (l : List Id) : allLiveW g l = false ↔ ∃ w ∈ l, (g.waits w).live = false := by
  simp [allLiveW]

theorem mem_listRemove {l : List Id} {w x : Id} (hn : l.Nodup) (hw : w ∈ l) :
    x ∈ listRemove l w ↔ x ∈ l ∧ x ≠ w := by
  simp only [listRemove, hw, ↓reduceIte]
  rw [List.Nodup.mem_erase_iff hn]
  exact And.comm

theorem listRemove_nodup {l : List Id} {w : Id} (hn : l.Nodup) : (listRemove l w).Nodup := by
  unfold listRemove
  split
  · exact hn.erase _
  · exact List.nodup_nil

/-! ### initial states -/

theorem InvA.init {B : Nat} {c : Cfg G L} (h : Init c) : InvA B c := by
  obtain ⟨⟨sh, mem, hg⟩, hl⟩ := h
  have hpc : ∀ t, (c.locals t).pc = .idle := fun t => by obtain ⟨p, hp⟩ := hl t; simp [hp, L.init]
  refine { tid_eq := ?_, no_crash := ?_, mutex_iff := ?_, wait_live := ?_, live_wait := ?_, slot_ok := ?_,
           enq_mem := ?_, list_ok := ?_, list_nodup := ?_, chain_ok := ?_, chain_nodup := ?_, chain_keys := ?_,
           live_chain := ?_, node_fresh := ?_, parked_ok := ?_, parked_nodup := ?_, map_alloc := ?_,
           cursor_ok := ?_, signal_cursor := ?_ }
  all_goals (try simp [hg, G.init, hpc, PC.holds, PC.hasWait, PC.hasSlot, PC.enq, PC.afterCreate])
  · intro t; obtain ⟨p, hp⟩ := hl t; simp [hp, L.init]

end W2c2Verif.Futex
