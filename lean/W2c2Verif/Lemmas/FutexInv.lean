import W2c2Verif.Lemmas.FutexStep

/-!
  Lemmas.FutexInv — the inductive invariant of `Model.Futex` (definition, program-counter classes,
  facts about `chainFind`/`listRemove`, and the initial states).  Preservation is proved field by
  field in `Lemmas/FutexInvA.lean` … and assembled in `Lemmas/FutexInvAll.lean`.
-/
namespace W2c2Verif.Futex
open W2c2Verif.Threads

/-! ### program-counter classes -/

/-- inside the critical section (between `WASM_MUTEX_LOCK` and the matching unlock / cond_wait) -/
def PC.holds : PC → Bool
  | .wLoad | .wUnlockNe | .wAlloc | .wMapCreate | .wMapGet | .wMapInsert | .wPrepend | .wCondWait
  | .wCheck | .wIsTimeout | .wRemove | .wMapRemove | .wFree | .wUnlock
  | .nGetMap | .nMapGet | .nHead | .nLoop | .nSignal | .nUnlock => true
  | _ => false

/-- the thread's `wait` record is allocated and not yet freed -/
def PC.hasWait : PC → Bool
  | .wMapCreate | .wMapGet | .wMapInsert | .wPrepend | .wCondWait | .wParked | .wCheck | .wIsTimeout
  | .wRemove | .wMapRemove | .wFree => true
  | _ => false

/-- the thread's `wait` is linked into the wait list of its address -/
def PC.enq : PC → Bool
  | .wCondWait | .wParked | .wCheck | .wIsTimeout | .wRemove => true
  | _ => false

/-- `waitList` / `value` points to a node's value slot -/
def PC.hasSlot : PC → Bool
  | .wPrepend | .wCondWait | .wParked | .wCheck | .wIsTimeout | .wRemove | .wMapRemove
  | .nHead | .nLoop | .nSignal => true
  | _ => false

/-- `mem->futex` is known to be non-NULL -/
def PC.afterCreate : PC → Bool
  | .wMapGet | .wMapInsert | .wPrepend | .wCondWait | .wParked | .wCheck | .wIsTimeout
  | .wRemove | .wMapRemove | .wFree | .nMapGet | .nHead | .nLoop | .nSignal => true
  | _ => false

/-- the current operation may already have created its map node -/
def PC.afterInsert : PC → Bool
  | .wPrepend | .wCondWait | .wParked | .wCheck | .wIsTimeout | .wRemove | .wMapRemove | .wFree
  | .wUnlock => true
  | _ => false

/-- the current operation has allocated its wait record (it may be freed again) -/
def PC.afterAlloc : PC → Bool
  | .wMapCreate | .wMapGet | .wMapInsert | .wPrepend | .wCondWait | .wParked | .wCheck | .wIsTimeout
  | .wRemove | .wMapRemove | .wFree | .wUnlock => true
  | _ => false

/-- executing `wasmMemoryAtomicWait` -/
def PC.inWait : PC → Bool
  | .wLock | .wLoad | .wUnlockNe | .wAlloc | .wMapCreate | .wMapGet | .wMapInsert | .wPrepend | .wCondWait
  | .wParked | .wCheck | .wIsTimeout | .wRemove | .wMapRemove | .wFree | .wUnlock => true
  | _ => false

/-- executing `wasmMemoryAtomicNotify` -/
def PC.inNotify : PC → Bool
  | .nShared | .nLock | .nGetMap | .nMapGet | .nHead | .nLoop | .nSignal | .nUnlock => true
  | _ => false

/-! ### evaluation lemmas for the pc classes (generated; one per class and constructor, so that `simp` never
    unfolds a class on an unknown pc) -/

@[simp, grind =] theorem PC.holds_idle : PC.holds .idle = false := rfl
@[simp, grind =] theorem PC.holds_wLock : PC.holds .wLock = false := rfl
@[simp, grind =] theorem PC.holds_wLoad : PC.holds .wLoad = true := rfl
@[simp, grind =] theorem PC.holds_wUnlockNe : PC.holds .wUnlockNe = true := rfl
@[simp, grind =] theorem PC.holds_wAlloc : PC.holds .wAlloc = true := rfl
@[simp, grind =] theorem PC.holds_wMapCreate : PC.holds .wMapCreate = true := rfl
@[simp, grind =] theorem PC.holds_wMapGet : PC.holds .wMapGet = true := rfl
@[simp, grind =] theorem PC.holds_wMapInsert : PC.holds .wMapInsert = true := rfl
@[simp, grind =] theorem PC.holds_wPrepend : PC.holds .wPrepend = true := rfl
@[simp, grind =] theorem PC.holds_wCondWait : PC.holds .wCondWait = true := rfl
@[simp, grind =] theorem PC.holds_wParked : PC.holds .wParked = false := rfl
@[simp, grind =] theorem PC.holds_wCheck : PC.holds .wCheck = true := rfl
@[simp, grind =] theorem PC.holds_wIsTimeout : PC.holds .wIsTimeout = true := rfl
@[simp, grind =] theorem PC.holds_wRemove : PC.holds .wRemove = true := rfl
@[simp, grind =] theorem PC.holds_wMapRemove : PC.holds .wMapRemove = true := rfl
@[simp, grind =] theorem PC.holds_wFree : PC.holds .wFree = true := rfl
@[simp, grind =] theorem PC.holds_wUnlock : PC.holds .wUnlock = true := rfl
@[simp, grind =] theorem PC.holds_nShared : PC.holds .nShared = false := rfl
@[simp, grind =] theorem PC.holds_nLock : PC.holds .nLock = false := rfl
@[simp, grind =] theorem PC.holds_nGetMap : PC.holds .nGetMap = true := rfl
@[simp, grind =] theorem PC.holds_nMapGet : PC.holds .nMapGet = true := rfl
@[simp, grind =] theorem PC.holds_nHead : PC.holds .nHead = true := rfl
@[simp, grind =] theorem PC.holds_nLoop : PC.holds .nLoop = true := rfl
@[simp, grind =] theorem PC.holds_nSignal : PC.holds .nSignal = true := rfl
@[simp, grind =] theorem PC.holds_nUnlock : PC.holds .nUnlock = true := rfl
@[simp, grind =] theorem PC.holds_sPoint : PC.holds .sPoint = false := rfl
@[simp, grind =] theorem PC.holds_crashed (k : Crash) : PC.holds (.crashed k) = false := rfl
@[simp, grind =] theorem PC.hasWait_idle : PC.hasWait .idle = false := rfl
@[simp, grind =] theorem PC.hasWait_wLock : PC.hasWait .wLock = false := rfl
@[simp, grind =] theorem PC.hasWait_wLoad : PC.hasWait .wLoad = false := rfl
@[simp, grind =] theorem PC.hasWait_wUnlockNe : PC.hasWait .wUnlockNe = false := rfl
@[simp, grind =] theorem PC.hasWait_wAlloc : PC.hasWait .wAlloc = false := rfl
@[simp, grind =] theorem PC.hasWait_wMapCreate : PC.hasWait .wMapCreate = true := rfl
@[simp, grind =] theorem PC.hasWait_wMapGet : PC.hasWait .wMapGet = true := rfl
@[simp, grind =] theorem PC.hasWait_wMapInsert : PC.hasWait .wMapInsert = true := rfl
@[simp, grind =] theorem PC.hasWait_wPrepend : PC.hasWait .wPrepend = true := rfl
@[simp, grind =] theorem PC.hasWait_wCondWait : PC.hasWait .wCondWait = true := rfl
@[simp, grind =] theorem PC.hasWait_wParked : PC.hasWait .wParked = true := rfl
@[simp, grind =] theorem PC.hasWait_wCheck : PC.hasWait .wCheck = true := rfl
@[simp, grind =] theorem PC.hasWait_wIsTimeout : PC.hasWait .wIsTimeout = true := rfl
@[simp, grind =] theorem PC.hasWait_wRemove : PC.hasWait .wRemove = true := rfl
@[simp, grind =] theorem PC.hasWait_wMapRemove : PC.hasWait .wMapRemove = true := rfl
@[simp, grind =] theorem PC.hasWait_wFree : PC.hasWait .wFree = true := rfl
@[simp, grind =] theorem PC.hasWait_wUnlock : PC.hasWait .wUnlock = false := rfl
@[simp, grind =] theorem PC.hasWait_nShared : PC.hasWait .nShared = false := rfl
@[simp, grind =] theorem PC.hasWait_nLock : PC.hasWait .nLock = false := rfl
@[simp, grind =] theorem PC.hasWait_nGetMap : PC.hasWait .nGetMap = false := rfl
@[simp, grind =] theorem PC.hasWait_nMapGet : PC.hasWait .nMapGet = false := rfl
@[simp, grind =] theorem PC.hasWait_nHead : PC.hasWait .nHead = false := rfl
@[simp, grind =] theorem PC.hasWait_nLoop : PC.hasWait .nLoop = false := rfl
@[simp, grind =] theorem PC.hasWait_nSignal : PC.hasWait .nSignal = false := rfl
@[simp, grind =] theorem PC.hasWait_nUnlock : PC.hasWait .nUnlock = false := rfl
@[simp, grind =] theorem PC.hasWait_sPoint : PC.hasWait .sPoint = false := rfl
@[simp, grind =] theorem PC.hasWait_crashed (k : Crash) : PC.hasWait (.crashed k) = false := rfl
@[simp, grind =] theorem PC.enq_idle : PC.enq .idle = false := rfl
@[simp, grind =] theorem PC.enq_wLock : PC.enq .wLock = false := rfl
@[simp, grind =] theorem PC.enq_wLoad : PC.enq .wLoad = false := rfl
@[simp, grind =] theorem PC.enq_wUnlockNe : PC.enq .wUnlockNe = false := rfl
@[simp, grind =] theorem PC.enq_wAlloc : PC.enq .wAlloc = false := rfl
@[simp, grind =] theorem PC.enq_wMapCreate : PC.enq .wMapCreate = false := rfl
@[simp, grind =] theorem PC.enq_wMapGet : PC.enq .wMapGet = false := rfl
@[simp, grind =] theorem PC.enq_wMapInsert : PC.enq .wMapInsert = false := rfl
@[simp, grind =] theorem PC.enq_wPrepend : PC.enq .wPrepend = false := rfl
@[simp, grind =] theorem PC.enq_wCondWait : PC.enq .wCondWait = true := rfl
@[simp, grind =] theorem PC.enq_wParked : PC.enq .wParked = true := rfl
@[simp, grind =] theorem PC.enq_wCheck : PC.enq .wCheck = true := rfl
@[simp, grind =] theorem PC.enq_wIsTimeout : PC.enq .wIsTimeout = true := rfl
@[simp, grind =] theorem PC.enq_wRemove : PC.enq .wRemove = true := rfl
@[simp, grind =] theorem PC.enq_wMapRemove : PC.enq .wMapRemove = false := rfl
@[simp, grind =] theorem PC.enq_wFree : PC.enq .wFree = false := rfl
@[simp, grind =] theorem PC.enq_wUnlock : PC.enq .wUnlock = false := rfl
@[simp, grind =] theorem PC.enq_nShared : PC.enq .nShared = false := rfl
@[simp, grind =] theorem PC.enq_nLock : PC.enq .nLock = false := rfl
@[simp, grind =] theorem PC.enq_nGetMap : PC.enq .nGetMap = false := rfl
@[simp, grind =] theorem PC.enq_nMapGet : PC.enq .nMapGet = false := rfl
@[simp, grind =] theorem PC.enq_nHead : PC.enq .nHead = false := rfl
@[simp, grind =] theorem PC.enq_nLoop : PC.enq .nLoop = false := rfl
@[simp, grind =] theorem PC.enq_nSignal : PC.enq .nSignal = false := rfl
@[simp, grind =] theorem PC.enq_nUnlock : PC.enq .nUnlock = false := rfl
@[simp, grind =] theorem PC.enq_sPoint : PC.enq .sPoint = false := rfl
@[simp, grind =] theorem PC.enq_crashed (k : Crash) : PC.enq (.crashed k) = false := rfl
@[simp, grind =] theorem PC.hasSlot_idle : PC.hasSlot .idle = false := rfl
@[simp, grind =] theorem PC.hasSlot_wLock : PC.hasSlot .wLock = false := rfl
@[simp, grind =] theorem PC.hasSlot_wLoad : PC.hasSlot .wLoad = false := rfl
@[simp, grind =] theorem PC.hasSlot_wUnlockNe : PC.hasSlot .wUnlockNe = false := rfl
@[simp, grind =] theorem PC.hasSlot_wAlloc : PC.hasSlot .wAlloc = false := rfl
@[simp, grind =] theorem PC.hasSlot_wMapCreate : PC.hasSlot .wMapCreate = false := rfl
@[simp, grind =] theorem PC.hasSlot_wMapGet : PC.hasSlot .wMapGet = false := rfl
@[simp, grind =] theorem PC.hasSlot_wMapInsert : PC.hasSlot .wMapInsert = false := rfl
@[simp, grind =] theorem PC.hasSlot_wPrepend : PC.hasSlot .wPrepend = true := rfl
@[simp, grind =] theorem PC.hasSlot_wCondWait : PC.hasSlot .wCondWait = true := rfl
@[simp, grind =] theorem PC.hasSlot_wParked : PC.hasSlot .wParked = true := rfl
@[simp, grind =] theorem PC.hasSlot_wCheck : PC.hasSlot .wCheck = true := rfl
@[simp, grind =] theorem PC.hasSlot_wIsTimeout : PC.hasSlot .wIsTimeout = true := rfl
@[simp, grind =] theorem PC.hasSlot_wRemove : PC.hasSlot .wRemove = true := rfl
@[simp, grind =] theorem PC.hasSlot_wMapRemove : PC.hasSlot .wMapRemove = true := rfl
@[simp, grind =] theorem PC.hasSlot_wFree : PC.hasSlot .wFree = false := rfl
@[simp, grind =] theorem PC.hasSlot_wUnlock : PC.hasSlot .wUnlock = false := rfl
@[simp, grind =] theorem PC.hasSlot_nShared : PC.hasSlot .nShared = false := rfl
@[simp, grind =] theorem PC.hasSlot_nLock : PC.hasSlot .nLock = false := rfl
@[simp, grind =] theorem PC.hasSlot_nGetMap : PC.hasSlot .nGetMap = false := rfl
@[simp, grind =] theorem PC.hasSlot_nMapGet : PC.hasSlot .nMapGet = false := rfl
@[simp, grind =] theorem PC.hasSlot_nHead : PC.hasSlot .nHead = true := rfl
@[simp, grind =] theorem PC.hasSlot_nLoop : PC.hasSlot .nLoop = true := rfl
@[simp, grind =] theorem PC.hasSlot_nSignal : PC.hasSlot .nSignal = true := rfl
@[simp, grind =] theorem PC.hasSlot_nUnlock : PC.hasSlot .nUnlock = false := rfl
@[simp, grind =] theorem PC.hasSlot_sPoint : PC.hasSlot .sPoint = false := rfl
@[simp, grind =] theorem PC.hasSlot_crashed (k : Crash) : PC.hasSlot (.crashed k) = false := rfl
@[simp, grind =] theorem PC.afterCreate_idle : PC.afterCreate .idle = false := rfl
@[simp, grind =] theorem PC.afterCreate_wLock : PC.afterCreate .wLock = false := rfl
@[simp, grind =] theorem PC.afterCreate_wLoad : PC.afterCreate .wLoad = false := rfl
@[simp, grind =] theorem PC.afterCreate_wUnlockNe : PC.afterCreate .wUnlockNe = false := rfl
@[simp, grind =] theorem PC.afterCreate_wAlloc : PC.afterCreate .wAlloc = false := rfl
@[simp, grind =] theorem PC.afterCreate_wMapCreate : PC.afterCreate .wMapCreate = false := rfl
@[simp, grind =] theorem PC.afterCreate_wMapGet : PC.afterCreate .wMapGet = true := rfl
@[simp, grind =] theorem PC.afterCreate_wMapInsert : PC.afterCreate .wMapInsert = true := rfl
@[simp, grind =] theorem PC.afterCreate_wPrepend : PC.afterCreate .wPrepend = true := rfl
@[simp, grind =] theorem PC.afterCreate_wCondWait : PC.afterCreate .wCondWait = true := rfl
@[simp, grind =] theorem PC.afterCreate_wParked : PC.afterCreate .wParked = true := rfl
@[simp, grind =] theorem PC.afterCreate_wCheck : PC.afterCreate .wCheck = true := rfl
@[simp, grind =] theorem PC.afterCreate_wIsTimeout : PC.afterCreate .wIsTimeout = true := rfl
@[simp, grind =] theorem PC.afterCreate_wRemove : PC.afterCreate .wRemove = true := rfl
@[simp, grind =] theorem PC.afterCreate_wMapRemove : PC.afterCreate .wMapRemove = true := rfl
@[simp, grind =] theorem PC.afterCreate_wFree : PC.afterCreate .wFree = true := rfl
@[simp, grind =] theorem PC.afterCreate_wUnlock : PC.afterCreate .wUnlock = false := rfl
@[simp, grind =] theorem PC.afterCreate_nShared : PC.afterCreate .nShared = false := rfl
@[simp, grind =] theorem PC.afterCreate_nLock : PC.afterCreate .nLock = false := rfl
@[simp, grind =] theorem PC.afterCreate_nGetMap : PC.afterCreate .nGetMap = false := rfl
@[simp, grind =] theorem PC.afterCreate_nMapGet : PC.afterCreate .nMapGet = true := rfl
@[simp, grind =] theorem PC.afterCreate_nHead : PC.afterCreate .nHead = true := rfl
@[simp, grind =] theorem PC.afterCreate_nLoop : PC.afterCreate .nLoop = true := rfl
@[simp, grind =] theorem PC.afterCreate_nSignal : PC.afterCreate .nSignal = true := rfl
@[simp, grind =] theorem PC.afterCreate_nUnlock : PC.afterCreate .nUnlock = false := rfl
@[simp, grind =] theorem PC.afterCreate_sPoint : PC.afterCreate .sPoint = false := rfl
@[simp, grind =] theorem PC.afterCreate_crashed (k : Crash) : PC.afterCreate (.crashed k) = false := rfl
@[simp, grind =] theorem PC.afterInsert_idle : PC.afterInsert .idle = false := rfl
@[simp, grind =] theorem PC.afterInsert_wLock : PC.afterInsert .wLock = false := rfl
@[simp, grind =] theorem PC.afterInsert_wLoad : PC.afterInsert .wLoad = false := rfl
@[simp, grind =] theorem PC.afterInsert_wUnlockNe : PC.afterInsert .wUnlockNe = false := rfl
@[simp, grind =] theorem PC.afterInsert_wAlloc : PC.afterInsert .wAlloc = false := rfl
@[simp, grind =] theorem PC.afterInsert_wMapCreate : PC.afterInsert .wMapCreate = false := rfl
@[simp, grind =] theorem PC.afterInsert_wMapGet : PC.afterInsert .wMapGet = false := rfl
@[simp, grind =] theorem PC.afterInsert_wMapInsert : PC.afterInsert .wMapInsert = false := rfl
@[simp, grind =] theorem PC.afterInsert_wPrepend : PC.afterInsert .wPrepend = true := rfl
@[simp, grind =] theorem PC.afterInsert_wCondWait : PC.afterInsert .wCondWait = true := rfl
@[simp, grind =] theorem PC.afterInsert_wParked : PC.afterInsert .wParked = true := rfl
@[simp, grind =] theorem PC.afterInsert_wCheck : PC.afterInsert .wCheck = true := rfl
@[simp, grind =] theorem PC.afterInsert_wIsTimeout : PC.afterInsert .wIsTimeout = true := rfl
@[simp, grind =] theorem PC.afterInsert_wRemove : PC.afterInsert .wRemove = true := rfl
@[simp, grind =] theorem PC.afterInsert_wMapRemove : PC.afterInsert .wMapRemove = true := rfl
@[simp, grind =] theorem PC.afterInsert_wFree : PC.afterInsert .wFree = true := rfl
@[simp, grind =] theorem PC.afterInsert_wUnlock : PC.afterInsert .wUnlock = true := rfl
@[simp, grind =] theorem PC.afterInsert_nShared : PC.afterInsert .nShared = false := rfl
@[simp, grind =] theorem PC.afterInsert_nLock : PC.afterInsert .nLock = false := rfl
@[simp, grind =] theorem PC.afterInsert_nGetMap : PC.afterInsert .nGetMap = false := rfl
@[simp, grind =] theorem PC.afterInsert_nMapGet : PC.afterInsert .nMapGet = false := rfl
@[simp, grind =] theorem PC.afterInsert_nHead : PC.afterInsert .nHead = false := rfl
@[simp, grind =] theorem PC.afterInsert_nLoop : PC.afterInsert .nLoop = false := rfl
@[simp, grind =] theorem PC.afterInsert_nSignal : PC.afterInsert .nSignal = false := rfl
@[simp, grind =] theorem PC.afterInsert_nUnlock : PC.afterInsert .nUnlock = false := rfl
@[simp, grind =] theorem PC.afterInsert_sPoint : PC.afterInsert .sPoint = false := rfl
@[simp, grind =] theorem PC.afterInsert_crashed (k : Crash) : PC.afterInsert (.crashed k) = false := rfl
@[simp, grind =] theorem PC.afterAlloc_idle : PC.afterAlloc .idle = false := rfl
@[simp, grind =] theorem PC.afterAlloc_wLock : PC.afterAlloc .wLock = false := rfl
@[simp, grind =] theorem PC.afterAlloc_wLoad : PC.afterAlloc .wLoad = false := rfl
@[simp, grind =] theorem PC.afterAlloc_wUnlockNe : PC.afterAlloc .wUnlockNe = false := rfl
@[simp, grind =] theorem PC.afterAlloc_wAlloc : PC.afterAlloc .wAlloc = false := rfl
@[simp, grind =] theorem PC.afterAlloc_wMapCreate : PC.afterAlloc .wMapCreate = true := rfl
@[simp, grind =] theorem PC.afterAlloc_wMapGet : PC.afterAlloc .wMapGet = true := rfl
@[simp, grind =] theorem PC.afterAlloc_wMapInsert : PC.afterAlloc .wMapInsert = true := rfl
@[simp, grind =] theorem PC.afterAlloc_wPrepend : PC.afterAlloc .wPrepend = true := rfl
@[simp, grind =] theorem PC.afterAlloc_wCondWait : PC.afterAlloc .wCondWait = true := rfl
@[simp, grind =] theorem PC.afterAlloc_wParked : PC.afterAlloc .wParked = true := rfl
@[simp, grind =] theorem PC.afterAlloc_wCheck : PC.afterAlloc .wCheck = true := rfl
@[simp, grind =] theorem PC.afterAlloc_wIsTimeout : PC.afterAlloc .wIsTimeout = true := rfl
@[simp, grind =] theorem PC.afterAlloc_wRemove : PC.afterAlloc .wRemove = true := rfl
@[simp, grind =] theorem PC.afterAlloc_wMapRemove : PC.afterAlloc .wMapRemove = true := rfl
@[simp, grind =] theorem PC.afterAlloc_wFree : PC.afterAlloc .wFree = true := rfl
@[simp, grind =] theorem PC.afterAlloc_wUnlock : PC.afterAlloc .wUnlock = true := rfl
@[simp, grind =] theorem PC.afterAlloc_nShared : PC.afterAlloc .nShared = false := rfl
@[simp, grind =] theorem PC.afterAlloc_nLock : PC.afterAlloc .nLock = false := rfl
@[simp, grind =] theorem PC.afterAlloc_nGetMap : PC.afterAlloc .nGetMap = false := rfl
@[simp, grind =] theorem PC.afterAlloc_nMapGet : PC.afterAlloc .nMapGet = false := rfl
@[simp, grind =] theorem PC.afterAlloc_nHead : PC.afterAlloc .nHead = false := rfl
@[simp, grind =] theorem PC.afterAlloc_nLoop : PC.afterAlloc .nLoop = false := rfl
@[simp, grind =] theorem PC.afterAlloc_nSignal : PC.afterAlloc .nSignal = false := rfl
@[simp, grind =] theorem PC.afterAlloc_nUnlock : PC.afterAlloc .nUnlock = false := rfl
@[simp, grind =] theorem PC.afterAlloc_sPoint : PC.afterAlloc .sPoint = false := rfl
@[simp, grind =] theorem PC.afterAlloc_crashed (k : Crash) : PC.afterAlloc (.crashed k) = false := rfl
@[simp, grind =] theorem PC.inWait_idle : PC.inWait .idle = false := rfl
@[simp, grind =] theorem PC.inWait_wLock : PC.inWait .wLock = true := rfl
@[simp, grind =] theorem PC.inWait_wLoad : PC.inWait .wLoad = true := rfl
@[simp, grind =] theorem PC.inWait_wUnlockNe : PC.inWait .wUnlockNe = true := rfl
@[simp, grind =] theorem PC.inWait_wAlloc : PC.inWait .wAlloc = true := rfl
@[simp, grind =] theorem PC.inWait_wMapCreate : PC.inWait .wMapCreate = true := rfl
@[simp, grind =] theorem PC.inWait_wMapGet : PC.inWait .wMapGet = true := rfl
@[simp, grind =] theorem PC.inWait_wMapInsert : PC.inWait .wMapInsert = true := rfl
@[simp, grind =] theorem PC.inWait_wPrepend : PC.inWait .wPrepend = true := rfl
@[simp, grind =] theorem PC.inWait_wCondWait : PC.inWait .wCondWait = true := rfl
@[simp, grind =] theorem PC.inWait_wParked : PC.inWait .wParked = true := rfl
@[simp, grind =] theorem PC.inWait_wCheck : PC.inWait .wCheck = true := rfl
@[simp, grind =] theorem PC.inWait_wIsTimeout : PC.inWait .wIsTimeout = true := rfl
@[simp, grind =] theorem PC.inWait_wRemove : PC.inWait .wRemove = true := rfl
@[simp, grind =] theorem PC.inWait_wMapRemove : PC.inWait .wMapRemove = true := rfl
@[simp, grind =] theorem PC.inWait_wFree : PC.inWait .wFree = true := rfl
@[simp, grind =] theorem PC.inWait_wUnlock : PC.inWait .wUnlock = true := rfl
@[simp, grind =] theorem PC.inWait_nShared : PC.inWait .nShared = false := rfl
@[simp, grind =] theorem PC.inWait_nLock : PC.inWait .nLock = false := rfl
@[simp, grind =] theorem PC.inWait_nGetMap : PC.inWait .nGetMap = false := rfl
@[simp, grind =] theorem PC.inWait_nMapGet : PC.inWait .nMapGet = false := rfl
@[simp, grind =] theorem PC.inWait_nHead : PC.inWait .nHead = false := rfl
@[simp, grind =] theorem PC.inWait_nLoop : PC.inWait .nLoop = false := rfl
@[simp, grind =] theorem PC.inWait_nSignal : PC.inWait .nSignal = false := rfl
@[simp, grind =] theorem PC.inWait_nUnlock : PC.inWait .nUnlock = false := rfl
@[simp, grind =] theorem PC.inWait_sPoint : PC.inWait .sPoint = false := rfl
@[simp, grind =] theorem PC.inWait_crashed (k : Crash) : PC.inWait (.crashed k) = false := rfl
@[simp, grind =] theorem PC.inNotify_idle : PC.inNotify .idle = false := rfl
@[simp, grind =] theorem PC.inNotify_wLock : PC.inNotify .wLock = false := rfl
@[simp, grind =] theorem PC.inNotify_wLoad : PC.inNotify .wLoad = false := rfl
@[simp, grind =] theorem PC.inNotify_wUnlockNe : PC.inNotify .wUnlockNe = false := rfl
@[simp, grind =] theorem PC.inNotify_wAlloc : PC.inNotify .wAlloc = false := rfl
@[simp, grind =] theorem PC.inNotify_wMapCreate : PC.inNotify .wMapCreate = false := rfl
@[simp, grind =] theorem PC.inNotify_wMapGet : PC.inNotify .wMapGet = false := rfl
@[simp, grind =] theorem PC.inNotify_wMapInsert : PC.inNotify .wMapInsert = false := rfl
@[simp, grind =] theorem PC.inNotify_wPrepend : PC.inNotify .wPrepend = false := rfl
@[simp, grind =] theorem PC.inNotify_wCondWait : PC.inNotify .wCondWait = false := rfl
@[simp, grind =] theorem PC.inNotify_wParked : PC.inNotify .wParked = false := rfl
@[simp, grind =] theorem PC.inNotify_wCheck : PC.inNotify .wCheck = false := rfl
@[simp, grind =] theorem PC.inNotify_wIsTimeout : PC.inNotify .wIsTimeout = false := rfl
@[simp, grind =] theorem PC.inNotify_wRemove : PC.inNotify .wRemove = false := rfl
@[simp, grind =] theorem PC.inNotify_wMapRemove : PC.inNotify .wMapRemove = false := rfl
@[simp, grind =] theorem PC.inNotify_wFree : PC.inNotify .wFree = false := rfl
@[simp, grind =] theorem PC.inNotify_wUnlock : PC.inNotify .wUnlock = false := rfl
@[simp, grind =] theorem PC.inNotify_nShared : PC.inNotify .nShared = true := rfl
@[simp, grind =] theorem PC.inNotify_nLock : PC.inNotify .nLock = true := rfl
@[simp, grind =] theorem PC.inNotify_nGetMap : PC.inNotify .nGetMap = true := rfl
@[simp, grind =] theorem PC.inNotify_nMapGet : PC.inNotify .nMapGet = true := rfl
@[simp, grind =] theorem PC.inNotify_nHead : PC.inNotify .nHead = true := rfl
@[simp, grind =] theorem PC.inNotify_nLoop : PC.inNotify .nLoop = true := rfl
@[simp, grind =] theorem PC.inNotify_nSignal : PC.inNotify .nSignal = true := rfl
@[simp, grind =] theorem PC.inNotify_nUnlock : PC.inNotify .nUnlock = true := rfl
@[simp, grind =] theorem PC.inNotify_sPoint : PC.inNotify .sPoint = false := rfl
@[simp, grind =] theorem PC.inNotify_crashed (k : Crash) : PC.inNotify (.crashed k) = false := rfl

/-! ### the invariant (part A: heap shape, ownership, liveness, mutex, parking) -/

structure InvA (B : Nat) (c : Cfg G L) : Prop where
  tid_eq : ∀ t, (c.locals t).tid = t
  no_crash : ∀ t k, (c.locals t).pc ≠ .crashed k
  /-- the mutex is held exactly by the thread inside the critical section -/
  mutex_iff : ∀ t, c.g.mutex = some t ↔ (c.locals t).pc.holds = true
  /-- a thread's wait record is live, its own, and registered under its address -/
  wait_live : ∀ t, (c.locals t).pc.hasWait = true →
    (c.locals t).wait = (t, (c.locals t).serial) ∧ (c.g.waits (c.locals t).wait).live = true ∧
    (c.g.waits (c.locals t).wait).addr = (c.locals t).addr
  /-- every live wait record is the current one of its allocating thread -/
  live_wait : ∀ w, (c.g.waits w).live = true → (c.locals w.1).pc.hasWait = true ∧ (c.locals w.1).wait = w
  /-- remembered slot pointers point into live nodes keyed by the thread's address -/
  slot_ok : ∀ t, (c.locals t).pc.hasSlot = true →
    ∃ n, (c.locals t).slot = some n ∧ (c.g.nodes n).live = true ∧ (c.g.nodes n).key = (c.locals t).addr
  /-- an enqueued thread's wait is in the list its slot pointer designates -/
  enq_mem : ∀ t n, (c.locals t).pc.enq = true → (c.locals t).slot = some n →
    (c.locals t).wait ∈ (c.g.nodes n).waits
  /-- every element of a wait list is live and belongs to a thread enqueued on exactly that node -/
  list_ok : ∀ n w, (c.g.nodes n).live = true → w ∈ (c.g.nodes n).waits →
    (c.g.waits w).live = true ∧ (c.locals w.1).pc.enq = true ∧ (c.locals w.1).slot = some n
  list_nodup : ∀ n, (c.g.nodes n).live = true → (c.g.nodes n).waits.Nodup
  /-- bucket chains hold live nodes of that bucket, without repetition of nodes or keys -/
  chain_ok : ∀ b n, n ∈ c.g.buckets b → (c.g.nodes n).live = true ∧ (c.g.nodes n).key % B = b
  chain_nodup : ∀ b, (c.g.buckets b).Nodup
  chain_keys : ∀ b n m, n ∈ c.g.buckets b → m ∈ c.g.buckets b →
    (c.g.nodes n).key = (c.g.nodes m).key → n = m
  live_chain : ∀ n, (c.g.nodes n).live = true → n ∈ c.g.buckets ((c.g.nodes n).key % B)
  /-- node identities are fresh: `(t, k)` can be live only once `t`'s `k`-th operation inserted it -/
  node_fresh : ∀ n, (c.g.nodes n).live = true →
    n.2 < (c.locals n.1).serial ∨ (n.2 = (c.locals n.1).serial ∧ (c.locals n.1).pc.afterInsert = true)
  /-- only threads inside `pthread_cond_(timed)wait` are parked, on their own wait's condvar -/
  parked_ok : ∀ t w, (t, w) ∈ c.g.parked → (c.locals t).pc = .wParked ∧ (c.locals t).wait = w
  parked_nodup : c.g.parked.Nodup
  map_alloc : ∀ t, (c.locals t).pc.afterCreate = true → c.g.mapAlloc = true
  /-- the notifier's cursor is a suffix of the list it walks -/
  cursor_ok : ∀ t n, ((c.locals t).pc = .nLoop ∨ (c.locals t).pc = .nSignal) → (c.locals t).slot = some n →
    (c.locals t).cursor <:+ (c.g.nodes n).waits
  /-- at `nSignal` the cursor is non-empty -/
  signal_cursor : ∀ t, (c.locals t).pc = .nSignal → (c.locals t).cursor ≠ []
  /-- `mapInsert` is reached only when the chain has no node for the address -/
  insert_ok : ∀ t, (c.locals t).pc = .wMapInsert →
    ∀ n ∈ c.g.buckets ((c.locals t).addr % B), (c.g.nodes n).key ≠ (c.locals t).addr

/-! ### `chainFind` (mapGet / mapRemove lookups) -/

theorem chainFind_ok_of_live (nodes : Id → NodeRec) (key : Nat) (ch : List Id)
    (h : ∀ n ∈ ch, (nodes n).live = true) : ∃ r, chainFind nodes key ch = .ok r := by
  induction ch with
  | nil => exact ⟨none, rfl⟩
  | cons n rest ih =>
    have hn := h n (List.mem_cons_self ..)
    unfold chainFind
    simp only [hn, Bool.not_true, Bool.false_eq_true, ↓reduceIte]
    split
    · exact ⟨some n, rfl⟩
    · exact ih (fun m hm => h m (List.mem_cons_of_mem _ hm))

theorem chainFind_some (nodes : Id → NodeRec) (key : Nat) (ch : List Id) (n : Id)
    (h : chainFind nodes key ch = .ok (some n)) : n ∈ ch ∧ (nodes n).key = key ∧ (nodes n).live = true := by
  induction ch with
  | nil => simp [chainFind] at h
  | cons m rest ih =>
    unfold chainFind at h
    split at h
    · simp at h
    · rename_i hl
      split at h
      · rename_i hk
        simp only [Except.ok.injEq, Option.some.injEq] at h
        subst h
        exact ⟨List.mem_cons_self .., hk, by simpa using hl⟩
      · have := ih h
        exact ⟨List.mem_cons_of_mem _ this.1, this.2⟩

theorem chainFind_none (nodes : Id → NodeRec) (key : Nat) (ch : List Id)
    (h : chainFind nodes key ch = .ok none) : ∀ n ∈ ch, (nodes n).key ≠ key := by
  induction ch with
  | nil => simp
  | cons m rest ih =>
    unfold chainFind at h
    split at h
    · simp at h
    · split at h
      · simp at h
      · rename_i hk
        intro n hn
        rcases List.mem_cons.mp hn with rfl | hn
        · exact hk
        · exact ih h n hn

theorem allLiveN_eq_true (g : G) (l : List Id) : allLiveN g l = true ↔ ∀ n ∈ l, (g.nodes n).live = true := by
  simp [allLiveN]

theorem allLiveW_eq_true (g : G) (l : List Id) : allLiveW g l = true ↔ ∀ w ∈ l, (g.waits w).live = true := by
  simp [allLiveW]

theorem allLiveN_eq_false (g : G) (l : List Id) : allLiveN g l = false ↔ ∃ n ∈ l, (g.nodes n).live = false := by
  simp [allLiveN]

theorem allLiveW_eq_false (g : G) (l : List Id) : allLiveW g l = false ↔ ∃ w ∈ l, (g.waits w).live = false := by
  simp [allLiveW]

theorem mem_listRemove {l : List Id} {w x : Id} (hn : l.Nodup) (hw : w ∈ l) :
    x ∈ listRemove l w ↔ x ∈ l ∧ x ≠ w := by
  simp only [listRemove, hw, ↓reduceIte]
  rw [List.Nodup.mem_erase_iff hn]
  exact And.comm

theorem listRemove_nodup {l : List Id} {w : Id} (hn : l.Nodup) : (listRemove l w).Nodup := by
  unfold listRemove
  split
  · exact hn.erase _
  · exact List.nodup_nil

/-! ### initial states -/

theorem InvA.init {B : Nat} {c : Cfg G L} (h : Init c) : InvA B c := by
  obtain ⟨⟨sh, mem, hg⟩, hl⟩ := h
  have hpc : ∀ t, (c.locals t).pc = .idle := fun t => by obtain ⟨p, hp⟩ := hl t; simp [hp, L.init]
  refine { tid_eq := ?_, no_crash := ?_, mutex_iff := ?_, wait_live := ?_, live_wait := ?_, slot_ok := ?_,
           enq_mem := ?_, list_ok := ?_, list_nodup := ?_, chain_ok := ?_, chain_nodup := ?_, chain_keys := ?_,
           live_chain := ?_, node_fresh := ?_, parked_ok := ?_, parked_nodup := ?_, map_alloc := ?_,
           cursor_ok := ?_, signal_cursor := ?_, insert_ok := ?_ }
  all_goals (try simp [hg, G.init, hpc, PC.holds, PC.hasWait, PC.hasSlot, PC.enq, PC.afterCreate])
  · intro t; obtain ⟨p, hp⟩ := hl t; simp [hp, L.init]

end W2c2Verif.Futex
