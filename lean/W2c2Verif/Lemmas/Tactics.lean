import W2c2Verif.Lemmas.CSemSimp
import Std.Tactic.BVDecide

namespace W2c2Verif

/-- split every `if`, then close each branch by simplification / evaluation -/
macro "cases_ite" : tactic => `(tactic| (repeat' split) <;> (try simp_all) <;> (try decide))

/-- split every `if`, then close value goals and refute UB branches with `bv_decide` -/
macro "bv_close" : tactic => `(tactic| (repeat' split) <;> first
  | rfl
  | ((try simp only [Out.val.injEq, CVal.u32.injEq, CVal.u64.injEq, CVal.i32.injEq, CVal.i64.injEq,
                CVal.u8.injEq, CVal.u16.injEq, CVal.i8.injEq, CVal.i16.injEq, CVal.f32.injEq, CVal.f64.injEq]); bv_decide)
  | (exfalso; bv_decide))

/-- evaluate a function body path by path: evaluate up to the next undecided `if`, split, repeat -/
macro "csem_paths" : tactic => `(tactic| (csem_step; repeat' (split <;> csem_step)))

end W2c2Verif
