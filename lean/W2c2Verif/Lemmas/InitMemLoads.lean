/-
  Lemmas.InitMemLoads — helper lemmas of Props/C06Init.lean: `initAllE = initAll`, the LOAD_DATA statements among the emitted ones
  (`loadOf`), `segsEmitted` over an append.
-/
import W2c2Verif.Lemmas.InitMem
import W2c2Verif.Lemmas.InstantiateFrame

namespace W2c2Verif.Model.InitMem
open W2c2Verif Model Model.Inst Spec.Inst Gen.InitMem

theorem initAllE_eq (mode : Mode) (d : ModDesc) (r : Resolver) (w : World) : initAllE mode d r w = initAll d r w := by
  unfold initAllE initAll
  have h0 : initImports d r (w, {}) = .val (w, imp0 d r) := rfl
  rw [h0]
  simp only [Out.bind_val]
  rw [initMemoriesE_eq mode d (w, imp0 d r) rfl]

/-- target memory index, offset expression and the bytes a LOAD_DATA statement reads from its source -/
def loadOf (src : Sources) : Emitted → Option (Nat × ConstE × List UInt8)
  | .loadArr m e k len => ((src.arrays[k]?).join).bind fun a => if len ≤ a.length then some (m, e, a.take len) else none
  | .loadBlob m e off len => if off + len ≤ src.blob.length then some (m, e, (src.blob.drop off).take len) else none
  | _ => none

theorem memsEmitted_no_load (src : Sources) (imports : Nat) (shared : List Bool) : ∀ (mems : List (Nat × Nat)) (j : Nat),
    (memsEmitted imports shared j mems).filterMap (loadOf src) = [] := by
  intro mems
  induction mems with
  | nil => intro j; rfl
  | cons mm rest ih =>
    intro j
    simp only [memsEmitted, List.filterMap_cons]
    rw [ih]
    cases shared.getD j false <;> simp [memEmitted, loadOf]

theorem bytesLen_snoc (pre : List DataSeg) (seg : DataSeg) : bytesLen (pre ++ [seg]) = bytesLen pre + seg.bytes.length := by
  simp [bytesLen, List.flatMap_append]

theorem segs_loads (mode : Mode) (d : ModDesc) : ∀ (rest pre : List DataSeg), d.datas = pre ++ rest →
    (segsEmitted mode pre.length (bytesLen pre) rest).filterMap (loadOf (sourcesOf mode d)) =
      (rest.filter fun seg => !seg.passive).map fun seg => (seg.mem, seg.offset, seg.bytes) := by
  intro rest
  induction rest with
  | nil => intro pre _; rfl
  | cons seg post ih =>
    intro pre hd
    have hblob : (sourcesOf mode d).blob = pre.flatMap (·.bytes) ++ seg.bytes ++ post.flatMap (·.bytes) := by
      simp [sourcesOf, blobOf_gen, hd, List.flatMap_append, List.flatMap_cons]
    have harr : ((sourcesOf mode d).arrays[pre.length]?).join = some seg.bytes := by
      simp [sourcesOf, arraysOf_gen, hd]
    have hslice : (((sourcesOf mode d).blob.drop (bytesLen pre)).take seg.bytes.length) = seg.bytes := by
      rw [hblob]; exact drop_take_mid _ _ _
    have hfit : bytesLen pre + seg.bytes.length ≤ (sourcesOf mode d).blob.length := by
      rw [hblob]; simp [bytesLen]
    have hrec := ih (pre ++ [seg]) (by simp [hd])
    rw [bytesLen_snoc] at hrec
    simp only [List.length_append, List.length_cons, List.length_nil, Nat.zero_add] at hrec
    simp only [segsEmitted, List.filterMap_append]
    rw [hrec]
    cases hp : seg.passive <;> cases mode <;>
      simp [segEmitted, loadEmitted, hp, isExt, loadOf, harr, hslice, hfit, List.filterMap_cons]

theorem segsEmitted_append (mode : Mode) : ∀ (pre rest : List DataSeg) (k off : Nat),
    segsEmitted mode k off (pre ++ rest) = segsEmitted mode k off pre ++ segsEmitted mode (k + pre.length) (off + bytesLen pre) rest := by
  intro pre
  induction pre with
  | nil => intro rest k off; simp [segsEmitted, bytesLen]
  | cons seg pre ih =>
    intro rest k off
    simp only [List.cons_append, segsEmitted, ih, List.append_assoc, List.length_cons, bytesLen, List.flatMap_cons, List.length_append]
    congr 3 <;> omega

end W2c2Verif.Model.InitMem
