/-
  Lemmas.SimMono — fuel monotonicity of the target semantics: a finished execution stays the
  same with more fuel.
-/
import W2c2Verif.Lemmas.SimBasic

namespace W2c2Verif.Sim
open W2c2Verif Model Gen Spec

theorem exec_mono (ns : NumSem) : ∀ f,
    (∀ out σ r, execSeq ns f out σ = r → r ≠ .oof → execSeq ns (f + 1) out σ = r) ∧
    (∀ s σ r, execStmt ns f s σ = r → r ≠ .oof → execStmt ns (f + 1) s σ = r) := by
  intro f
  induction f with
  | zero =>
    constructor
    · intro out σ r h hr; simp [execSeq] at h; exact absurd h.symm hr
    · intro s σ r h hr; simp [execStmt] at h; exact absurd h.symm hr
  | succ f ih =>
    obtain ⟨ihS, ihI⟩ := ih
    constructor
    · intro out σ r h hr
      cases out with
      | nil => simp [execSeq] at h ⊢; exact h
      | cons s rest =>
        simp only [execSeq] at h ⊢
        cases hs : execStmt ns f s σ with
        | normal σ' =>
          rw [hs] at h
          rw [ihI s σ _ hs (by simp)]
          exact ihS rest σ' r h hr
        | jump L σ' => rw [hs] at h; rw [ihI s σ _ hs (by simp)]; exact h
        | trap t => rw [hs] at h; rw [ihI s σ _ hs (by simp)]; exact h
        | stuck => rw [hs] at h; rw [ihI s σ _ hs (by simp)]; exact h
        | oof => rw [hs] at h; exact absurd h.symm hr
    · intro s σ r h hr
      cases s with
      | block body L =>
        simp only [execStmt] at h ⊢
        cases hb : execSeq ns f body σ with
        | oof => rw [hb] at h; exact absurd h.symm hr
        | normal σ' => rw [hb] at h; rw [ihS body σ _ hb (by simp)]; exact h
        | jump L' σ' => rw [hb] at h; rw [ihS body σ _ hb (by simp)]; exact h
        | trap t => rw [hb] at h; rw [ihS body σ _ hb (by simp)]; exact h
        | stuck => rw [hb] at h; rw [ihS body σ _ hb (by simp)]; exact h
      | loop L body =>
        simp only [execStmt] at h ⊢
        cases hb : execSeq ns f body σ with
        | oof => rw [hb] at h; exact absurd h.symm hr
        | normal σ' => rw [hb] at h; rw [ihS body σ _ hb (by simp)]; exact h
        | jump L' σ' =>
          rw [hb] at h; rw [ihS body σ _ hb (by simp)]
          by_cases hL : L' = L
          · simp only [hL, if_true] at h ⊢
            exact ihI _ σ' r h hr
          · simp only [hL, if_false] at h ⊢; exact h
        | trap t => rw [hb] at h; rw [ihS body σ _ hb (by simp)]; exact h
        | stuck => rw [hb] at h; rw [ihS body σ _ hb (by simp)]; exact h
      | ifElse c thn els L =>
        simp only [execStmt] at h ⊢
        by_cases hc : isTrue (σ.get c) = true
        · simp only [hc, if_true] at h ⊢
          cases hb : execSeq ns f thn σ with
          | oof => rw [hb] at h; exact absurd h.symm hr
          | normal σ' => rw [hb] at h; rw [ihS thn σ _ hb (by simp)]; exact h
          | jump L' σ' => rw [hb] at h; rw [ihS thn σ _ hb (by simp)]; exact h
          | trap t => rw [hb] at h; rw [ihS thn σ _ hb (by simp)]; exact h
          | stuck => rw [hb] at h; rw [ihS thn σ _ hb (by simp)]; exact h
        · simp only [hc] at h ⊢
          cases els with
          | some e =>
            simp only [] at h ⊢
            cases hb : execSeq ns f e σ with
            | oof => rw [hb] at h; exact absurd h.symm hr
            | normal σ' => rw [hb] at h; rw [ihS e σ _ hb (by simp)]; exact h
            | jump L' σ' => rw [hb] at h; rw [ihS e σ _ hb (by simp)]; exact h
            | trap t => rw [hb] at h; rw [ihS e σ _ hb (by simp)]; exact h
            | stuck => rw [hb] at h; rw [ihS e σ _ hb (by simp)]; exact h
          | none =>
            simp only [] at h ⊢
            cases hb : execSeq ns f [] σ with
            | oof => rw [hb] at h; exact absurd h.symm hr
            | normal σ' => rw [hb] at h; rw [ihS [] σ _ hb (by simp)]; exact h
            | jump L' σ' => rw [hb] at h; rw [ihS [] σ _ hb (by simp)]; exact h
            | trap t => rw [hb] at h; rw [ihS [] σ _ hb (by simp)]; exact h
            | stuck => rw [hb] at h; rw [ihS [] σ _ hb (by simp)]; exact h
      | _ => simp only [execStmt] at h ⊢; exact h

end W2c2Verif.Sim
