/-
  Lemmas.SimInstr — the instruction step of the simulation proof (C03): every instruction of the covered core,
  executed for f+1 units of fuel, is simulated by the statement(s) the translator emits for it, given the
  theorem for sequences and instructions at fuel f.
-/
import W2c2Verif.Lemmas.SimBlock
import W2c2Verif.Lemmas.SimSeqStep
set_option linter.unusedSimpArgs false
set_option linter.unusedVariables false
namespace W2c2Verif.Sim
open W2c2Verif Model Gen Spec

theorem Rel.top {st : St} {stk : List Val} {σ : MSt} {k : Nat} {sl : Slot} (hr : Rel st.stack stk σ) (h : st.top k = some sl) :
    k < stk.length ∧ sl.idx = stk.length - 1 - k ∧ stk[stk.length - 1 - k]? = some (σ.get sl) := by
  obtain ⟨h1, h2, h3⟩ := St.top_spec h
  have hlen := hr.length
  have hi : st.stack.length - 1 - k < st.stack.length := by omega
  refine ⟨by omega, by omega, ?_⟩
  have hg := hr.get (st.stack.length - 1 - k) hi
  rw [List.getElem?_eq_getElem hi] at h3
  have hsl : sl = ⟨st.stack[st.stack.length - 1 - k], st.stack.length - 1 - k⟩ := by
    cases sl; simp only [Option.some.injEq] at h3; simp_all
  rw [hsl, hg]
  simp only [hlen]
  exact List.getElem?_eq_getElem _

theorem LocTyped.set {ctx : Ctx} {loc : Store} (h : LocTyped ctx loc) (k : Nat) (v : Val) (t : VT)
    (hk : ctx.localTypes[k]? = some t) (hv : vtOf v = t) : LocTyped ctx { loc with locals := loc.locals.set k v } := by
  refine ⟨by simp [h.len], fun j hj hj' => ?_, h.glob⟩
  simp only [List.length_set] at hj
  by_cases e : k = j
  · subst e
    simp only [List.getElem_set_self, hv]
    have := (List.getElem?_eq_some_iff.mp hk).2
    exact this.symm
  · simp only [List.getElem_set_ne e]
    exact h.typed j hj hj'

theorem GTyped.set {ctx : Ctx} {g : GS} (h : GTyped ctx g) (k : Nat) (v : Val) (t : VT)
    (hk : ctx.globalTypes[k]? = some t) (hv : vtOf v = t) : GTyped ctx { g with globals := g.globals.set k v } := by
  refine ⟨by simp [h.1], fun j hj hj' => ?_⟩
  simp only [List.length_set] at hj
  by_cases e : k = j
  · subst e
    simp only [List.getElem_set_self, hv]
    have := (List.getElem?_eq_some_iff.mp hk).2
    exact this.symm
  · simp only [List.getElem_set_ne e]
    exact h.2 j hj hj'

/-- the shape of every value-producing non-control instruction: pop `n`, push one value into the slot at the new top -/
theorem simres_pop_push {ctx : Ctx} {st st' : St} {stk : List Val} {loc : Store} {σ : MSt} (hw : WF st) (hr : Rel st.stack stk σ)
    (hl : σ.store = loc) (hlt : LocTyped ctx loc) (n : Nat) (hn : st.base + n ≤ st.stack.length)
    (rt : VT) (v : Val) (hv : vtOf v = rt)
    (hwf' : WF st')
    (hlab : st'.labels = st.labels) (hnext : st'.next = st.next) (hstack : st'.stack = st.stack.take (st.stack.length - n) ++ [rt])
    {m : MRes} (hm : m = .normal (σ.set ⟨rt, st.stack.length - n⟩ v)) :
    SimRes ctx st stk σ st' false (.normal (stk.take (stk.length - n) ++ [v]) loc) m := by
  have hlen := hr.length
  have hpush := (hr.take (st.stack.length - n)).push rt v hv
  have hl3 : (List.take (st.stack.length - n) st.stack).length = st.stack.length - n := by simp
  rw [hl3] at hpush
  refine simres_normal_intro rfl hwf' hlab (Nat.le_of_eq hnext.symm) hlt
    (σ.set ⟨rt, st.stack.length - n⟩ v) hm ?_ (by simp [hl]) (SlotsBelow.set _ _ _ (by simp; omega)) ?_
  · rw [hstack]; simpa [hlen] using hpush
  · rw [List.take_append_of_le_length (by simp; omega), List.take_take]
    congr 1; omega

theorem Rel.withStore {stack : List VT} {stk : List Val} {σ : MSt} (h : Rel stack stk σ) (x : Store) : Rel stack stk { σ with store := x } := h

/-- pop `n`, push one value; globals / memory / locals may change (to a typed store) -/
theorem simres_pop_push_st {ctx : Ctx} {st st' : St} {stk : List Val} {σ : MSt} (hw : WF st) (hr : Rel st.stack stk σ)
    (n : Nat) (hn : st.base + n ≤ st.stack.length)
    (rt : VT) (v : Val) (hv : vtOf v = rt) (loc' : Store) (hlt' : LocTyped ctx loc')
    (hwf' : WF st')
    (hlab : st'.labels = st.labels) (hnext : st'.next = st.next) (hstack : st'.stack = st.stack.take (st.stack.length - n) ++ [rt])
    {m : MRes} (hm : m = .normal (({ σ with store := loc' } : MSt).set ⟨rt, st.stack.length - n⟩ v)) :
    SimRes ctx st stk σ st' false (.normal (stk.take (stk.length - n) ++ [v]) loc') m := by
  have hlen := hr.length
  have hpush := ((hr.withStore loc').take (st.stack.length - n)).push rt v hv
  have hl3 : (List.take (st.stack.length - n) st.stack).length = st.stack.length - n := by simp
  rw [hl3] at hpush
  refine simres_normal_intro rfl hwf' hlab (Nat.le_of_eq hnext.symm) hlt'
    (({ σ with store := loc' } : MSt).set ⟨rt, st.stack.length - n⟩ v) hm ?_ rfl ?_ ?_
  · rw [hstack]; simpa [hlen] using hpush
  · exact (SlotsBelow.locals σ loc').trans (SlotsBelow.set _ _ _ (by simp; omega))
  · rw [List.take_append_of_le_length (by simp; omega), List.take_take]
    congr 1; omega

/-- pop `n`, push nothing; the store may change -/
theorem simres_pop_st {ctx : Ctx} {st st' : St} {stk : List Val} {σ : MSt} (hw : WF st) (hr : Rel st.stack stk σ)
    (n : Nat) (hn : st.base + n ≤ st.stack.length) (loc' : Store) (hlt' : LocTyped ctx loc')
    (hwf' : WF st') (hlab : st'.labels = st.labels) (hnext : st'.next = st.next) (hstack : st'.stack = st.stack.take (st.stack.length - n))
    {m : MRes} (hm : m = .normal { σ with store := loc' }) :
    SimRes ctx st stk σ st' false (.normal (stk.take (stk.length - n)) loc') m := by
  have hlen := hr.length
  refine simres_normal_intro rfl hwf' hlab (Nat.le_of_eq hnext.symm) hlt' { σ with store := loc' } hm ?_ rfl (SlotsBelow.locals σ loc') ?_
  · rw [hstack, hlen]; exact (hr.withStore loc').take _
  · rw [List.take_take]; congr 1; omega

/-- pop `n`, push nothing -/
theorem simres_pop {ctx : Ctx} {st st' : St} {stk : List Val} {loc : Store} {σ : MSt} (hw : WF st) (hr : Rel st.stack stk σ)
    (hl : σ.store = loc) (hlt : LocTyped ctx loc) (n : Nat) (hn : st.base + n ≤ st.stack.length)
    (hwf' : WF st') (hlab : st'.labels = st.labels) (hnext : st'.next = st.next) (hstack : st'.stack = st.stack.take (st.stack.length - n))
    {m : MRes} (hm : m = .normal σ) :
    SimRes ctx st stk σ st' false (.normal (stk.take (stk.length - n)) loc) m := by
  have hlen := hr.length
  refine simres_normal_intro rfl hwf' hlab (Nat.le_of_eq hnext.symm) hlt σ hm ?_ hl (SlotsBelow.refl _ _) ?_
  · rw [hstack, hlen]; exact hr.take _
  · rw [List.take_take]; congr 1; omega

/-- the argument slots of a call hold the topmost operands, in declaration order -/
theorem Rel.args {stack : List VT} {stk : List Val} {σ : MSt} (hr : Rel stack stk σ) (params : List Wasm.VT)
    (hn : params.length ≤ stack.length) (ht : stack.drop (stack.length - params.length) = params.map vtOfW) :
    ((params.zipIdx).map fun (t, k) => (⟨vtOfW t, stack.length - params.length + k⟩ : Slot)).map σ.get = topN params.length stk := by
  have hlen := hr.length
  apply List.ext_getElem
  · simp [topN]; omega
  · intro k h1 h2
    simp only [List.length_map, List.length_zipIdx] at h1
    simp only [List.getElem_map, List.getElem_zipIdx, topN, List.getElem_drop, Nat.zero_add]
    have hk : stack.length - params.length + k < stack.length := by omega
    have hty : stack[stack.length - params.length + k] = vtOfW params[k] := by
      have := congrArg (fun l => l[k]?) ht
      simp only [List.getElem?_drop, List.getElem?_map] at this
      rw [List.getElem?_eq_getElem hk, List.getElem?_eq_getElem h1] at this
      simpa using this
    have hg := hr.get _ hk
    rw [hty] at hg
    rw [hg]
    congr 1
    omega

theorem num_binary_case {ns : NumSem} {ctx : Ctx} {f : Nat} {st st' : St} {stk : List Val} {loc : Store} {σ : MSt} {opcode : String} {k : EmitKind}
    {s0 s1 : Slot} (hns : NumOK ns) (hk : lookupAssoc Gen.emitTable opcode = some k)
    (hw : WF st) (hr : Rel st.stack stk σ) (hl : σ.store = loc) (hlt : LocTyped ctx loc)
    (h0 : st.top 0 = some s0) (h1 : st.top 1 = some s1) (hge : st.base + 2 ≤ st.stack.length) (rt : VT)
    (harity : ns.arity opcode = 2)
    (hdst : numSlots opcode k s1.ty s1.idx s0.ty s0.idx = (⟨rt, s1.idx⟩, [⟨s1.ty, s1.idx⟩, ⟨s0.ty, s0.idx⟩]))
    (hres : numResTy opcode k s1.ty = rt) (hwf' : WF st')
    (hlab : st'.labels = st.labels) (hnext : st'.next = st.next) (hstack : st'.stack = st.stack.take (st.stack.length - 2) ++ [rt]) :
    SimRes ctx st stk σ st' false (erunInstr ns (f + 1) (.numeric opcode) stk loc)
      (execOut ns (f + 1) [MStmtC.num opcode k s1.ty s1.idx s0.ty s0.idx] σ) := by
  obtain ⟨a1, a2, a3⟩ := hr.top h0
  obtain ⟨b1, b2, b3⟩ := hr.top h1
  simp only [Nat.sub_zero] at a3 a2
  have e2 : stk.length - 1 - 1 = stk.length - 2 := by omega
  rw [e2] at b3 b2
  have hlen := hr.length
  rw [erunInstr]
  have hnlt : ¬ stk.length < 2 := by omega
  simp only [harity, hnlt, if_false, topN_two b3 a3 (by omega)]
  have hex : execOut ns (f + 1) [MStmtC.num opcode k s1.ty s1.idx s0.ty s0.idx] σ =
      (match ns.sem opcode [σ.get s1, σ.get s0] with | .val v => MRes.normal (σ.set ⟨rt, s1.idx⟩ v) | .trap t => .trap t | _ => .stuck) := by
    show (match numSlots opcode k s1.ty s1.idx s0.ty s0.idx with
      | (dst, args) => (match ns.sem opcode (args.map σ.get) with | .val v => MRes.normal (σ.set dst v) | .trap t => .trap t | _ => .stuck)) = _
    rw [hdst]
    rfl
  rw [hex]
  cases hsem : ns.sem opcode [σ.get s1, σ.get s0] with
  | val v =>
    have hv := hns.typed opcode _ _ v hk hsem (σ.get s1) rfl
    rw [vtOf_get, hres] at hv
    refine simres_pop_push hw hr hl hlt 2 hge rt v hv hwf' hlab hnext hstack ?_
    show MRes.normal _ = _
    rw [b2, hlen]
  | trap t => rfl
  | ub => trivial
  | oof => trivial

theorem gotoCopy_sem {s s' : St} {lab : Label} {cp : Option (Slot × Slot)} {stk : List Val} {σ : MSt}
    (hg : gotoCopy s lab = some (s', cp)) (hr : Rel s.stack stk σ) :
    (doCopy σ cp).store = σ.store ∧ SlotsBelow lab.height σ (doCopy σ cp) ∧
    (∀ ty, lab.type = some ty → ∃ v, stk.getLast? = some v ∧ (doCopy σ cp).get ⟨ty, lab.height⟩ = v) := by
  unfold gotoCopy at hg
  split at hg
  · rename_i hty
    cases hg
    exact ⟨rfl, SlotsBelow.refl _ _, fun ty h => by rw [hty] at h; cases h⟩
  · rename_i rt hty
    split at hg
    · cases hg
    · rename_i src hsrc
      obtain ⟨a1, a2, a3⟩ := hr.top hsrc
      simp only [Nat.sub_zero] at a2 a3
      have hlast : stk.getLast? = some (σ.get src) := by rw [List.getLast?_eq_getElem?]; exact a3
      split at hg
      · cases hg
      · rename_i hcond
        simp only [not_or, Decidable.not_not, ne_eq, Nat.not_lt] at hcond
        split at hg
        · cases hg
          refine ⟨rfl, SlotsBelow.set _ _ _ (Nat.le_refl _), fun ty h => ?_⟩
          rw [hty] at h; injection h with h; subst h
          refine ⟨σ.get src, hlast, ?_⟩
          simp only [doCopy]
          exact MSt.get_set_same _ _ _ (by rw [vtOf_get]; exact hcond.1)
        · rename_i heq
          simp only [Decidable.not_not, ne_eq] at heq
          cases hg
          refine ⟨rfl, SlotsBelow.refl _ _, fun ty h => ?_⟩
          rw [hty] at h; injection h with h; subst h
          refine ⟨σ.get src, hlast, ?_⟩
          simp only [doCopy]
          have : (⟨rt, lab.height⟩ : Slot) = src := by cases src; simp_all
          rw [this]

theorem endBlock_declLen_mono (s s' : St) (h h' : Nat) (bt : Option VT) (ls ls' : List Label) (hd : s.declLen ≤ s'.declLen) (hh : h = h' := by rfl) :
    (s.endBlock h bt ls).declLen ≤ (s'.endBlock h' bt ls').declLen := by
  subst hh
  cases bt with
  | none => exact hd
  | some t => show max s.declLen (h + 1) ≤ max s'.declLen (h + 1); omega

theorem erun_block (ns : NumSem) (f : Nat) (bt : Option VT) (body : List EInstr) (stk : List Val) (loc : Store) :
    erunInstr ns (f + 1) (.block bt body) stk loc = blockRes stk.length bt (erunSeq ns f body stk loc) := by
  rw [erunInstr]
  cases erunSeq ns f body stk loc with
  | branch l a b => cases l <;> rfl
  | _ => rfl

theorem exec_block (ns : NumSem) (f : Nat) (body : List MStmtC) (L : Nat) (σ : MSt) :
    execOut ns (f + 1) [MStmtC.block body L] σ = blockExec L (execSeq ns f body σ) := by
  show execStmt ns (f + 1) (MStmtC.block body L) σ = _
  simp only [execStmt]
  cases execSeq ns f body σ <;> rfl

theorem check_of_not {deadB : Bool} {a b : List VT} (h : ¬ ((!deadB && decide (a ≠ b)) = true)) : deadB = false → a = b := by
  intro hd; subst hd
  simpa using h

theorem erun_ite (ns : NumSem) (f : Nat) (bt : Option VT) (thn : List EInstr) (els : Option (List EInstr)) (stk : List Val) (loc : Store) :
    erunInstr ns (f + 1) (.ite bt thn els) stk loc =
      match stk.getLast? with
      | none => .stuck
      | some c => blockRes stk.dropLast.length bt
          (if isTrue c then erunSeq ns f thn stk.dropLast loc
           else (match els with | some e => erunSeq ns f e stk.dropLast loc | none => erunSeq ns f [] stk.dropLast loc)) := by
  rw [erunInstr]
  cases stk.getLast? with
  | none => rfl
  | some c =>
    simp only []
    generalize (if isTrue c then erunSeq ns f thn stk.dropLast loc
           else (match els with | some e => erunSeq ns f e stk.dropLast loc | none => erunSeq ns f [] stk.dropLast loc)) = r
    cases r with
    | branch l a b => cases l <;> rfl
    | _ => rfl

theorem exec_ite (ns : NumSem) (f : Nat) (c : Slot) (thn : List MStmtC) (els : Option (List MStmtC)) (L : Nat) (σ : MSt) :
    execOut ns (f + 1) [MStmtC.ifElse c thn els L] σ =
      blockExec L (if isTrue (σ.get c) then execSeq ns f thn σ
               else (match els with | some e => execSeq ns f e σ | none => execSeq ns f [] σ)) := by
  show execStmt ns (f + 1) (MStmtC.ifElse c thn els L) σ = _
  simp only [execStmt]
  generalize (if isTrue (σ.get c) then execSeq ns f thn σ
               else (match els with | some e => execSeq ns f e σ | none => execSeq ns f [] σ)) = r
  cases r <;> rfl

/-- `SimRes` depends on the final translator state only through its stack, labels and label counter -/
theorem simres_out_congr {ctx : Ctx} {st : St} {stk : List Val} {σ : MSt} {stOut stOut' : St} {dead : Bool} {r : ERes} {m : MRes}
    (h : SimRes ctx st stk σ stOut dead r m) (hs : stOut'.stack = stOut.stack) (hlab : stOut'.labels = stOut.labels)
    (hn : stOut.next ≤ stOut'.next) (hd : stOut.declLen ≤ stOut'.declLen) : SimRes ctx st stk σ stOut' dead r m := by
  cases r with
  | normal stk' loc' =>
    obtain ⟨h1, h2, h3, h4, h5, σ', h6, h7, h8, h9, h10⟩ := h
    exact ⟨h1, h2.of_same hlab hn (by rw [hs]; exact h2.base_le_height) (by rw [hs]; exact Nat.le_trans h2.decl hd), hlab.trans h3, Nat.le_trans h4 hn, h5, σ', h6, hs ▸ h7, h8, h9, h10⟩
  | branch l a b =>
    obtain ⟨h0, lab, σ', h1, h2, h3, h4⟩ := h
    exact ⟨h0, lab, σ', h1, h2, h3, fun ht => Nat.le_trans (h4 ht) hd⟩
  | ret a b =>
    obtain ⟨h0, lab, σ', h1, h2, h3, h4⟩ := h
    exact ⟨h0, lab, σ', h1, h2, h3, fun ht => Nat.le_trans (h4 ht) hd⟩
  | _ => exact h

theorem erun_loop (ns : NumSem) (f : Nat) (bt : Option VT) (body : List EInstr) (stk : List Val) (loc : Store) :
    erunInstr ns (f + 1) (.loop bt body) stk loc =
      match erunSeq ns f body stk loc with
      | .branch 0 stk' loc' => erunInstr ns f (.loop bt body) (stk'.take stk.length) loc'
      | r => blockRes stk.length bt r := by
  rw [erunInstr]
  cases erunSeq ns f body stk loc with
  | branch l a b => cases l <;> rfl
  | _ => rfl

def loopExec (ns : NumSem) (f : Nat) (L : Nat) (body : List MStmtC) : MRes → MRes
  | .jump L' σ' => if L' = L then execOut ns f [MStmtC.loop L body] σ' else .jump L' σ'
  | r => r

theorem exec_loop (ns : NumSem) (f : Nat) (body : List MStmtC) (L : Nat) (σ : MSt) :
    execOut ns (f + 1) [MStmtC.loop L body] σ = loopExec ns f L body (execSeq ns f body σ) := by
  show execStmt ns (f + 1) (MStmtC.loop L body) σ = _
  simp only [execStmt]
  cases execSeq ns f body σ <;> rfl

theorem loopExec_of_ne (ns : NumSem) (f : Nat) (L : Nat) (body : List MStmtC) (m : MRes) (h : ∀ σ', m ≠ .jump L σ') :
    loopExec ns f L body m = blockExec L m := by
  cases m with
  | jump L' σ' =>
    simp only [blockExec, loopExec]
    by_cases e : L' = L
    · subst e; exact absurd rfl (h σ')
    · simp [e]
  | _ => rfl

theorem brTable_fold_sem (ls : List Nat) : ∀ (s0 : St) (acc : List (Option (Slot × Slot) × Nat)) (s1 : St) (cases : List (Option (Slot × Slot) × Nat)),
    ls.foldl brTableStep (.ok (s0, acc)) = .ok (s1, cases) →
    ∃ cs, cases = acc ++ cs ∧ cs.length = ls.length ∧
      ∀ i (hi : i < ls.length) (hi' : i < cs.length), ∃ lab sa sb, sa.stack = s0.stack ∧ s0.label ls[i] = some lab ∧
        gotoCopy sa lab = some (sb, cs[i].1) ∧ cs[i].2 = lab.index := by
  induction ls with
  | nil =>
    intro s0 acc s1 cases h
    simp at h
    exact ⟨[], by simp [h.2], rfl, fun i hi => absurd hi (Nat.not_lt_zero _)⟩
  | cons l rest ih =>
    intro s0 acc s1 cases h
    simp only [List.foldl_cons] at h
    cases hstep : brTableStep (.ok (s0, acc)) l with
    | error e =>
      rw [hstep] at h
      have : ∀ (xs : List Nat), xs.foldl brTableStep (.error e) = .error e := by
        intro xs; induction xs with
        | nil => rfl
        | cons x xs ihx => simp only [List.foldl_cons]; exact ihx
      rw [this] at h; cases h
    | ok res =>
      obtain ⟨sa, ca⟩ := res
      rw [hstep] at h
      simp only [brTableStep, bind, Except.bind] at hstep
      cases hlab : s0.label l with
      | none => simp [hlab] at hstep
      | some lab =>
        cases hg : gotoCopy s0 lab with
        | none => simp [hlab, hg] at hstep
        | some r =>
          obtain ⟨sb, cp⟩ := r
          simp only [hlab, hg] at hstep
          injection hstep with hstep
          simp only [Prod.mk.injEq] at hstep
          obtain ⟨rfl, rfl⟩ := hstep
          obtain ⟨g1, g2, g3⟩ := gotoCopy_same hg
          obtain ⟨cs', e1, e2, e3⟩ := ih sb _ s1 cases h
          refine ⟨(cp, lab.index) :: cs', by simp [e1], by simp [e2], ?_⟩
          intro i hi hi'
          cases i with
          | zero => exact ⟨lab, s0, sb, rfl, hlab, hg, rfl⟩
          | succ i =>
            obtain ⟨lab', sa', sb', f1, f2, f3, f4⟩ := e3 i (by simpa using hi) (by simpa using hi')
            refine ⟨lab', sa', sb', f1.trans g1, ?_, f3, f4⟩
            rw [← label_eq_of_labels g2]; exact f2

set_option hygiene false in
/-- instructions outside the covered core: the source semantics is `stuck`, only the shape of the output matters -/
macro "stuck_case" : tactic => `(tactic| (
  rw [compileInstr] at hc
  try simp only [bind, Except.bind] at hc
  repeat' (split at hc)
  all_goals first
    | (cases hc; done)
    | (injection hc with hc; simp only [Prod.mk.injEq] at hc; obtain ⟨_, rfl, _⟩ := hc; exact ⟨by simp, trivial⟩)))

theorem instr_step (ns : NumSem) (hns : NumOK ns) (hmo : MemOK ns) (ctx : Ctx) (hco : CallOK ns ctx) (f : Nat) (hS : SeqStmt ns ctx f) (hI : InstrStmt ns ctx f) :
    InstrStmt ns ctx (f + 1) := by
  intro i st st' out dead stk loc σ hc hw hr hl hlt
  have hstat' := instr_static ctx i st st' out dead hc hw
  have hwf' := hstat'.wf
  cases i with
  | nop =>
    simp [compileInstr] at hc
    obtain ⟨rfl, rfl, rfl⟩ := hc
    refine ⟨by simp, ?_⟩
    rw [erunInstr]
    exact simres_normal_intro rfl hw rfl (Nat.le_refl _) hlt σ rfl hr hl (SlotsBelow.refl _ _) rfl
  | unreachable =>
    simp [compileInstr] at hc
    obtain ⟨rfl, rfl, rfl⟩ := hc
    refine ⟨by simp, ?_⟩
    rw [erunInstr]
    show execOut ns (f + 1) [MStmtC.unreachable] σ = .trap .unreachable
    simp [execOut, execStmt]
  | const t bits =>
    simp [compileInstr] at hc
    obtain ⟨rfl, rfl, rfl⟩ := hc
    refine ⟨by simp, ?_⟩
    rw [erunInstr]
    have hb := hw.base_le_height
    refine simres_normal_intro rfl hwf' rfl (Nat.le_refl _) hlt
      (σ.set ⟨t, st.stack.length⟩ (mkV t bits)) (by simp [execOut, execStmt]) ?_ (by simp [hl]) (SlotsBelow.set _ _ _ hb) ?_
    · simpa using hr.push t (mkV t bits) (vtOf_mkV t bits)
    · rw [List.take_append_of_le_length (by rw [hr.length]; exact hb)]
  | drop =>
    simp only [compileInstr] at hc
    split at hc
    · cases hc
    · rename_i hge
      injection hc with hc; simp only [Prod.mk.injEq] at hc
      obtain ⟨rfl, rfl, rfl⟩ := hc
      refine ⟨by simp, ?_⟩
      rw [erunInstr]
      have hlen := hr.length
      have hne : ¬ stk.length = 0 := by simp [St.height] at hge; omega
      simp only [hne, if_false]
      refine simres_normal_intro rfl hwf' rfl (Nat.le_refl _) hlt
        σ rfl ?_ hl (SlotsBelow.refl _ _) ?_
      · have := hr.take (st.stack.length - 1)
        simpa [List.dropLast_eq_take, hlen] using this
      · rw [List.dropLast_eq_take, List.take_take]
        congr 1
        simp [St.height] at hge; omega
  | localGet k =>
    simp only [compileInstr] at hc
    cases hk : ctx.localTypes[k]? with
    | none => simp [hk] at hc
    | some t =>
      simp only [hk] at hc
      injection hc with hc; simp only [Prod.mk.injEq] at hc
      obtain ⟨rfl, rfl, rfl⟩ := hc
      refine ⟨by simp, ?_⟩
      rw [erunInstr]
      have hkl : k < ctx.localTypes.length := (List.getElem?_eq_some_iff.mp hk).1
      have hkt : ctx.localTypes[k] = t := (List.getElem?_eq_some_iff.mp hk).2
      have hkl' : k < loc.locals.length := by rw [hlt.len]; exact hkl
      have hv : loc.locals[k]? = some loc.locals[k] := List.getElem?_eq_getElem hkl'
      have hty : vtOf loc.locals[k] = t := by rw [hlt.typed k hkl' hkl, hkt]
      simp only [hv]
      have hb := hw.base_le_height
      refine simres_normal_intro rfl hwf' rfl (Nat.le_refl _) hlt
        (σ.set ⟨t, st.stack.length⟩ loc.locals[k]) (by simp [execOut, execStmt, hl, hv]) ?_ (by simp [hl]) (SlotsBelow.set _ _ _ hb) ?_
      · simpa using hr.push t loc.locals[k] hty
      · rw [List.take_append_of_le_length (by rw [hr.length]; exact hb)]
  | localSet k =>
    simp only [compileInstr] at hc
    cases hk : ctx.localTypes[k]? with
    | none => simp [hk] at hc
    | some t =>
      cases ht : st.top 0 with
      | none => simp [hk, ht] at hc
      | some s0 =>
        simp only [hk, ht] at hc
        split at hc
        · cases hc
        · rename_i hcond
          injection hc with hc; simp only [Prod.mk.injEq] at hc
          obtain ⟨rfl, rfl, rfl⟩ := hc
          refine ⟨by simp, ?_⟩
          rw [erunInstr]
          obtain ⟨ht1, ht2, ht3⟩ := hr.top ht
          have hty : s0.ty = t := by simp at hcond; exact hcond.1
          have hge : st.base + 1 ≤ st.stack.length := by simp [St.height] at hcond; omega
          have hs0 : (⟨t, s0.idx⟩ : Slot) = s0 := by cases s0; simp_all
          have hlast : stk.getLast? = some (σ.get s0) := by rw [List.getLast?_eq_getElem?]; simpa using ht3
          have hkl : k < loc.locals.length := by rw [hlt.len]; exact (List.getElem?_eq_some_iff.mp hk).1
          simp only [hlast, hkl, if_true]
          have hlen := hr.length
          refine simres_normal_intro rfl hwf'
            rfl (Nat.le_refl _) (hlt.set k _ t hk (by rw [vtOf_get]; exact hty))
            { σ with store := { σ.store with locals := σ.store.locals.set k (σ.get s0) } } (by simp [execOut, execStmt, hl, hkl, hs0]) ?_ (by simp [hl]) (SlotsBelow.locals _ _) ?_
          · have := hr.take (st.stack.length - 1)
            simpa [List.dropLast_eq_take, hlen, Rel, MSt.get] using this
          · rw [List.dropLast_eq_take, List.take_take]
            congr 1; omega
  | localTee k =>
    simp only [compileInstr] at hc
    cases hk : ctx.localTypes[k]? with
    | none => simp [hk] at hc
    | some t =>
      cases ht : st.top 0 with
      | none => simp [hk, ht] at hc
      | some s0 =>
        simp only [hk, ht] at hc
        split at hc
        · cases hc
        · rename_i hcond
          injection hc with hc; simp only [Prod.mk.injEq] at hc
          obtain ⟨rfl, rfl, rfl⟩ := hc
          refine ⟨by simp, ?_⟩
          rw [erunInstr]
          obtain ⟨ht1, ht2, ht3⟩ := hr.top ht
          have hty : s0.ty = t := by simp at hcond; exact hcond.1
          have hs0 : (⟨t, s0.idx⟩ : Slot) = s0 := by cases s0; simp_all
          have hlast : stk.getLast? = some (σ.get s0) := by rw [List.getLast?_eq_getElem?]; simpa using ht3
          have hkl : k < loc.locals.length := by rw [hlt.len]; exact (List.getElem?_eq_some_iff.mp hk).1
          simp only [hlast, hkl, if_true]
          refine simres_normal_intro rfl hwf'
            rfl (Nat.le_refl _) (hlt.set k _ t hk (by rw [vtOf_get]; exact hty))
            { σ with store := { σ.store with locals := σ.store.locals.set k (σ.get s0) } } (by simp [execOut, execStmt, hl, hkl, hs0]) ?_ (by simp [hl]) (SlotsBelow.locals _ _) rfl
          · simpa [Rel, MSt.get] using hr
  | select =>
    rw [compileInstr] at hc
    cases h0 : st.top 0 with
    | none => simp [h0, bind, Except.bind] at hc
    | some s0 =>
    cases h1 : st.top 1 with
    | none => simp [h0, h1, bind, Except.bind] at hc
    | some s1 =>
    cases h2 : st.top 2 with
    | none => simp [h0, h1, h2, bind, Except.bind] at hc
    | some s2 =>
      simp only [h0, h1, h2, bind, Except.bind] at hc
      split at hc
      · cases hc
      · rename_i hty
        split at hc
        · cases hc
        · rename_i hge
          injection hc with hc; simp only [Prod.mk.injEq] at hc
          obtain ⟨rfl, rfl, rfl⟩ := hc
          refine ⟨by simp, ?_⟩
          rw [erunInstr]
          obtain ⟨a1, a2, a3⟩ := hr.top h0
          obtain ⟨b1, b2, b3⟩ := hr.top h1
          obtain ⟨c1, c2, c3⟩ := hr.top h2
          have hlen := hr.length
          have hnlt : ¬ stk.length < 3 := by omega
          simp only [hnlt, if_false]
          have e2 : stk.length - 1 - 1 = stk.length - 2 := by omega
          have e3 : stk.length - 1 - 2 = stk.length - 3 := by omega
          simp only [Nat.sub_zero] at a3 a2
          rw [e2] at b3 b2
          rw [e3] at c3 c2
          simp only [List.getD_eq_getElem?_getD, a3, b3, c3, Option.getD_some]
          simp only [not_or, Decidable.not_not, ne_eq] at hty
          have hbase : st.base ≤ st.stack.length - 3 := by simp [St.height] at hge; omega
          have hv : vtOf (if isTrue (σ.get s0) then σ.get s2 else σ.get s1) = s1.ty := by
            split
            · rw [vtOf_get]; exact hty.2
            · rw [vtOf_get]
          have hpush := (hr.take (st.stack.length - 3)).push s1.ty _ hv
          have hl3 : (List.take (st.stack.length - 3) st.stack).length = s2.idx := by simp; omega
          rw [hl3] at hpush
          refine simres_normal_intro rfl hwf' rfl (Nat.le_refl _) hlt
            (σ.set ⟨s1.ty, s2.idx⟩ (if isTrue (σ.get s0) then σ.get s2 else σ.get s1)) (by simp [execOut, execStmt]) ?_ (by simp [hl])
            (SlotsBelow.set _ _ _ (by simp; omega)) ?_
          · simpa [hlen] using hpush
          · rw [List.take_append_of_le_length (by simp; omega), List.take_take]
            congr 1; omega
  | numeric opcode =>
    rw [compileInstr] at hc
    cases hk : lookupAssoc Gen.emitTable opcode with
    | none => simp [hk, bind, Except.bind] at hc
    | some k =>
    cases h0 : st.top 0 with
    | none => simp [hk, h0, bind, Except.bind] at hc
    | some s0 =>
      simp only [hk, h0, bind, Except.bind] at hc
      obtain ⟨a1, a2, a3⟩ := hr.top h0
      simp only [Nat.sub_zero] at a3 a2
      have hlen := hr.length
      have harity := hns.arity opcode k hk
      rw [erunInstr]
      cases k with
      | unary rt op shape =>
        simp only [] at hc
        split at hc
        · cases hc
        · rename_i hge
          injection hc with hc; simp only [Prod.mk.injEq] at hc
          obtain ⟨rfl, rfl, rfl⟩ := hc
          refine ⟨by simp, ?_⟩
          simp only [numSlots, List.length_cons, List.length_nil] at harity
          have hge' : st.base + 1 ≤ st.stack.length := by simp [St.height] at hge; omega
          have hnlt : ¬ stk.length < 1 := by omega
          simp only [harity, hnlt, if_false, topN_one a3 (by omega)]
          have hex : execOut ns (f + 1) [MStmtC.num opcode (.unary rt op shape) s0.ty s0.idx s0.ty s0.idx] σ =
              (match ns.sem opcode [σ.get s0] with | .val v => MRes.normal (σ.set ⟨rt, s0.idx⟩ v) | .trap t => .trap t | _ => .stuck) := by
            rfl
          rw [hex]
          cases hsem : ns.sem opcode [σ.get s0] with
          | val v =>
            have hv := hns.typed opcode _ _ v hk hsem (σ.get s0) rfl
            simp only [numResTy, numSlots] at hv
            refine simres_pop_push hw hr hl hlt 1 hge' rt v hv hwf' ?_ ?_ ?_ ?_
            · rfl
            · rfl
            · rfl
            · show MRes.normal _ = _
              rw [a2, hlen]
          | trap t => rfl
          | ub => trivial
          | oof => trivial
      | «infix» rt op assign =>
        simp only [] at hc
        cases h1 : st.top 1 with
        | none => simp [h1] at hc
        | some s1 =>
          simp only [h1] at hc
          split at hc
          · cases hc
          · rename_i hge
            injection hc with hc; simp only [Prod.mk.injEq] at hc
            obtain ⟨rfl, rfl, rfl⟩ := hc
            refine ⟨by simp, ?_⟩
            rw [← erunInstr]
            exact num_binary_case hns hk hw hr hl hlt h0 h1 (by simp [St.height] at hge; omega) rt (by simpa [numSlots] using harity)
              rfl rfl hwf' rfl rfl rfl
      | prefixBinary rt name =>
        simp only [] at hc
        cases h1 : st.top 1 with
        | none => simp [h1] at hc
        | some s1 =>
          simp only [h1] at hc
          split at hc
          · cases hc
          · rename_i hge
            injection hc with hc; simp only [Prod.mk.injEq] at hc
            obtain ⟨rfl, rfl, rfl⟩ := hc
            refine ⟨by simp, ?_⟩
            rw [← erunInstr]
            exact num_binary_case hns hk hw hr hl hlt h0 h1 (by simp [St.height] at hge; omega) rt (by simpa [numSlots] using harity)
              rfl rfl hwf' rfl rfl rfl
      | signedInfix op =>
        simp only [] at hc
        cases h1 : st.top 1 with
        | none => simp [h1] at hc
        | some s1 =>
          cases hrt : lookupVT Gen.opcodeResultType opcode with
          | none => simp [h1, hrt] at hc
          | some rt =>
            simp only [h1, hrt] at hc
            split at hc
            · cases hc
            · rename_i hge
              injection hc with hc; simp only [Prod.mk.injEq] at hc
              obtain ⟨rfl, rfl, rfl⟩ := hc
              refine ⟨by simp, ?_⟩
              rw [← erunInstr]
              exact num_binary_case hns hk hw hr hl hlt h0 h1 (by simp [St.height] at hge; omega) rt (by simpa [numSlots] using harity)
                (by simp [numSlots, hrt]) (by simp [numResTy, numSlots, hrt]) hwf' rfl rfl rfl
      | shl | shrS | shrU =>
        simp only [] at hc
        cases h1 : st.top 1 with
        | none => simp [h1] at hc
        | some s1 =>
          simp only [h1] at hc
          split at hc
          · cases hc
          · rename_i hge
            injection hc with hc; simp only [Prod.mk.injEq] at hc
            obtain ⟨rfl, rfl, rfl⟩ := hc
            refine ⟨by simp, ?_⟩
            rw [← erunInstr]
            have hge' : st.base + 2 ≤ st.stack.length := by simp [St.height] at hge; omega
            obtain ⟨t1, t2, t3⟩ := St.top_spec h1
            refine num_binary_case hns hk hw hr hl hlt h0 h1 hge' s1.ty (by simpa [numSlots] using harity)
              rfl rfl hwf' rfl rfl ?_
            have e : st.stack.length - 1 = (st.stack.length - 2) + 1 := by omega
            have e2 : st.stack.length - 1 - 1 = st.stack.length - 2 := by omega
            rw [e2] at t3
            simp only [St.drop_stack, St.declare_stack]
            rw [e, List.take_add_one, t3]
            rfl
  | br l =>
    rw [compileInstr] at hc
    cases hlab : st.label l with
    | none => simp [hlab, bind, Except.bind] at hc
    | some lab =>
    cases hg : gotoCopy st lab with
    | none => simp [hlab, hg, bind, Except.bind] at hc
    | some r =>
      obtain ⟨s', cp⟩ := r
      simp only [hlab, hg, bind, Except.bind] at hc
      injection hc with hc; simp only [Prod.mk.injEq] at hc
      obtain ⟨rfl, rfl, rfl⟩ := hc
      refine ⟨by simp, ?_⟩
      rw [erunInstr]
      obtain ⟨g1, g2, g3⟩ := gotoCopy_sem hg hr
      have hmem := St.label_mem hlab
      refine ⟨hlt, lab, doCopy σ cp, hlab, rfl, ⟨by rw [g1, hl], g2, rfl, ?_, g3⟩,
        fun ht => Nat.le_trans ((gotoCopy_declLen hg).2 ht) hwf'.decl⟩
      rw [hr.length]; exact hw.below lab hmem
  | ret =>
    rw [compileInstr] at hc
    cases hlab : st.labels[0]? with
    | none => simp [hlab, bind, Except.bind] at hc
    | some lab =>
    cases hg : gotoCopy st lab with
    | none => simp [hlab, hg, bind, Except.bind] at hc
    | some r =>
      obtain ⟨s', cp⟩ := r
      simp only [hlab, hg, bind, Except.bind] at hc
      injection hc with hc; simp only [Prod.mk.injEq] at hc
      obtain ⟨rfl, rfl, rfl⟩ := hc
      refine ⟨by simp, ?_⟩
      rw [erunInstr]
      obtain ⟨g1, g2, g3⟩ := gotoCopy_sem hg hr
      have hmem := List.mem_of_getElem? hlab
      refine ⟨hlt, lab, doCopy σ cp, hlab, rfl, ⟨by rw [g1, hl], g2, rfl, ?_, g3⟩,
        fun ht => Nat.le_trans ((gotoCopy_declLen hg).2 ht) hwf'.decl⟩
      rw [hr.length]; exact hw.below lab hmem
  | brIf l =>
    rw [compileInstr] at hc
    cases h0 : st.top 0 with
    | none => simp [h0, bind, Except.bind] at hc
    | some c =>
      simp only [h0, bind, Except.bind] at hc
      split at hc
      · cases hc
      · rename_i hcond
        simp only [not_or, Decidable.not_not, ne_eq, Nat.not_lt] at hcond
        cases hlab : (st.drop 1).label l with
        | none => simp [hlab] at hc
        | some lab =>
        cases hg : gotoCopy (st.drop 1) lab with
        | none => simp [hlab, hg] at hc
        | some r =>
          obtain ⟨s', cp⟩ := r
          simp only [hlab, hg] at hc
          injection hc with hc; simp only [Prod.mk.injEq] at hc
          obtain ⟨rfl, rfl, rfl⟩ := hc
          refine ⟨by simp, ?_⟩
          rw [erunInstr]
          obtain ⟨a1, a2, a3⟩ := hr.top h0
          simp only [Nat.sub_zero] at a2 a3
          have hlast : stk.getLast? = some (σ.get c) := by rw [List.getLast?_eq_getElem?]; exact a3
          have hlen := hr.length
          have hge : st.base + 1 ≤ st.stack.length := by simp [St.height] at hcond; omega
          have hr0 : Rel (st.drop 1).stack stk.dropLast σ := by
            have := hr.take (st.stack.length - 1)
            simpa [List.dropLast_eq_take, hlen] using this
          obtain ⟨g1, g2, g3⟩ := gotoCopy_sem hg hr0
          obtain ⟨q1, q2, q3⟩ := gotoCopy_same hg
          have hlab' : st.label l = some lab := hlab
          have hmem := St.label_mem hlab'
          have htake : stk.dropLast.take st.base = stk.take st.base := by
            rw [List.dropLast_eq_take, List.take_take]; congr 1; omega
          simp only [hlast]
          have hex : execOut ns (f + 1) [MStmtC.ifGoto c cp lab.index] σ =
              if isTrue (σ.get c) then .jump lab.index (doCopy σ cp) else .normal σ := rfl
          rw [hex]
          split
          · refine ⟨hlt, lab, doCopy σ cp, hlab', rfl, ⟨by rw [g1, hl], g2, htake, ?_, g3⟩,
              fun ht => Nat.le_trans ((gotoCopy_declLen hg).2 ht) hwf'.decl⟩
            have := hw.height_le_base hmem
            simp [List.length_dropLast]; omega
          · refine simres_normal_intro rfl hwf' q2 (Nat.le_of_eq q3.symm) hlt
              σ rfl (by rw [q1]; exact hr0) hl (SlotsBelow.refl _ _) htake
  | block bt body =>
    rw [compileInstr] at hc
    simp only [bind, Except.bind] at hc
    split at hc
    · cases hc
    · rename_i res hcb
      obtain ⟨sB, outB, deadB⟩ := res
      simp only [] at hc
      split at hc
      · cases hc
      · rename_i hchk
        injection hc with hc; simp only [Prod.mk.injEq] at hc
        obtain ⟨rfl, rfl, rfl⟩ := hc
        refine ⟨by simp, ?_⟩
        rw [erun_block, exec_block]
        have hsim := hS body _ sB outB deadB stk loc σ hcb (hw.enter bt) hr hl hlt
        have hstat := seq_static ctx body _ sB outB deadB hcb (hw.enter bt)
        exact block_finish (sIn := { st with labels := st.labels ++ [⟨st.next, st.height, bt⟩], next := st.next + 1 }) hw hr rfl (Nat.le_refl _) rfl hstat (check_of_not hchk) hsim
  | ite bt thn els =>
    rw [compileInstr] at hc
    cases h0 : st.top 0 with
    | none => simp [h0, bind, Except.bind] at hc
    | some c =>
      simp only [h0, bind, Except.bind] at hc
      split at hc
      · cases hc
      · rename_i hcond
        simp only [not_or, Decidable.not_not, ne_eq, Nat.not_lt] at hcond
        have hge : st.base + 1 ≤ st.stack.length := by simp [St.height] at hcond; omega
        have hw0 : WF (st.drop 1) := hw.of_same rfl (Nat.le_refl _) (by simp; omega) (by have := hw.decl; simp; omega)
        obtain ⟨a1, a2, a3⟩ := hr.top h0
        simp only [Nat.sub_zero] at a2 a3
        have hlast : stk.getLast? = some (σ.get c) := by rw [List.getLast?_eq_getElem?]; exact a3
        have hlen := hr.length
        have hr0 : Rel (st.drop 1).stack stk.dropLast σ := by
          have := hr.take (st.stack.length - 1)
          simpa [List.dropLast_eq_take, hlen] using this
        have htake : stk.dropLast.take st.base = stk.take st.base := by
          rw [List.dropLast_eq_take, List.take_take]; congr 1; omega
        split at hc
        · cases hc
        · rename_i res hcT
          obtain ⟨sT, outT, deadT⟩ := res
          simp only [] at hc
          split at hc
          · cases hc
          · rename_i hchkT
            have hstatT := seq_static ctx thn _ sT outT deadT hcT (hw0.enter bt)
            have hsimT := hS thn _ sT outT deadT stk.dropLast loc σ hcT (hw0.enter bt) hr0 hl hlt
            have hfinT := block_finish (sIn := { (st.drop 1) with labels := (st.drop 1).labels ++ [⟨(st.drop 1).next, (st.drop 1).height, bt⟩], next := (st.drop 1).next + 1 })
              hw0 hr0 rfl (Nat.le_refl _) rfl hstatT (check_of_not hchkT) hsimT
            -- the state from which an else branch (or the empty one) is translated
            have hbaseIn : ({ (st.drop 1) with labels := (st.drop 1).labels ++ [⟨(st.drop 1).next, (st.drop 1).height, bt⟩], next := (st.drop 1).next + 1 } : St).base = (st.drop 1).stack.length := by
              simp [St.base, St.height]
            have hTtake : sT.stack.take (st.drop 1).stack.length = (st.drop 1).stack := by
              have := hstatT.take; rw [hbaseIn] at this; exact this.trans List.take_length
            have hTlen : (st.drop 1).stack.length ≤ sT.stack.length := by
              have := hstatT.len; rw [hbaseIn] at this; exact this
            have hbT : sT.base = (st.drop 1).stack.length := by rw [hstatT.base, hbaseIn]
            have hwE0 : WF { sT with stack := sT.stack.take (st.drop 1).height } :=
              hstatT.wf.of_same rfl (Nat.le_refl _) (by simp only [St.height, List.length_take]; rw [hbT]; omega)
                (by have := hstatT.wf.decl; simp only [List.length_take]; omega)
            have hrE0 : Rel ({ sT with stack := sT.stack.take (st.drop 1).height } : St).stack stk.dropLast σ := by
              show Rel (sT.stack.take (st.drop 1).stack.length) _ _
              rw [hTtake]; exact hr0
            have hTnext := hstatT.next
            simp only [] at hTnext
            refine ⟨by cases els <;> (simp only [] at hc; repeat' (split at hc)) <;> first | (cases hc; done) | (injection hc with hc; simp only [Prod.mk.injEq] at hc; obtain ⟨_, rfl, _⟩ := hc; simp), ?_⟩
            rw [erun_ite, hlast]
            simp only []
            cases els with
            | none =>
              simp only [] at hc
              split at hc
              · cases hc
              · rename_i hbt
                injection hc with hc; simp only [Prod.mk.injEq] at hc
                obtain ⟨rfl, rfl, rfl⟩ := hc
                rw [exec_ite]
                refine simres_rebase hw rfl (Nat.le_refl _) (SlotsBelow.refl _ _) htake ?_
                split
                · exact hfinT
                · have hcE : compileSeq ctx { sT with stack := sT.stack.take (st.drop 1).height } [] = .ok ({ sT with stack := sT.stack.take (st.drop 1).height }, [], false) := by
                    simp [compileSeq]
                  have hsimE := hS [] _ _ [] false stk.dropLast loc σ hcE hwE0 hrE0 hl hlt
                  have hbtn : bt = none := by cases bt <;> simp_all
                  subst hbtn
                  have hfinE := block_finish (bt := none) (sIn := { sT with stack := sT.stack.take (st.drop 1).height }) hw0 hr0 hstatT.labels hTnext
                    (by show sT.stack.take (st.drop 1).stack.length = _; exact hTtake) (Static.refl hwE0)
                    (by intro _; show sT.stack.take (st.drop 1).stack.length = (st.drop 1).stack ++ []; rw [hTtake, List.append_nil]) hsimE
                  refine simres_out_congr hfinE ?_ rfl (Nat.le_refl _) (Nat.le_refl _)
                  show List.take (st.drop 1).stack.length sT.stack ++ [] = List.take (st.drop 1).stack.length (List.take (st.drop 1).stack.length sT.stack) ++ []
                  rw [List.take_take, Nat.min_self]
            | some els =>
              simp only [] at hc
              split at hc
              · cases hc
              · rename_i res2 hcE
                obtain ⟨sE, outE, deadE⟩ := res2
                simp only [] at hc
                split at hc
                · cases hc
                · rename_i hchkE
                  injection hc with hc; simp only [Prod.mk.injEq] at hc
                  obtain ⟨rfl, rfl, rfl⟩ := hc
                  rw [exec_ite]
                  refine simres_rebase hw rfl (Nat.le_refl _) (SlotsBelow.refl _ _) htake ?_
                  have hstatE := seq_static ctx els _ sE outE deadE hcE hwE0
                  have hbE0 : ({ sT with stack := sT.stack.take (st.drop 1).height } : St).base = (st.drop 1).stack.length := by
                    rw [← hbT]; rfl
                  have hEtake : sE.stack.take (st.drop 1).stack.length = (st.drop 1).stack := by
                    have := hstatE.take; rw [hbE0] at this
                    refine this.trans ?_
                    show List.take (st.drop 1).stack.length (List.take (st.drop 1).stack.length sT.stack) = _
                    rw [List.take_take, Nat.min_self, hTtake]
                  split
                  · refine simres_out_congr hfinT ?_ (by simp) ?_ (endBlock_declLen_mono _ _ _ _ _ _ _ hstatE.declMono)
                    · simp only [St.endBlock_stack, St.height]; rw [hEtake, hTtake]
                    · simp only [St.endBlock_next]; exact hstatE.next
                  · have hsimE := hS els _ sE outE deadE stk.dropLast loc σ hcE hwE0 hrE0 hl hlt
                    exact block_finish (sIn := { sT with stack := sT.stack.take (st.drop 1).height }) hw0 hr0 hstatT.labels hTnext
                      (by show sT.stack.take (st.drop 1).stack.length = _; exact hTtake) hstatE (check_of_not hchkE) hsimE
  | loop bt body =>
    have hc' := hc
    rw [compileInstr] at hc
    simp only [bind, Except.bind] at hc
    split at hc
    · cases hc
    · rename_i res hcb
      obtain ⟨sB, outB, deadB⟩ := res
      simp only [] at hc
      split at hc
      · cases hc
      · rename_i hchk
        injection hc with hc; simp only [Prod.mk.injEq] at hc
        obtain ⟨rfl, rfl, rfl⟩ := hc
        refine ⟨by simp, ?_⟩
        rw [erun_loop, exec_loop]
        have hsim := hS body _ sB outB deadB stk loc σ hcb (hw.enter none) hr hl hlt
        have hstat := seq_static ctx body _ sB outB deadB hcb (hw.enter none)
        have hlabs0 : ({ st with labels := st.labels ++ [⟨st.next, st.height, none⟩], next := st.next + 1 } : St).label 0 = some ⟨st.next, st.height, none⟩ :=
          label_snoc_zero rfl
        have hbase : ({ st with labels := st.labels ++ [⟨st.next, st.height, none⟩], next := st.next + 1 } : St).base = st.stack.length := by
          simp [St.base, St.height]
        have hlen := hr.length
        cases hres : erunSeq ns f body stk loc with
        | branch l stkB locB =>
          cases l with
          | zero =>
            rw [hres] at hsim
            obtain ⟨h0, lab, σ', h1, h2, h3, h4⟩ := hsim
            rw [hlabs0] at h1
            injection h1 with h1; subst h1
            rw [hbase] at h3
            obtain ⟨j1, j2, j3, j4, j5⟩ := h3
            simp only [St.height] at j2
            rw [h2]
            simp only [loopExec, if_true]
            have hstk : stkB.take stk.length = stk := by rw [hlen, j3, ← hlen]; simp
            rw [hstk]
            have hrel : Rel st.stack stk σ' := hr.of_slotsBelow j2
            have hrec := (hI (.loop bt body) st _ _ _ stk locB σ' hc' hw hrel j1 h0).2
            exact simres_rebase hw rfl (Nat.le_refl _) (j2.mono hw.base_le_height) rfl hrec
          | succ l =>
            rw [hres] at hsim
            have hne : ∀ σ', execSeq ns f outB σ ≠ .jump st.next σ' := by
              intro σ' he
              obtain ⟨h0, lab, σ'', h1, h2, h3⟩ := hsim
              rw [he] at h2
              injection h2 with h2 _
              have h1' : st.label l = some lab := by
                rw [← label_snoc_succ (s := { st with labels := st.labels ++ [⟨st.next, st.height, none⟩], next := st.next + 1 }) (s0 := st) (lab := ⟨st.next, st.height, none⟩) rfl l]; exact h1
              have := hw.fresh lab (St.label_mem h1')
              omega
            rw [loopExec_of_ne ns f st.next outB _ hne]
            exact block_finish_gen (sIn := { st with labels := st.labels ++ [⟨st.next, st.height, none⟩], next := st.next + 1 })
              hw hr rfl (Nat.le_refl _) (by intro a b h; cases h) rfl hstat (check_of_not hchk) hsim
        | oof => trivial
        | stuck => trivial
        | normal a b =>
            rw [hres] at hsim
            have hne : ∀ σ', execSeq ns f outB σ ≠ .jump st.next σ' := by
              intro σ' he
              obtain ⟨_, _, _, _, _, σ'', h6, _⟩ := hsim
              rw [he] at h6; cases h6
            rw [loopExec_of_ne ns f st.next outB _ hne]
            exact block_finish_gen (sIn := { st with labels := st.labels ++ [⟨st.next, st.height, none⟩], next := st.next + 1 })
              hw hr rfl (Nat.le_refl _) (by intro a b h; cases h) rfl hstat (check_of_not hchk) hsim
        | trap t =>
            rw [hres] at hsim
            have hne : ∀ σ', execSeq ns f outB σ ≠ .jump st.next σ' := by
              intro σ' he
              simp only [SimRes] at hsim
              rw [he] at hsim; cases hsim
            rw [loopExec_of_ne ns f st.next outB _ hne]
            exact block_finish_gen (sIn := { st with labels := st.labels ++ [⟨st.next, st.height, none⟩], next := st.next + 1 })
              hw hr rfl (Nat.le_refl _) (by intro a b h; cases h) rfl hstat (check_of_not hchk) hsim
        | ret a b =>
            rw [hres] at hsim
            have hne : ∀ σ', execSeq ns f outB σ ≠ .jump st.next σ' := by
              intro σ' he
              obtain ⟨h0, lab, σ'', h1, h2, h3⟩ := hsim
              rw [he] at h2
              injection h2 with h2 _
              have h1' : st.labels[0]? = some lab := by
                have hne := hw.nonempty
                simp only [List.getElem?_append_left (List.length_pos_iff.mpr hne)] at h1; exact h1
              have := hw.fresh lab (List.mem_of_getElem? h1')
              omega
            rw [loopExec_of_ne ns f st.next outB _ hne]
            exact block_finish_gen (sIn := { st with labels := st.labels ++ [⟨st.next, st.height, none⟩], next := st.next + 1 })
              hw hr rfl (Nat.le_refl _) (by intro a b h; cases h) rfl hstat (check_of_not hchk) hsim
  | globalGet k =>
    simp only [compileInstr] at hc
    cases hk : ctx.globalTypes[k]? with
    | none => simp [hk] at hc
    | some t =>
      simp only [hk] at hc
      injection hc with hc; simp only [Prod.mk.injEq] at hc
      obtain ⟨rfl, rfl, rfl⟩ := hc
      refine ⟨by simp, ?_⟩
      rw [erunInstr]
      have hkl : k < ctx.globalTypes.length := (List.getElem?_eq_some_iff.mp hk).1
      have hkt : ctx.globalTypes[k] = t := (List.getElem?_eq_some_iff.mp hk).2
      have hkl' : k < loc.g.globals.length := by rw [hlt.glob.1]; exact hkl
      have hv : loc.g.globals[k]? = some loc.g.globals[k] := List.getElem?_eq_getElem hkl'
      have hty : vtOf loc.g.globals[k] = t := by rw [hlt.glob.2 k hkl' hkl, hkt]
      simp only [hv]
      have hb := hw.base_le_height
      refine simres_normal_intro rfl hwf' rfl (Nat.le_refl _) hlt
        (σ.set ⟨t, st.stack.length⟩ loc.g.globals[k]) (by simp [execOut, execStmt, hl, hv]) ?_ (by simp [hl]) (SlotsBelow.set _ _ _ hb) ?_
      · simpa using hr.push t loc.g.globals[k] hty
      · rw [List.take_append_of_le_length (by rw [hr.length]; exact hb)]
  | globalSet k =>
    simp only [compileInstr] at hc
    cases hk : ctx.globalTypes[k]? with
    | none => simp [hk] at hc
    | some t =>
      cases ht : st.top 0 with
      | none => simp [hk, ht] at hc
      | some s0 =>
        simp only [hk, ht] at hc
        split at hc
        · cases hc
        · rename_i hcond
          injection hc with hc; simp only [Prod.mk.injEq] at hc
          obtain ⟨rfl, rfl, rfl⟩ := hc
          refine ⟨by simp, ?_⟩
          rw [erunInstr]
          obtain ⟨ht1, ht2, ht3⟩ := hr.top ht
          have hty : s0.ty = t := by simp at hcond; exact hcond.1
          have hge : st.base + 1 ≤ st.stack.length := by simp [St.height] at hcond; omega
          have hs0 : (⟨t, s0.idx⟩ : Slot) = s0 := by cases s0; simp_all
          have hlast : stk.getLast? = some (σ.get s0) := by rw [List.getLast?_eq_getElem?]; simpa using ht3
          have hkl : k < loc.g.globals.length := by rw [hlt.glob.1]; exact (List.getElem?_eq_some_iff.mp hk).1
          simp only [hlast, hkl, if_true]
          rw [List.dropLast_eq_take]
          subst hl
          refine simres_pop_st hw hr 1 hge { σ.store with g := { σ.store.g with globals := σ.store.g.globals.set k (σ.get s0) } }
            ⟨hlt.len, hlt.typed, hlt.glob.set k _ t hk (by rw [vtOf_get]; exact hty)⟩ hwf' rfl rfl rfl ?_
          simp [execOut, execStmt, hkl, hs0]
  | load o off =>
    rw [compileInstr] at hc
    cases hld : lookupAssoc Gen.loadTable o with
    | none => simp [hld, bind, Except.bind] at hc
    | some r =>
      obtain ⟨fn, rt⟩ := r
      cases ht : st.top 0 with
      | none => simp [hld, ht, bind, Except.bind] at hc
      | some s0 =>
        simp only [hld, ht, bind, Except.bind] at hc
        split at hc
        · cases hc
        · rename_i hcond
          injection hc with hc; simp only [Prod.mk.injEq] at hc
          obtain ⟨rfl, rfl, rfl⟩ := hc
          refine ⟨by simp, ?_⟩
          rw [erunInstr]
          obtain ⟨ht1, ht2, ht3⟩ := hr.top ht
          simp only [Nat.sub_zero] at ht2 ht3
          have hge : st.base + 1 ≤ st.stack.length := by simp [St.height] at hcond; omega
          have hlast : stk.getLast? = some (σ.get s0) := by rw [List.getLast?_eq_getElem?]; exact ht3
          have hlen := hr.length
          simp only [hlast]
          have hex : execOut ns (f + 1) [MStmtC.load ⟨rt, s0.idx⟩ fn s0 off] σ =
              (match ns.loadT fn σ.store.g.mem ((σ.get s0).bits + off) with
               | .val v => MRes.normal (σ.set ⟨rt, s0.idx⟩ v) | .trap t => .trap t | .oof => .oof | _ => .stuck) := rfl
          rw [hex, hl]
          cases hls : ns.loadS o loc.g.mem ((σ.get s0).bits + off) with
          | val v =>
            obtain ⟨h1, h2⟩ := hmo.loadRef o fn rt _ _ v hld hls
            rw [h1, List.dropLast_eq_take]
            refine simres_pop_push hw hr hl hlt 1 hge rt v h2 hwf' rfl rfl rfl ?_
            show MRes.normal _ = _
            rw [ht2, hlen]
          | trap t => rw [hmo.loadTrap o fn rt _ _ t hld hls]; rfl
          | ub => trivial
          | oof => trivial
  | store o off =>
    rw [compileInstr] at hc
    cases hst : lookupAssoc Gen.storeTable o with
    | none => simp [hst, bind, Except.bind] at hc
    | some fn =>
      cases h0 : st.top 0 with
      | none => simp [hst, h0, bind, Except.bind] at hc
      | some s0 =>
      cases h1 : st.top 1 with
      | none => simp [hst, h0, h1, bind, Except.bind] at hc
      | some s1 =>
        simp only [hst, h0, h1, bind, Except.bind] at hc
        split at hc
        · cases hc
        · rename_i hcond
          injection hc with hc; simp only [Prod.mk.injEq] at hc
          obtain ⟨rfl, rfl, rfl⟩ := hc
          refine ⟨by simp, ?_⟩
          rw [erunInstr]
          obtain ⟨a1, a2, a3⟩ := hr.top h0
          obtain ⟨b1, b2, b3⟩ := hr.top h1
          simp only [Nat.sub_zero] at a2 a3
          have e2 : stk.length - 1 - 1 = stk.length - 2 := by omega
          rw [e2] at b2 b3
          have hge : st.base + 2 ≤ st.stack.length := by simp [St.height] at hcond; omega
          have hlen := hr.length
          have hnlt : ¬ stk.length < 2 := by omega
          simp only [hnlt, if_false, List.getD_eq_getElem?_getD, a3, b3, Option.getD_some]
          have hex : execOut ns (f + 1) [MStmtC.store fn s1 off s0] σ =
              (match ns.storeT fn σ.store.g.mem ((σ.get s1).bits + off) (σ.get s0) with
               | .val m' => MRes.normal { σ with store := { σ.store with g := { σ.store.g with mem := m' } } }
               | .trap t => .trap t | .oof => .oof | _ => .stuck) := rfl
          rw [hex, hl]
          cases hss : ns.storeS o loc.g.mem ((σ.get s1).bits + off) (σ.get s0) with
          | val m' =>
            rw [hmo.storeRef o fn _ _ _ m' hst hss]
            subst hl
            exact simres_pop_st hw hr 2 hge { σ.store with g := { σ.store.g with mem := m' } } ⟨hlt.len, hlt.typed, hlt.glob⟩ hwf' rfl rfl rfl rfl
          | trap t => rw [hmo.storeTrap o fn _ _ _ t hst hss]; rfl
          | ub => trivial
          | oof => trivial
  | memorySize =>
    simp [compileInstr] at hc
    obtain ⟨rfl, rfl, rfl⟩ := hc
    refine ⟨by simp, ?_⟩
    rw [erunInstr]
    have hb := hw.base_le_height
    refine simres_normal_intro rfl hwf' rfl (Nat.le_refl _) hlt
      (σ.set ⟨.i32, st.stack.length⟩ (.i32 (BitVec.ofNat 32 (loc.g.mem.size / wasmPage)))) (by simp [execOut, execStmt, hl]) ?_ (by simp [hl]) (SlotsBelow.set _ _ _ hb) ?_
    · simpa using hr.push .i32 _ rfl
    · rw [List.take_append_of_le_length (by rw [hr.length]; exact hb)]
  | memoryGrow =>
    rw [compileInstr] at hc
    cases ht : st.top 0 with
    | none => simp [ht, bind, Except.bind] at hc
    | some s0 =>
      simp only [ht, bind, Except.bind] at hc
      split at hc
      · cases hc
      · rename_i hcond
        injection hc with hc; simp only [Prod.mk.injEq] at hc
        obtain ⟨rfl, rfl, rfl⟩ := hc
        refine ⟨by simp, ?_⟩
        rw [erunInstr]
        obtain ⟨ht1, ht2, ht3⟩ := hr.top ht
        obtain ⟨u1, u2, u3⟩ := St.top_spec ht
        simp only [Nat.sub_zero] at ht2 ht3 u2 u3
        have hty : s0.ty = .i32 := by simp at hcond; exact hcond.1
        have hge : st.base + 1 ≤ st.stack.length := by simp [St.height] at hcond; omega
        have hlast : stk.getLast? = some (σ.get s0) := by rw [List.getLast?_eq_getElem?]; exact ht3
        have hlen := hr.length
        simp only [hlast]
        rw [List.dropLast_eq_take]
        have hstack : st.stack = st.stack.take (st.stack.length - 1) ++ [.i32] := by
          have hi : st.stack.length - 1 < st.stack.length := by omega
          have := List.take_append_getElem hi
          rw [List.getElem?_eq_getElem hi] at u3
          injection u3 with u3
          rw [u3, hty] at this
          have e : st.stack.length - 1 + 1 = st.stack.length := by omega
          rw [e, List.take_length] at this
          exact this.symm
        subst hl
        refine simres_pop_push_st hw hr 1 hge .i32 _ (hmo.growTyped _ _)
          { σ.store with g := { σ.store.g with mem := (ns.grow σ.store.g.mem (σ.get s0).bits).1 } } ⟨hlt.len, hlt.typed, hlt.glob⟩ hwf' rfl rfl hstack ?_
        show execStmt ns (f + 1) (MStmtC.memGrow ⟨.i32, s0.idx⟩ s0) σ = _
        simp only [execStmt]
        rw [u2]
  | memoryCopy =>
    rw [compileInstr] at hc
    cases h0 : st.top 0 with
    | none => simp [h0, bind, Except.bind] at hc
    | some s0 =>
    cases h1 : st.top 1 with
    | none => simp [h0, h1, bind, Except.bind] at hc
    | some s1 =>
    cases h2 : st.top 2 with
    | none => simp [h0, h1, h2, bind, Except.bind] at hc
    | some s2 =>
      simp only [h0, h1, h2, bind, Except.bind] at hc
      split at hc
      · cases hc
      · rename_i hcond
        injection hc with hc; simp only [Prod.mk.injEq] at hc
        obtain ⟨rfl, rfl, rfl⟩ := hc
        refine ⟨by simp, ?_⟩
        rw [erunInstr, erunBulk]
        obtain ⟨a1, a2, a3⟩ := hr.top h0
        obtain ⟨b1, b2, b3⟩ := hr.top h1
        obtain ⟨c1, c2, c3⟩ := hr.top h2
        simp only [Nat.sub_zero] at a2 a3
        have e2 : stk.length - 1 - 1 = stk.length - 2 := by omega
        have e3 : stk.length - 1 - 2 = stk.length - 3 := by omega
        rw [e2] at b2 b3
        rw [e3] at c2 c3
        have hge : st.base + 3 ≤ st.stack.length := by simp [St.height] at hcond; omega
        have hlen := hr.length
        have hnlt : ¬ stk.length < 3 := by omega
        simp only [hnlt, if_false, List.getD_eq_getElem?_getD, a3, b3, c3, Option.getD_some]
        have hex : execOut ns (f + 1) [MStmtC.memCopy s2 s1 s0] σ =
            (match ns.bulkT .copy σ.store.g.mem (σ.get s2).bits (σ.get s1).bits (σ.get s0).bits with
             | .val m' => MRes.normal { σ with store := { σ.store with g := { σ.store.g with mem := m' } } }
             | .trap t => .trap t | .oof => .oof | _ => .stuck) := rfl
        rw [hex, hl]
        cases hss : ns.bulkS .copy loc.g.mem (σ.get s2).bits (σ.get s1).bits (σ.get s0).bits with
        | val m' =>
          rw [hmo.bulkRef _ _ _ _ _ m' hss]
          subst hl
          exact simres_pop_st hw hr 3 hge { σ.store with g := { σ.store.g with mem := m' } } ⟨hlt.len, hlt.typed, hlt.glob⟩ hwf' rfl rfl rfl rfl
        | trap t => rw [hmo.bulkTrap _ _ _ _ _ t hss]; rfl
        | ub => trivial
        | oof => trivial
  | memoryFill =>
    rw [compileInstr] at hc
    cases h0 : st.top 0 with
    | none => simp [h0, bind, Except.bind] at hc
    | some s0 =>
    cases h1 : st.top 1 with
    | none => simp [h0, h1, bind, Except.bind] at hc
    | some s1 =>
    cases h2 : st.top 2 with
    | none => simp [h0, h1, h2, bind, Except.bind] at hc
    | some s2 =>
      simp only [h0, h1, h2, bind, Except.bind] at hc
      split at hc
      · cases hc
      · rename_i hcond
        injection hc with hc; simp only [Prod.mk.injEq] at hc
        obtain ⟨rfl, rfl, rfl⟩ := hc
        refine ⟨by simp, ?_⟩
        rw [erunInstr, erunBulk]
        obtain ⟨a1, a2, a3⟩ := hr.top h0
        obtain ⟨b1, b2, b3⟩ := hr.top h1
        obtain ⟨c1, c2, c3⟩ := hr.top h2
        simp only [Nat.sub_zero] at a2 a3
        have e2 : stk.length - 1 - 1 = stk.length - 2 := by omega
        have e3 : stk.length - 1 - 2 = stk.length - 3 := by omega
        rw [e2] at b2 b3
        rw [e3] at c2 c3
        have hge : st.base + 3 ≤ st.stack.length := by simp [St.height] at hcond; omega
        have hlen := hr.length
        have hnlt : ¬ stk.length < 3 := by omega
        simp only [hnlt, if_false, List.getD_eq_getElem?_getD, a3, b3, c3, Option.getD_some]
        have hex : execOut ns (f + 1) [MStmtC.memFill s2 s1 s0] σ =
            (match ns.bulkT .fill σ.store.g.mem (σ.get s2).bits (σ.get s1).bits (σ.get s0).bits with
             | .val m' => MRes.normal { σ with store := { σ.store with g := { σ.store.g with mem := m' } } }
             | .trap t => .trap t | .oof => .oof | _ => .stuck) := rfl
        rw [hex, hl]
        cases hss : ns.bulkS .fill loc.g.mem (σ.get s2).bits (σ.get s1).bits (σ.get s0).bits with
        | val m' =>
          rw [hmo.bulkRef _ _ _ _ _ m' hss]
          subst hl
          exact simres_pop_st hw hr 3 hge { σ.store with g := { σ.store.g with mem := m' } } ⟨hlt.len, hlt.typed, hlt.glob⟩ hwf' rfl rfl rfl rfl
        | trap t => rw [hmo.bulkTrap _ _ _ _ _ t hss]; rfl
        | ub => trivial
        | oof => trivial
  | memoryInit seg =>
    rw [compileInstr] at hc
    cases h0 : st.top 0 with
    | none => simp [h0, bind, Except.bind] at hc
    | some s0 =>
    cases h1 : st.top 1 with
    | none => simp [h0, h1, bind, Except.bind] at hc
    | some s1 =>
    cases h2 : st.top 2 with
    | none => simp [h0, h1, h2, bind, Except.bind] at hc
    | some s2 =>
      simp only [h0, h1, h2, bind, Except.bind] at hc
      split at hc
      · cases hc
      · rename_i hcond
        injection hc with hc; simp only [Prod.mk.injEq] at hc
        obtain ⟨rfl, rfl, rfl⟩ := hc
        refine ⟨by simp, ?_⟩
        rw [erunInstr, erunBulk]
        obtain ⟨a1, a2, a3⟩ := hr.top h0
        obtain ⟨b1, b2, b3⟩ := hr.top h1
        obtain ⟨c1, c2, c3⟩ := hr.top h2
        simp only [Nat.sub_zero] at a2 a3
        have e2 : stk.length - 1 - 1 = stk.length - 2 := by omega
        have e3 : stk.length - 1 - 2 = stk.length - 3 := by omega
        rw [e2] at b2 b3
        rw [e3] at c2 c3
        have hge : st.base + 3 ≤ st.stack.length := by simp [St.height] at hcond; omega
        have hlen := hr.length
        have hnlt : ¬ stk.length < 3 := by omega
        simp only [hnlt, if_false, List.getD_eq_getElem?_getD, a3, b3, c3, Option.getD_some]
        have hex : execOut ns (f + 1) [MStmtC.memInit seg s2 s1 s0] σ =
            (match ns.bulkT (.init seg) σ.store.g.mem (σ.get s2).bits (σ.get s1).bits (σ.get s0).bits with
             | .val m' => MRes.normal { σ with store := { σ.store with g := { σ.store.g with mem := m' } } }
             | .trap t => .trap t | .oof => .oof | _ => .stuck) := rfl
        rw [hex, hl]
        cases hss : ns.bulkS (.init seg) loc.g.mem (σ.get s2).bits (σ.get s1).bits (σ.get s0).bits with
        | val m' =>
          rw [hmo.bulkRef _ _ _ _ _ m' hss]
          subst hl
          exact simres_pop_st hw hr 3 hge { σ.store with g := { σ.store.g with mem := m' } } ⟨hlt.len, hlt.typed, hlt.glob⟩ hwf' rfl rfl rfl rfl
        | trap t => rw [hmo.bulkTrap _ _ _ _ _ t hss]; rfl
        | ub => trivial
        | oof => trivial
  | dataDrop seg => stuck_case
  | atomicLoad o off =>
    rw [compileInstr] at hc
    cases hfn : atomicFnK "load" o with
    | none => simp [hfn, bind, Except.bind] at hc
    | some frt =>
    obtain ⟨fn, ort⟩ := frt
    cases ort with
    | none => simp [hfn, bind, Except.bind] at hc
    | some rt =>
    cases h0 : st.top 0 with
    | none => simp [hfn, h0, bind, Except.bind] at hc
    | some s0 =>
      simp only [hfn, h0, bind, Except.bind] at hc
      split at hc
      · cases hc
      · rename_i hcond
        injection hc with hc; simp only [Prod.mk.injEq] at hc
        obtain ⟨rfl, rfl, rfl⟩ := hc
        refine ⟨by simp, ?_⟩
        rw [erunInstr, erunRmw]
        obtain ⟨x01, x02, x03⟩ := hr.top h0
        simp only [Nat.sub_zero] at x02 x03
        have hge : st.base + 1 ≤ st.stack.length := by simp [St.height] at hcond; omega
        have hlen := hr.length
        have hnlt : ¬ stk.length < 0 + 1 := by omega
        have hdrop : stk.drop (stk.length - 0) = [] := by simp
        simp only [hnlt, if_false, List.getD_eq_getElem?_getD, x03, Option.getD_some, hdrop]
        have hex : execOut ns (f + 1) [MStmtC.rmw (some ⟨rt, s0.idx⟩) fn s0 off []] σ =
            (match ns.rmwT fn σ.store.g.mem ((σ.get s0).bits + off) ([].map σ.get) with
             | .val r =>
               (match ((some ⟨rt, s0.idx⟩) : Option Slot), r.1 with
                | some d, some v => MRes.normal (({ σ with store := { σ.store with g := { σ.store.g with mem := r.2 } } } : MSt).set d v)
                | none, none => .normal { σ with store := { σ.store with g := { σ.store.g with mem := r.2 } } }
                | _, _ => .stuck)
             | .trap t => .trap t | .oof => .oof | _ => .stuck) := rfl
        rw [hex, hl]
        simp only [List.map_cons, List.map_nil]
        cases hss : ns.rmwS o loc.g.mem ((σ.get s0).bits + off) [] with
        | val r =>
          obtain ⟨hT, hsome, _⟩ := hmo.atomRef "load" o fn (some rt) _ _ _ r hfn hss
          obtain ⟨v, hv1, hv2⟩ := hsome rt rfl
          rw [hT]
          obtain ⟨rv, m'⟩ := r
          simp only at hv1; subst hv1
          simp only []
          subst hl
          have hstack : (((st.declare ⟨rt, s0.idx⟩).drop 1).push rt).stack = st.stack.take (st.stack.length - 1) ++ [rt] := by simp [St.push, St.drop, St.declare]
          refine simres_pop_push_st hw hr 1 hge rt v hv2 { σ.store with g := { σ.store.g with mem := m' } } ⟨hlt.len, hlt.typed, hlt.glob⟩ hwf' rfl rfl hstack ?_
          rw [x02, hlen]
        | trap t => rw [hmo.atomTrap "load" o fn _ _ _ _ t hfn hss]; rfl
        | ub => trivial
        | oof => trivial
  | atomicStore o off =>
    rw [compileInstr] at hc
    cases hfn : atomicFnK "store" o with
    | none => simp [hfn, bind, Except.bind] at hc
    | some frt =>
    obtain ⟨fn, ort⟩ := frt
    cases ort with
    | some rt => simp [hfn, bind, Except.bind] at hc
    | none =>
    cases h0 : st.top 0 with
    | none => simp [hfn, h0, bind, Except.bind] at hc
    | some s0 =>
    cases h1 : st.top 1 with
    | none => simp [hfn, h0, h1, bind, Except.bind] at hc
    | some s1 =>
      simp only [hfn, h0, h1, bind, Except.bind] at hc
      split at hc
      · cases hc
      · rename_i hcond
        injection hc with hc; simp only [Prod.mk.injEq] at hc
        obtain ⟨rfl, rfl, rfl⟩ := hc
        refine ⟨by simp, ?_⟩
        rw [erunInstr, erunRmw]
        obtain ⟨x01, x02, x03⟩ := hr.top h0
        obtain ⟨x11, x12, x13⟩ := hr.top h1
        simp only [Nat.sub_zero] at x02 x03
        have e1 : stk.length - 1 - 1 = stk.length - 2 := by omega
        rw [e1] at x12 x13
        have hge : st.base + 2 ≤ st.stack.length := by simp [St.height] at hcond; omega
        have hlen := hr.length
        have hnlt : ¬ stk.length < 1 + 1 := by omega
        have hdrop : stk.drop (stk.length - 1) = [σ.get s0] := by
          apply List.ext_getElem?; intro i
          rw [List.getElem?_drop]
          cases i with
          | zero => simpa using x03
          | succ j => simp; omega
        simp only [hnlt, if_false, List.getD_eq_getElem?_getD, x13, Option.getD_some, hdrop]
        have hex : execOut ns (f + 1) [MStmtC.rmw none fn s1 off [s0]] σ =
            (match ns.rmwT fn σ.store.g.mem ((σ.get s1).bits + off) ([s0].map σ.get) with
             | .val r =>
               (match (none : Option Slot), r.1 with
                | some d, some v => MRes.normal (({ σ with store := { σ.store with g := { σ.store.g with mem := r.2 } } } : MSt).set d v)
                | none, none => .normal { σ with store := { σ.store with g := { σ.store.g with mem := r.2 } } }
                | _, _ => .stuck)
             | .trap t => .trap t | .oof => .oof | _ => .stuck) := rfl
        rw [hex, hl]
        simp only [List.map_cons, List.map_nil]
        cases hss : ns.rmwS o loc.g.mem ((σ.get s1).bits + off) [σ.get s0] with
        | val r =>
          obtain ⟨hT, _, hnone⟩ := hmo.atomRef "store" o fn none _ _ _ r hfn hss
          rw [hT]
          obtain ⟨rv, m'⟩ := r
          have := hnone rfl
          simp only at this; subst this
          simp only []
          subst hl
          exact simres_pop_st hw hr 2 hge { σ.store with g := { σ.store.g with mem := m' } } ⟨hlt.len, hlt.typed, hlt.glob⟩ hwf' rfl rfl rfl rfl
        | trap t => rw [hmo.atomTrap "store" o fn _ _ _ _ t hfn hss]; rfl
        | ub => trivial
        | oof => trivial
  | atomicRmw o off =>
    rw [compileInstr] at hc
    cases hfn : atomicFnK "rmw" o with
    | none => simp [hfn, bind, Except.bind] at hc
    | some frt =>
    obtain ⟨fn, ort⟩ := frt
    cases ort with
    | none => simp [hfn, bind, Except.bind] at hc
    | some rt =>
    cases h0 : st.top 0 with
    | none => simp [hfn, h0, bind, Except.bind] at hc
    | some s0 =>
    cases h1 : st.top 1 with
    | none => simp [hfn, h0, h1, bind, Except.bind] at hc
    | some s1 =>
      simp only [hfn, h0, h1, bind, Except.bind] at hc
      split at hc
      · cases hc
      · rename_i hcond
        injection hc with hc; simp only [Prod.mk.injEq] at hc
        obtain ⟨rfl, rfl, rfl⟩ := hc
        refine ⟨by simp, ?_⟩
        rw [erunInstr, erunRmw]
        obtain ⟨x01, x02, x03⟩ := hr.top h0
        obtain ⟨x11, x12, x13⟩ := hr.top h1
        simp only [Nat.sub_zero] at x02 x03
        have e1 : stk.length - 1 - 1 = stk.length - 2 := by omega
        rw [e1] at x12 x13
        have hge : st.base + 2 ≤ st.stack.length := by simp [St.height] at hcond; omega
        have hlen := hr.length
        have hnlt : ¬ stk.length < 1 + 1 := by omega
        have hdrop : stk.drop (stk.length - 1) = [σ.get s0] := by
          apply List.ext_getElem?; intro i
          rw [List.getElem?_drop]
          cases i with
          | zero => simpa using x03
          | succ j => simp; omega
        simp only [hnlt, if_false, List.getD_eq_getElem?_getD, x13, Option.getD_some, hdrop]
        have hex : execOut ns (f + 1) [MStmtC.rmw (some ⟨rt, s1.idx⟩) fn s1 off [s0]] σ =
            (match ns.rmwT fn σ.store.g.mem ((σ.get s1).bits + off) ([s0].map σ.get) with
             | .val r =>
               (match ((some ⟨rt, s1.idx⟩) : Option Slot), r.1 with
                | some d, some v => MRes.normal (({ σ with store := { σ.store with g := { σ.store.g with mem := r.2 } } } : MSt).set d v)
                | none, none => .normal { σ with store := { σ.store with g := { σ.store.g with mem := r.2 } } }
                | _, _ => .stuck)
             | .trap t => .trap t | .oof => .oof | _ => .stuck) := rfl
        rw [hex, hl]
        simp only [List.map_cons, List.map_nil]
        cases hss : ns.rmwS o loc.g.mem ((σ.get s1).bits + off) [σ.get s0] with
        | val r =>
          obtain ⟨hT, hsome, _⟩ := hmo.atomRef "rmw" o fn (some rt) _ _ _ r hfn hss
          obtain ⟨v, hv1, hv2⟩ := hsome rt rfl
          rw [hT]
          obtain ⟨rv, m'⟩ := r
          simp only at hv1; subst hv1
          simp only []
          subst hl
          have hstack : (((st.declare ⟨rt, s1.idx⟩).drop 2).push rt).stack = st.stack.take (st.stack.length - 2) ++ [rt] := by simp [St.push, St.drop, St.declare]
          refine simres_pop_push_st hw hr 2 hge rt v hv2 { σ.store with g := { σ.store.g with mem := m' } } ⟨hlt.len, hlt.typed, hlt.glob⟩ hwf' rfl rfl hstack ?_
          rw [x12, hlen]
        | trap t => rw [hmo.atomTrap "rmw" o fn _ _ _ _ t hfn hss]; rfl
        | ub => trivial
        | oof => trivial
  | atomicCmpxchg o off =>
    rw [compileInstr] at hc
    cases hfn : atomicFnK "cmpxchg" o with
    | none => simp [hfn, bind, Except.bind] at hc
    | some frt =>
    obtain ⟨fn, ort⟩ := frt
    cases ort with
    | none => simp [hfn, bind, Except.bind] at hc
    | some rt =>
    cases h0 : st.top 0 with
    | none => simp [hfn, h0, bind, Except.bind] at hc
    | some s0 =>
    cases h1 : st.top 1 with
    | none => simp [hfn, h0, h1, bind, Except.bind] at hc
    | some s1 =>
    cases h2 : st.top 2 with
    | none => simp [hfn, h0, h1, h2, bind, Except.bind] at hc
    | some s2 =>
      simp only [hfn, h0, h1, h2, bind, Except.bind] at hc
      split at hc
      · cases hc
      · rename_i hcond
        injection hc with hc; simp only [Prod.mk.injEq] at hc
        obtain ⟨rfl, rfl, rfl⟩ := hc
        refine ⟨by simp, ?_⟩
        rw [erunInstr, erunRmw]
        obtain ⟨x01, x02, x03⟩ := hr.top h0
        obtain ⟨x11, x12, x13⟩ := hr.top h1
        obtain ⟨x21, x22, x23⟩ := hr.top h2
        simp only [Nat.sub_zero] at x02 x03
        have e1 : stk.length - 1 - 1 = stk.length - 2 := by omega
        rw [e1] at x12 x13
        have e2 : stk.length - 1 - 2 = stk.length - 3 := by omega
        rw [e2] at x22 x23
        have hge : st.base + 3 ≤ st.stack.length := by simp [St.height] at hcond; omega
        have hlen := hr.length
        have hnlt : ¬ stk.length < 2 + 1 := by omega
        have hdrop : stk.drop (stk.length - 2) = [σ.get s1, σ.get s0] := by
          apply List.ext_getElem?; intro i
          rw [List.getElem?_drop]
          cases i with
          | zero => simpa using x13
          | succ j =>
            cases j with
            | zero =>
              have e : stk.length - 2 + (0 + 1) = stk.length - 1 := by omega
              rw [e]; simpa using x03
            | succ k => simp; omega
        simp only [hnlt, if_false, List.getD_eq_getElem?_getD, x23, Option.getD_some, hdrop]
        have hex : execOut ns (f + 1) [MStmtC.rmw (some ⟨rt, s2.idx⟩) fn s2 off [s1, s0]] σ =
            (match ns.rmwT fn σ.store.g.mem ((σ.get s2).bits + off) ([s1, s0].map σ.get) with
             | .val r =>
               (match ((some ⟨rt, s2.idx⟩) : Option Slot), r.1 with
                | some d, some v => MRes.normal (({ σ with store := { σ.store with g := { σ.store.g with mem := r.2 } } } : MSt).set d v)
                | none, none => .normal { σ with store := { σ.store with g := { σ.store.g with mem := r.2 } } }
                | _, _ => .stuck)
             | .trap t => .trap t | .oof => .oof | _ => .stuck) := rfl
        rw [hex, hl]
        simp only [List.map_cons, List.map_nil]
        cases hss : ns.rmwS o loc.g.mem ((σ.get s2).bits + off) [σ.get s1, σ.get s0] with
        | val r =>
          obtain ⟨hT, hsome, _⟩ := hmo.atomRef "cmpxchg" o fn (some rt) _ _ _ r hfn hss
          obtain ⟨v, hv1, hv2⟩ := hsome rt rfl
          rw [hT]
          obtain ⟨rv, m'⟩ := r
          simp only at hv1; subst hv1
          simp only []
          subst hl
          have hstack : (((st.declare ⟨rt, s2.idx⟩).drop 3).push rt).stack = st.stack.take (st.stack.length - 3) ++ [rt] := by simp [St.push, St.drop, St.declare]
          refine simres_pop_push_st hw hr 3 hge rt v hv2 { σ.store with g := { σ.store.g with mem := m' } } ⟨hlt.len, hlt.typed, hlt.glob⟩ hwf' rfl rfl hstack ?_
          rw [x22, hlen]
        | trap t => rw [hmo.atomTrap "cmpxchg" o fn _ _ _ _ t hfn hss]; rfl
        | ub => trivial
        | oof => trivial
  | atomicFence =>
    simp [compileInstr] at hc
    obtain ⟨rfl, rfl, rfl⟩ := hc
    refine ⟨by simp, ?_⟩
    rw [erunInstr]
    exact simres_normal_intro rfl hw rfl (Nat.le_refl _) hlt σ rfl hr hl (SlotsBelow.refl _ _) rfl
  | atomicNotify off => stuck_case
  | atomicWait b off => stuck_case
  | call fn =>
    rw [compileInstr] at hc
    cases hti : ctx.funcTypeIdx[fn]? with
    | none => simp [hti, bind, Except.bind] at hc
    | some ti =>
    cases hft : ctx.types[ti]? with
    | none => simp [hti, hft, bind, Except.bind] at hc
    | some ft =>
      simp only [hti, hft, bind, Except.bind] at hc
      split at hc
      · cases hc
      · rename_i hge
        split at hc
        · cases hc
        · rename_i hty
          simp only [Decidable.not_not, ne_eq] at hty
          have hge' : st.base + ft.params.length ≤ st.stack.length := by simp [St.height] at hge; omega
          have hlen := hr.length
          have hargs := hr.args ft.params (by omega) (by simpa [St.height] using hty)
          rw [erunInstr]
          have hnlt : ¬ stk.length < ft.params.length := by omega
          cases hres : ft.results with
          | nil =>
            simp only [hres] at hc
            injection hc with hc; simp only [Prod.mk.injEq] at hc
            obtain ⟨rfl, rfl, rfl⟩ := hc
            refine ⟨by simp, ?_⟩
            have har := hco.arity fn ti ft hti hft (by simp [hres])
            simp only [hres, List.head?_nil, Option.map_none] at har
            simp only [har, hnlt, if_false]
            subst hl
            cases hcs : ns.callS fn (topN ft.params.length stk) σ.store.g with
            | val r =>
              obtain ⟨rv, g'⟩ := r
              have hpres := hco.pres fn _ _ _ hlt.glob hcs
              cases rv with
              | some v => trivial
              | none =>
                have hct := hco.refVal fn _ _ _ hlt.glob hcs
                simp only [afterCall]
                refine simres_pop_st hw hr ft.params.length hge' { σ.store with g := g' } ⟨hlt.len, hlt.typed, hpres⟩ hwf' rfl rfl rfl ?_
                show execStmt ns (f + 1) (MStmtC.call none fn _) σ = _
                simp only [execStmt, St.height]
                rw [hargs, hct]
            | trap t =>
              have hct := hco.refTrap fn _ _ _ hlt.glob hcs
              show execStmt ns (f + 1) (MStmtC.call none fn _) σ = _
              simp only [execStmt, St.height]
              rw [hargs, hct]
            | ub => trivial
            | oof => trivial
          | cons r rest =>
            cases rest with
            | cons r2 rest2 => simp [hres] at hc
            | nil =>
              simp only [hres] at hc
              injection hc with hc; simp only [Prod.mk.injEq] at hc
              obtain ⟨rfl, rfl, rfl⟩ := hc
              refine ⟨by simp, ?_⟩
              have har := hco.arity fn ti ft hti hft (by simp [hres])
              simp only [hres, List.head?_cons, Option.map_some] at har
              simp only [har, hnlt, if_false]
              subst hl
              cases hcs : ns.callS fn (topN ft.params.length stk) σ.store.g with
              | val rr =>
                obtain ⟨rv, g'⟩ := rr
                have hpres := hco.pres fn _ _ _ hlt.glob hcs
                cases rv with
                | none => trivial
                | some v =>
                  have hct := hco.refVal fn _ _ _ hlt.glob hcs
                  have hv := hco.typed fn _ _ _ _ v g' hlt.glob har hcs
                  simp only [afterCall]
                  refine simres_pop_push_st hw hr ft.params.length hge' (vtOfW r) v hv { σ.store with g := g' } ⟨hlt.len, hlt.typed, hpres⟩ hwf' rfl rfl rfl ?_
                  show execStmt ns (f + 1) (MStmtC.call (some _) fn _) σ = _
                  simp only [execStmt, St.height]
                  rw [hargs, hct]
              | trap t =>
                have hct := hco.refTrap fn _ _ _ hlt.glob hcs
                show execStmt ns (f + 1) (MStmtC.call (some _) fn _) σ = _
                simp only [execStmt, St.height]
                rw [hargs, hct]
              | ub => trivial
              | oof => trivial
  | callIndirect ty tbl =>
    rw [compileInstr] at hc
    cases hft : ctx.types[ty]? with
    | none => simp [hft, bind, Except.bind] at hc
    | some ft =>
    cases h0 : st.top 0 with
    | none => simp [hft, h0, bind, Except.bind] at hc
    | some idx =>
      simp only [hft, h0, bind, Except.bind] at hc
      split at hc
      · cases hc
      · rename_i hge
        split at hc
        · cases hc
        · rename_i hty
          simp only [not_or, Decidable.not_not, ne_eq] at hty
          have hge' : st.base + ft.params.length + 1 ≤ st.stack.length := by simp [St.height] at hge; omega
          have hlen := hr.length
          obtain ⟨a1, a2, a3⟩ := hr.top h0
          simp only [Nat.sub_zero] at a2 a3
          have hidx : stk.getD (stk.length - 1) (.i32 0) = σ.get idx := by
            rw [List.getD_eq_getElem?_getD, a3]; rfl
          have hw0 : WF (st.drop 1) := hw.of_same rfl (Nat.le_refl _) (by simp; omega) (by have := hw.decl; simp; omega)
          have hr0 : Rel (st.drop 1).stack stk.dropLast σ := by
            have := hr.take (st.stack.length - 1)
            simpa [List.dropLast_eq_take, hlen] using this
          have htake : stk.dropLast.take st.base = stk.take st.base := by
            rw [List.dropLast_eq_take, List.take_take]; congr 1; omega
          have hl0 : (st.drop 1).stack.length = st.stack.length - 1 := by simp
          have hdrop : (st.drop 1).stack.drop ((st.drop 1).stack.length - ft.params.length) = ft.params.map vtOfW := by
            rw [hl0]
            have h := hty.1
            simp only [St.height] at h
            rw [← h, St.drop_stack, List.drop_take]
            congr 1; omega
          have hargs := hr0.args ft.params (by rw [hl0]; omega) hdrop
          rw [hl0] at hargs
          have hge0 : (st.drop 1).base + ft.params.length ≤ (st.drop 1).stack.length := by rw [hl0]; simp; omega
          have hstk0 : (st.drop 1).stack.take ((st.drop 1).stack.length - ft.params.length) = st.stack.take (st.stack.length - (ft.params.length + 1)) := by
            rw [hl0, St.drop_stack, List.take_take]; congr 1; omega
          rw [erunInstr]
          have hnlt : ¬ stk.length < ft.params.length + 1 := by omega
          cases hres : ft.results with
          | nil =>
            simp only [hres] at hc
            injection hc with hc; simp only [Prod.mk.injEq] at hc
            obtain ⟨rfl, rfl, rfl⟩ := hc
            refine ⟨by simp, ?_⟩
            have har := hco.indArity ty ft hft (by simp [hres])
            simp only [hres, List.head?_nil, Option.map_none] at har
            simp only [har, hnlt, if_false, hidx]
            subst hl
            cases hcs : ns.indS ty (σ.get idx).bits (topN ft.params.length stk.dropLast) σ.store.g with
            | val r =>
              obtain ⟨rv, g'⟩ := r
              have hpres := hco.indPres ty _ _ _ _ hlt.glob hcs
              cases rv with
              | some v => trivial
              | none =>
                have hct := hco.indRefVal ty _ _ _ _ hlt.glob hcs
                simp only [afterCall]
                refine simres_rebase hw rfl (Nat.le_refl _) (SlotsBelow.refl _ _) htake ?_
                refine simres_pop_st hw0 hr0 ft.params.length hge0 { σ.store with g := g' } ⟨hlt.len, hlt.typed, hpres⟩ hwf' rfl rfl hstk0.symm ?_
                show execStmt ns (f + 1) (MStmtC.callIndirect none ty tbl idx _) σ = _
                simp only [execStmt, St.height]
                rw [hargs, hct]
            | trap t =>
              have hct := hco.indRefTrap ty _ _ _ _ hlt.glob hcs
              show execStmt ns (f + 1) (MStmtC.callIndirect none ty tbl idx _) σ = _
              simp only [execStmt, St.height]
              rw [hargs, hct]
            | ub => trivial
            | oof => trivial
          | cons r rest =>
            cases rest with
            | cons r2 rest2 => simp [hres] at hc
            | nil =>
              simp only [hres] at hc
              injection hc with hc; simp only [Prod.mk.injEq] at hc
              obtain ⟨rfl, rfl, rfl⟩ := hc
              refine ⟨by simp, ?_⟩
              have har := hco.indArity ty ft hft (by simp [hres])
              simp only [hres, List.head?_cons, Option.map_some] at har
              simp only [har, hnlt, if_false, hidx]
              subst hl
              cases hcs : ns.indS ty (σ.get idx).bits (topN ft.params.length stk.dropLast) σ.store.g with
              | val rr =>
                obtain ⟨rv, g'⟩ := rr
                have hpres := hco.indPres ty _ _ _ _ hlt.glob hcs
                cases rv with
                | none => trivial
                | some v =>
                  have hct := hco.indRefVal ty _ _ _ _ hlt.glob hcs
                  have hv := hco.indTyped ty _ _ _ _ _ v g' hlt.glob har hcs
                  simp only [afterCall]
                  refine simres_rebase hw rfl (Nat.le_refl _) (SlotsBelow.refl _ _) htake ?_
                  refine simres_pop_push_st hw0 hr0 ft.params.length hge0 (vtOfW r) v hv { σ.store with g := g' } ⟨hlt.len, hlt.typed, hpres⟩ hwf' rfl rfl ?_ ?_
                  · show st.stack.take (st.stack.length - (ft.params.length + 1)) ++ [vtOfW r] = _
                    rw [hstk0]
                  · show execStmt ns (f + 1) (MStmtC.callIndirect (some _) ty tbl idx _) σ = _
                    simp only [execStmt, St.height]
                    rw [hargs, hct, hl0]
              | trap t =>
                have hct := hco.indRefTrap ty _ _ _ _ hlt.glob hcs
                show execStmt ns (f + 1) (MStmtC.callIndirect (some _) ty tbl idx _) σ = _
                simp only [execStmt, St.height]
                rw [hargs, hct]
              | ub => trivial
              | oof => trivial
  | brTable ls d =>
    rw [compileInstr] at hc
    cases h0 : st.top 0 with
    | none => simp [h0, bind, Except.bind] at hc
    | some c =>
      simp only [h0, bind, Except.bind] at hc
      split at hc
      · cases hc
      · rename_i hcond
        simp only [not_or, Decidable.not_not, ne_eq, Nat.not_lt] at hcond
        split at hc
        · cases hc
        · rename_i res hfold
          obtain ⟨s1, cases⟩ := res
          simp only [] at hc
          cases hlabD : s1.label d with
          | none => simp [hlabD] at hc
          | some labD =>
          cases hgD : gotoCopy s1 labD with
          | none => simp [hlabD, hgD] at hc
          | some r =>
            obtain ⟨s2, cpD⟩ := r
            simp only [hlabD, hgD] at hc
            injection hc with hc; simp only [Prod.mk.injEq] at hc
            obtain ⟨rfl, rfl, rfl⟩ := hc
            refine ⟨by simp, ?_⟩
            rw [erunInstr]
            obtain ⟨a1, a2, a3⟩ := hr.top h0
            simp only [Nat.sub_zero] at a2 a3
            have hlast : stk.getLast? = some (σ.get c) := by rw [List.getLast?_eq_getElem?]; exact a3
            have hlen := hr.length
            have hge : st.base + 1 ≤ st.stack.length := by simp [St.height] at hcond; omega
            have hr0 : Rel (st.drop 1).stack stk.dropLast σ := by
              have := hr.take (st.stack.length - 1)
              simpa [List.dropLast_eq_take, hlen] using this
            have htake : stk.dropLast.take st.base = stk.take st.base := by
              rw [List.dropLast_eq_take, List.take_take]; congr 1; omega
            obtain ⟨f1, f2, f3⟩ := brTable_fold_same _ _ _ _ _ hfold
            obtain ⟨cs, e1, e2, e3⟩ := brTable_fold_sem _ _ _ _ _ hfold
            simp only [List.nil_append] at e1
            subst e1
            simp only [hlast]
            -- the common ending: a label of `st`, a translator state with the stack after the pop, its copy
            have fin : ∀ (l' : Nat) (lab : Label) (sa sb : St) (cp : Option (Slot × Slot)), st.label l' = some lab → sa.stack = (st.drop 1).stack →
                gotoCopy sa lab = some (sb, cp) →
                SimRes ctx st stk σ s2 true (.branch l' stk.dropLast loc) (.jump lab.index (doCopy σ cp)) := by
              intro l' lab sa sb cp hlab hsa hg
              obtain ⟨g1, g2, g3⟩ := gotoCopy_sem hg (hsa ▸ hr0)
              have hmem := St.label_mem hlab
              refine ⟨hlt, lab, doCopy σ cp, hlab, rfl, ⟨by rw [g1, hl], g2, htake, ?_, g3⟩, fun ht => ?_⟩
              · have := hw.height_le_base hmem
                simp [List.length_dropLast]; omega
              · have h1 := (gotoCopy_declLen hg).2 ht
                rw [(gotoCopy_same hg).1, hsa] at h1
                have h2 := hwf'.decl
                rw [(gotoCopy_same hgD).1, f1] at h2
                exact Nat.le_trans h1 h2
            have hex : execOut ns (f + 1) [MStmtC.switchGoto c cases (cpD, labD.index)] σ =
                .jump (cases.getD (σ.get c).bits (cpD, labD.index)).2 (doCopy σ (cases.getD (σ.get c).bits (cpD, labD.index)).1) := rfl
            rw [hex]
            by_cases hn : (σ.get c).bits < ls.length
            · have hn' : (σ.get c).bits < cases.length := by omega
              obtain ⟨lab, sa, sb, q1, q2, q3, q4⟩ := e3 _ hn hn'
              have hgd : cases.getD (σ.get c).bits (cpD, labD.index) = cases[(σ.get c).bits] := by
                rw [List.getD_eq_getElem?_getD, List.getElem?_eq_getElem hn']; rfl
              have hld : ls.getD (σ.get c).bits d = ls[(σ.get c).bits] := by
                rw [List.getD_eq_getElem?_getD, List.getElem?_eq_getElem hn]; rfl
              rw [hgd, hld, q4]
              exact fin _ lab sa sb _ q2 q1 q3
            · have hn' : ¬ (σ.get c).bits < cases.length := by omega
              have hgd : cases.getD (σ.get c).bits (cpD, labD.index) = (cpD, labD.index) := by
                rw [List.getD_eq_getElem?_getD, List.getElem?_eq_none (by omega)]; rfl
              have hld : ls.getD (σ.get c).bits d = d := by
                rw [List.getD_eq_getElem?_getD, List.getElem?_eq_none (by omega)]; rfl
              rw [hgd, hld]
              have hlabD' : st.label d = some labD := by
                rw [← label_eq_of_labels (s1 := s1) (s2 := st) (by rw [f2]; rfl)]; exact hlabD
              exact fin d labD s1 s2 cpD hlabD' f1 hgD

set_option hygiene false in
macro "out_len_case" : tactic => `(tactic| (
  rw [compileInstr] at hc
  try simp only [bind, Except.bind] at hc
  repeat' (split at hc)
  all_goals first
    | (cases hc; done)
    | (injection hc with hc; simp only [Prod.mk.injEq] at hc; obtain ⟨_, rfl, _⟩ := hc; simp)))

/-- every instruction becomes at most one (possibly compound) statement -/
theorem instr_out_len {ctx : Ctx} {st st' : St} {i : EInstr} {out : List MStmtC} {dead : Bool}
    (hc : compileInstr ctx st i = .ok (st', out, dead)) : out.length ≤ 1 := by
  cases i <;> out_len_case

/-- the simulation statement for sequences and single instructions, for every amount of fuel -/
theorem sim_all (ns : NumSem) (hns : NumOK ns) (hmo : MemOK ns) (ctx : Ctx) (hco : CallOK ns ctx) : ∀ f, SeqStmt ns ctx f ∧ InstrStmt ns ctx f
  | 0 => ⟨fun is st st' out dead stk loc σ _ _ _ _ _ => by rw [erunSeq]; trivial,
          fun i st st' out dead stk loc σ hc _ _ _ _ => ⟨instr_out_len hc, by rw [erunInstr]; trivial⟩⟩
  | f + 1 =>
    have ih := sim_all ns hns hmo ctx hco f
    ⟨seq_step ns ctx f ih.1 ih.2, instr_step ns hns hmo ctx hco f ih.1 ih.2⟩

end W2c2Verif.Sim
