/-
  Lemmas.WasiPathProc — args/environ copy loop (pointwise description of the final memory),
  adjacent stores, the getentropy chunk loop.
-/
import W2c2Verif.Lemmas.WasiPathMem
import W2c2Verif.Model.WasiProc
namespace W2c2Verif.WasiProc
open W2c2Verif W2c2Verif.WasiPath

theorem put_length (m : Mem) (a : Nat) (bs : Bytes) (h : a + bs.length ≤ m.length) :
    (put m a bs).length = m.length := stored_length m a bs h

theorem storeBytes_put (m : Mem) (a : Nat) (bs : Bytes) (h : a + bs.length ≤ m.length) :
    storeBytes m a bs = .val (put m a bs) := storeBytes_ok m a bs h

theorem put_getElem? (m : Mem) (a : Nat) (bs : Bytes) (h : a + bs.length ≤ m.length) (k : Nat) :
    (put m a bs)[k]? = if a ≤ k ∧ k < a + bs.length then bs[k - a]? else m[k]? := by
  by_cases hk : a ≤ k ∧ k < a + bs.length
  · simp only [hk, and_self, if_true]
    unfold put
    have hl : (m.take a).length = a := by simp; omega
    rw [List.append_assoc, List.getElem?_append_right (by omega), hl, List.getElem?_append_left (by omega)]
  · simp only [hk, if_false]
    exact stored_getElem?_outside m a bs h k (by omega)

theorem flatStrings_length_cons (a : Bytes) (rest : List Bytes) :
    (flatStrings (a :: rest)).length = a.length + 1 + (flatStrings rest).length := by
  simp [flatStrings]; omega

theorem flatPointers_length : ∀ (v : List Bytes) (b : Nat), (flatPointers v b).length = 4 * v.length := by
  intro v
  induction v with
  | nil => intro _; simp [flatPointers]
  | cons a rest ih => intro b; simp [flatPointers, leBytes_length, ih]; omega

theorem sizeLoop_eq (v : List Bytes) (acc : Nat) : sizeLoop 1 v acc = acc + (flatStrings v).length := by
  induction v generalizing acc with
  | nil => simp [sizeLoop, flatStrings]
  | cons a rest ih => rw [sizeLoop, ih, flatStrings_length_cons]; omega

/-- the copy loop, pointwise: string region, pointer region, everything else untouched -/
theorem getLoop_spec : ∀ (v : List Bytes) (idx p bc : Nat) (m : Mem),
    m.length < 4294967296 → bc + (flatStrings v).length ≤ m.length → p + 4 * (idx + v.length) ≤ m.length →
    (p + 4 * (idx + v.length) ≤ bc ∨ bc + (flatStrings v).length ≤ p + 4 * idx) →
    ∃ m', getLoop 1 4 v idx p bc m = .val m' ∧ m'.length = m.length ∧
      ∀ k, m'[k]? =
        if bc ≤ k ∧ k < bc + (flatStrings v).length then (flatStrings v)[k - bc]?
        else if p + 4 * idx ≤ k ∧ k < p + 4 * (idx + v.length) then (flatPointers v bc)[k - (p + 4 * idx)]?
        else m[k]? := by
  intro v
  induction v with
  | nil =>
    intro idx p bc m _ _ _ _
    refine ⟨m, by simp [getLoop], rfl, ?_⟩
    intro k
    have n1 : ¬ (bc ≤ k ∧ k < bc + 0) := by omega
    have n2 : ¬ (p + 4 * idx ≤ k ∧ k < p + 4 * (idx + 0)) := by omega
    simp only [flatStrings, flatPointers, List.length_nil, n1, n2, if_false]
  | cons a rest ih =>
    intro idx p bc m h32 hb hp hd
    have hfl := flatStrings_length_cons a rest
    rw [hfl] at hb hd
    simp only [List.length_cons] at hp hd
    have hsrc : (a ++ [0] : Bytes).length = a.length + 1 := by simp
    have hstore1 : bc + (a ++ [0] : Bytes).length ≤ m.length := by rw [hsrc]; omega
    have hm1len := put_length m bc (a ++ [0]) hstore1
    have h4 : (leBytes 4 bc).length = 4 := leBytes_length 4 bc
    have hstore2 : (p + idx * 4) + (leBytes 4 bc).length ≤ (put m bc (a ++ [0])).length := by
      rw [h4, hm1len]; omega
    have hm2len := put_length (put m bc (a ++ [0])) (p + idx * 4) (leBytes 4 bc) hstore2
    obtain ⟨m', hrun, hlen, hpt⟩ := ih (idx + 1) p (bc + (a.length + 1))
      (put (put m bc (a ++ [0])) (p + idx * 4) (leBytes 4 bc))
      (by rw [hm2len, hm1len]; exact h32) (by rw [hm2len, hm1len]; omega) (by rw [hm2len, hm1len]; omega)
      (by rcases hd with h | h
          · left; omega
          · right; omega)
    refine ⟨m', ?_, by rw [hlen, hm2len, hm1len], ?_⟩
    · unfold getLoop
      have : a.length + 1 ≤ (a ++ [0] : Bytes).length := by simp
      simp only [this, not_true_eq_false, if_false]
      have ht : (a ++ [0] : Bytes).take (a.length + 1) = a ++ [0] := List.take_of_length_le (by simp)
      rw [ht, storeBytes_put m bc _ hstore1]
      simp only [Out.bind_val, i32Store]
      rw [storeBytes_put _ _ _ hstore2]
      simp only [Out.bind_val]
      rw [u32_of_lt _ (by omega)]
      exact hrun
    · intro k
      rw [hpt k, put_getElem? _ _ _ hstore2, put_getElem? _ _ _ hstore1, hsrc, h4, hfl]
      have hfp : flatPointers (a :: rest) bc = leBytes 4 bc ++ flatPointers rest (bc + (a.length + 1)) := by
        show leBytes 4 bc ++ flatPointers rest (bc + a.length + 1) = _
        rw [Nat.add_assoc]
      have hfs : flatStrings (a :: rest) = (a ++ [0]) ++ flatStrings rest := rfl
      rw [hfp, hfs]
      -- make the four byte blocks opaque
      obtain ⟨S, hS⟩ : ∃ S : Bytes, S = a ++ [0] := ⟨_, rfl⟩
      obtain ⟨P4, hP4⟩ : ∃ P : Bytes, P = leBytes 4 bc := ⟨_, rfl⟩
      obtain ⟨F, hF⟩ : ∃ F : Bytes, F = flatStrings rest := ⟨_, rfl⟩
      obtain ⟨PP, hPP⟩ : ∃ P : Bytes, P = flatPointers rest (bc + (a.length + 1)) := ⟨_, rfl⟩
      rw [← hS, ← hP4, ← hF, ← hPP]
      rw [← hS] at hsrc
      rw [← hP4] at h4
      rw [← hF] at hb hd
      have hPPl : PP.length = 4 * rest.length := by rw [hPP]; exact flatPointers_length _ _
      simp only [List.length_cons]
      by_cases c1 : bc ≤ k ∧ k < bc + (a.length + 1)
      · -- inside the string just copied
        have n1 : ¬ (bc + (a.length + 1) ≤ k ∧ k < bc + (a.length + 1) + F.length) := by omega
        have n2 : ¬ (p + 4 * (idx + 1) ≤ k ∧ k < p + 4 * (idx + 1 + rest.length)) := by
          rcases hd with h | h <;> omega
        have n3 : ¬ (p + idx * 4 ≤ k ∧ k < p + idx * 4 + 4) := by
          rcases hd with h | h <;> omega
        have y1 : bc ≤ k ∧ k < bc + (a.length + 1 + F.length) := by omega
        simp only [n1, n2, n3, c1, y1, if_false, if_true, and_self]
        rw [List.getElem?_append_left (by rw [hsrc]; omega)]
      · by_cases c2 : bc + (a.length + 1) ≤ k ∧ k < bc + (a.length + 1) + F.length
        · have y1 : bc ≤ k ∧ k < bc + (a.length + 1 + F.length) := by omega
          simp only [c2, y1, if_true, and_self]
          rw [List.getElem?_append_right (by rw [hsrc]; omega), hsrc]
          congr 1; omega
        · have n1 : ¬ (bc ≤ k ∧ k < bc + (a.length + 1 + F.length)) := by omega
          simp only [c2, n1, c1, if_false]
          by_cases c3 : p + idx * 4 ≤ k ∧ k < p + idx * 4 + 4
          · have n2 : ¬ (p + 4 * (idx + 1) ≤ k ∧ k < p + 4 * (idx + 1 + rest.length)) := by omega
            have y2 : p + 4 * idx ≤ k ∧ k < p + 4 * (idx + (rest.length + 1)) := by omega
            simp only [n2, c3, y2, if_false, if_true, and_self]
            rw [List.getElem?_append_left (by rw [h4]; omega)]
            congr 1; omega
          · simp only [c3, if_false]
            by_cases c4 : p + 4 * (idx + 1) ≤ k ∧ k < p + 4 * (idx + 1 + rest.length)
            · have y2 : p + 4 * idx ≤ k ∧ k < p + 4 * (idx + (rest.length + 1)) := by omega
              simp only [c4, y2, if_true, and_self]
              rw [List.getElem?_append_right (by rw [h4]; omega), h4]
              congr 1
            · have n2 : ¬ (p + 4 * idx ≤ k ∧ k < p + 4 * (idx + (rest.length + 1))) := by omega
              simp only [c4, n2, if_false]


/-- two adjacent stores are one store of the concatenation -/
theorem put_put_adjacent (m : Mem) (a : Nat) (x y : Bytes) (h : a + (x ++ y).length ≤ m.length) :
    put (put m a x) (a + x.length) y = put m a (x ++ y) := by
  have hx : a + x.length ≤ m.length := by simp at h; omega
  have hxl := put_length m a x hx
  have hy : (a + x.length) + y.length ≤ (put m a x).length := by rw [hxl]; simp at h; omega
  apply List.ext_getElem?
  intro k
  rw [put_getElem? _ _ _ hy, put_getElem? _ _ _ hx, put_getElem? _ _ _ h]
  simp only [List.length_append]
  by_cases c1 : a + x.length ≤ k ∧ k < a + x.length + y.length
  · have y1 : a ≤ k ∧ k < a + (x.length + y.length) := by omega
    simp only [c1, y1, and_self, if_true]
    rw [List.getElem?_append_right (by omega)]
    congr 1; omega
  · simp only [c1, if_false]
    by_cases c2 : a ≤ k ∧ k < a + x.length
    · have y1 : a ≤ k ∧ k < a + (x.length + y.length) := by omega
      simp only [c2, y1, and_self, if_true]
      rw [List.getElem?_append_left (by omega)]
    · have n1 : ¬ (a ≤ k ∧ k < a + (x.length + y.length)) := by omega
      simp only [c2, n1, if_false]

theorem put_nil (m : Mem) (a : Nat) (h : a ≤ m.length) : put m a [] = m := by
  simp [put]

theorem range_map_add (f : Nat → UInt8) (a c : Nat) :
    (List.range (a + c)).map f = (List.range a).map f ++ (List.range c).map (fun i => f (a + i)) := by
  rw [List.range_add, List.map_append, List.map_map]
  rfl

/-- the chunk loop with a working getentropy fills exactly `[ptr, ptr+len)` with the source bytes -/
theorem chunkLoop_spec (source : Nat → UInt8) (mem : Mem) (ptr len : Nat) (hb : ptr + len ≤ mem.length)
    (h32 : len < 4294967296) :
    ∀ (fuel offset : Nat), offset ≤ len → len - offset < fuel →
      chunkLoop (getentropySpec source) 256 ptr len fuel offset (put mem ptr ((List.range offset).map source))
        = .val (.inr (put mem ptr ((List.range len).map source))) := by
  intro fuel
  induction fuel with
  | zero => intro _ _ h; omega
  | succ fuel ih =>
    intro offset ho hf
    unfold chunkLoop
    by_cases hlt : offset < len
    · simp only [hlt, not_true_eq_false, if_false]
      obtain ⟨c, hc⟩ : ∃ c, c = (if len - offset > 256 then 256 else len - offset) := ⟨_, rfl⟩
      have hc1 : 1 ≤ c := by rw [hc]; split <;> omega
      have hc2 : c ≤ 256 := by rw [hc]; split <;> omega
      have hc3 : offset + c ≤ len := by rw [hc]; split <;> omega
      rw [← hc]
      have hent : getentropySpec source offset c = .inr ((List.range c).map (fun i => source (offset + i))) := by
        unfold getentropySpec
        have : ¬ c > 256 := by omega
        simp [this]
      rw [hent]
      simp only
      have hl0 : ((List.range offset).map source).length = offset := by simp
      have hl1 : ((List.range c).map (fun i => source (offset + i))).length = c := by simp
      have hcur := put_length mem ptr ((List.range offset).map source) (by rw [hl0]; omega)
      rw [storeBytes_put _ _ _ (by rw [hl1, hcur]; omega)]
      simp only [Out.bind_val]
      have hadj := put_put_adjacent mem ptr ((List.range offset).map source)
        ((List.range c).map (fun i => source (offset + i))) (by simp; omega)
      rw [hl0] at hadj
      rw [hadj, ← range_map_add, u32_of_lt _ (by omega)]
      exact ih (offset + c) hc3 (by omega)
    · have : offset = len := by omega
      subst this
      simp [hlt]


end W2c2Verif.WasiProc
