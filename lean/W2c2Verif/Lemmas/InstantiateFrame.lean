/-
  Lemmas.InstantiateFrame — a running instance writes only to objects it can name (its imports and the objects it
  allocated); objects allocated by instantiation are fresh.
-/
import W2c2Verif.Lemmas.InstantiateOrder

namespace W2c2Verif.Model.Inst
open W2c2Verif Spec.Inst

theorem heapWrite_frame {α} (h : List (Array α)) (p off : Nat) (xs : List α) (h' : List (Array α))
    (hw : heapWrite h p off xs = .val h') : h'.length = h.length ∧ ∀ q, q ≠ p → h'[q]? = h[q]? := by
  unfold heapWrite at hw
  cases hp : h[p]? with
  | none => simp [hp] at hw
  | some a =>
    simp only [hp] at hw
    by_cases hf : off + xs.length ≤ a.size
    · simp only [hf, if_true] at hw
      have e : h' = h.set p (writeArr a off xs) := by
        cases hw; rfl
      subst e
      refine ⟨by simp, ?_⟩
      intro q hq
      rw [List.getElem?_set]
      have : ¬ p = q := fun e => hq e.symm
      simp [this]
    · simp [hf] at hw

theorem memPtr_reach (d : ModDesc) (i : Instance) (idx p : Nat) (h : memPtr d i idx = some p) : p ∈ reachMems i := by
  unfold memPtr at h
  unfold reachMems
  by_cases hi : idx < d.memImports
  · simp only [hi, if_true] at h
    apply List.mem_append_left
    rw [List.mem_filterMap]
    cases hx : i.memImp[idx]? with
    | none => simp [hx] at h
    | some o =>
      simp [hx] at h
      exact ⟨o, List.mem_of_getElem? hx, by simp [h]⟩
  · simp only [hi, if_false] at h
    exact List.mem_append_right _ (List.mem_of_getElem? h)

theorem tabPtr_reach (d : ModDesc) (i : Instance) (idx p : Nat) (h : tabPtr d i idx = some p) : p ∈ reachTables i := by
  unfold tabPtr at h
  unfold reachTables
  by_cases hi : idx < d.tableImports
  · simp only [hi, if_true] at h
    apply List.mem_append_left
    rw [List.mem_filterMap]
    cases hx : i.tabImp[idx]? with
    | none => simp [hx] at h
    | some o =>
      simp [hx] at h
      exact ⟨o, List.mem_of_getElem? hx, by simp [h]⟩
  · simp only [hi, if_false] at h
    exact List.mem_append_right _ (List.mem_of_getElem? h)

/-- what an operation sequence on instance `s.2` may have changed -/
structure Frame (s s' : St) : Prop where
  ptrs : s'.2.memImp = s.2.memImp ∧ s'.2.tabImp = s.2.tabImp ∧ s'.2.globImp = s.2.globImp ∧ s'.2.mems = s.2.mems ∧ s'.2.tables = s.2.tables
  memCount : s'.1.mems.length = s.1.mems.length
  tableCount : s'.1.tables.length = s.1.tables.length
  mems : ∀ q, q ∉ reachMems s.2 → s'.1.mems[q]? = s.1.mems[q]?
  tables : ∀ q, q ∉ reachTables s.2 → s'.1.tables[q]? = s.1.tables[q]?

theorem Frame.refl (s : St) : Frame s s := ⟨⟨rfl, rfl, rfl, rfl, rfl⟩, rfl, rfl, fun _ _ => rfl, fun _ _ => rfl⟩

theorem Frame.trans {a b c : St} (h1 : Frame a b) (h2 : Frame b c) : Frame a c := by
  obtain ⟨p1, p2, p3, p4, p5⟩ := h1.ptrs
  obtain ⟨q1, q2, q3, q4, q5⟩ := h2.ptrs
  have rm : reachMems b.2 = reachMems a.2 := by unfold reachMems; rw [p1, p4]
  have rt : reachTables b.2 = reachTables a.2 := by unfold reachTables; rw [p2, p5]
  exact { ptrs := ⟨q1.trans p1, q2.trans p2, q3.trans p3, q4.trans p4, q5.trans p5⟩
          memCount := h2.memCount.trans h1.memCount
          tableCount := h2.tableCount.trans h1.tableCount
          mems := fun q hq => (h2.mems q (by rw [rm]; exact hq)).trans (h1.mems q hq)
          tables := fun q hq => (h2.tables q (by rw [rt]; exact hq)).trans (h1.tables q hq) }

theorem applyOp_frame (d : ModDesc) (s : St) (op : Op) (s' : St) (h : applyOp d s op = .val s') : Frame s s' := by
  cases op with
  | memWrite idx off bytes =>
    simp only [applyOp] at h
    cases hp : memPtr d s.2 idx with
    | none => simp [hp] at h
    | some p =>
      simp only [hp] at h
      cases hw : heapWrite s.1.mems p off bytes with
      | val ms =>
        rw [hw] at h
        have e : s' = ({ s.1 with mems := ms }, s.2) := by simp at h; exact h.symm
        subst e
        obtain ⟨hl, hfr⟩ := heapWrite_frame _ _ _ _ _ hw
        exact ⟨⟨rfl, rfl, rfl, rfl, rfl⟩, hl, rfl,
          fun q hq => hfr q (fun e => hq (e ▸ memPtr_reach d s.2 idx p hp)), fun _ _ => rfl⟩
      | trap t => rw [hw] at h; simp at h
      | ub k => rw [hw] at h; simp at h
      | oof => rw [hw] at h; simp at h
  | memGrow idx n =>
    simp only [applyOp] at h
    cases hp : memPtr d s.2 idx with
    | none => simp [hp] at h
    | some p =>
      simp only [hp] at h
      cases ha : s.1.mems[p]? with
      | none => simp [ha] at h
      | some a =>
        simp only [ha] at h
        have e : s' = ({ s.1 with mems := s.1.mems.set p (a ++ Array.replicate (n * pageSize - a.size) 0) }, s.2) := by
          simp at h; exact h.symm
        subst e
        refine ⟨⟨rfl, rfl, rfl, rfl, rfl⟩, by simp, rfl, ?_, fun _ _ => rfl⟩
        intro q hq
        have hne : ¬ p = q := fun e => hq (e ▸ memPtr_reach d s.2 idx p hp)
        simp [hne]
  | tableSet idx slot f =>
    simp only [applyOp] at h
    cases hp : tabPtr d s.2 idx with
    | none => simp [hp] at h
    | some p =>
      simp only [hp] at h
      cases hw : heapWrite s.1.tables p slot [f] with
      | val ts =>
        rw [hw] at h
        have e : s' = ({ s.1 with tables := ts }, s.2) := by simp at h; exact h.symm
        subst e
        obtain ⟨hl, hfr⟩ := heapWrite_frame _ _ _ _ _ hw
        exact ⟨⟨rfl, rfl, rfl, rfl, rfl⟩, rfl, hl, fun _ _ => rfl,
          fun q hq => hfr q (fun e => hq (e ▸ tabPtr_reach d s.2 idx p hp))⟩
      | trap t => rw [hw] at h; simp at h
      | ub k => rw [hw] at h; simp at h
      | oof => rw [hw] at h; simp at h
  | globalSet idx v =>
    simp only [applyOp] at h
    by_cases hi : idx < d.globalImports
    · simp only [hi, if_true] at h
      cases hp : (s.2.globImp[idx]?).join with
      | none => simp [hp] at h
      | some p =>
        simp only [hp] at h
        by_cases hl : p < s.1.globals.length
        · simp only [hl, if_true] at h
          have e : s' = ({ s.1 with globals := s.1.globals.set p v }, s.2) := by simp at h; exact h.symm
          subst e
          exact ⟨⟨rfl, rfl, rfl, rfl, rfl⟩, rfl, rfl, fun _ _ => rfl, fun _ _ => rfl⟩
        · simp [hl] at h
    · simp only [hi, if_false] at h
      by_cases hl : idx - d.globalImports < s.2.globals.length
      · simp only [hl, if_true] at h
        have e : s' = (s.1, { s.2 with globals := s.2.globals.set (idx - d.globalImports) v }) := by simp at h; exact h.symm
        subst e
        exact ⟨⟨rfl, rfl, rfl, rfl, rfl⟩, rfl, rfl, fun _ _ => rfl, fun _ _ => rfl⟩
      · simp [hl] at h

theorem runOps_frame (d : ModDesc) (ops : List Op) (s s' : St) (h : runOps d s ops = .val s') : Frame s s' :=
  foldM'_inv (applyOp d) (fun t => Frame s t) (fun a x b hx hp => hp.trans (applyOp_frame d a x b hx)) ops s s' h (Frame.refl s)

/-- the resolver hands out existing objects -/
structure ResolverOK (r : Resolver) (w : World) : Prop where
  mem : ∀ k p, r.mem k = some p → p < w.mems.length
  table : ∀ k p, r.table k = some p → p < w.tables.length

/-- everything an initialised instance can name lies below the end of the heap it was created in … -/
theorem reachMems_bound (d : ModDesc) (w : World) (r : Resolver) (s : St) (hi : Initialised d w r s) (hr : ResolverOK r w) :
    ∀ p ∈ reachMems s.2, p < s.1.mems.length := by
  intro p hp
  unfold reachMems at hp
  rw [hi.memCount]
  rw [List.mem_append] at hp
  cases hp with
  | inl h =>
    rw [hi.memImp, List.mem_filterMap] at h
    obtain ⟨o, ho, hop⟩ := h
    rw [List.mem_map] at ho
    obtain ⟨k, _, hk⟩ := ho
    have : r.mem k = some p := by rw [hk]; simpa using hop
    have := hr.mem k p this
    omega
  | inr h =>
    rw [hi.ownMems, List.mem_map] at h
    obtain ⟨k, hk, hkp⟩ := h
    simp at hk
    omega

theorem reachTables_bound (d : ModDesc) (w : World) (r : Resolver) (s : St) (hi : Initialised d w r s) (hr : ResolverOK r w) :
    ∀ p ∈ reachTables s.2, p < s.1.tables.length := by
  intro p hp
  unfold reachTables at hp
  rw [hi.tableCount]
  rw [List.mem_append] at hp
  cases hp with
  | inl h =>
    rw [hi.tabImp, List.mem_filterMap] at h
    obtain ⟨o, ho, hop⟩ := h
    rw [List.mem_map] at ho
    obtain ⟨k, _, hk⟩ := ho
    have : r.table k = some p := by rw [hk]; simpa using hop
    have := hr.table k p this
    omega
  | inr h =>
    rw [hi.ownTables, List.mem_map] at h
    obtain ⟨k, hk, hkp⟩ := h
    simp at hk
    omega

/-- … and the objects instantiation allocates lie at or above the end of the heap it started from -/
theorem ownMems_fresh (d : ModDesc) (w : World) (r : Resolver) (s : St) (hi : Initialised d w r s) :
    ∀ p ∈ s.2.mems, w.mems.length ≤ p := by
  intro p hp
  rw [hi.ownMems, List.mem_map] at hp
  obtain ⟨k, _, hk⟩ := hp
  omega

theorem ownTables_fresh (d : ModDesc) (w : World) (r : Resolver) (s : St) (hi : Initialised d w r s) :
    ∀ p ∈ s.2.tables, w.tables.length ≤ p := by
  intro p hp
  rw [hi.ownTables, List.mem_map] at hp
  obtain ⟨k, _, hk⟩ := hp
  omega

end W2c2Verif.Model.Inst
