/-
  Lemmas.WasiPathReaddir — fd_readdir: the dirent header, the client's decoder, the abstract
  description `emit` of what one call writes, and the refinement of the modelled loop to it.
-/
import W2c2Verif.Lemmas.WasiPathMem
import W2c2Verif.Model.WasiReaddir
namespace W2c2Verif.WasiReaddir
open W2c2Verif W2c2Verif.WasiPath W2c2Verif.Dir

def header (next ino namlen ft : Nat) : Bytes :=
  leBytes 8 next ++ leBytes 8 ino ++ leBytes 4 namlen ++ leBytes 1 ft ++ [0, 0, 0]

theorem header_length (a b c e : Nat) : (header a b c e).length = 24 := by
  simp [header, leBytes_length]

/-- a complete directory entry as a WASI client reads it -/
structure Rec where
  next : Nat
  ino : Nat
  namlen : Nat
  ftype : Nat
  name : Bytes
  deriving DecidableEq, Repr

/-- the client's view of the first `bufferUsed` bytes: complete entries, in order -/
def decode (bs : Bytes) : List Rec :=
  if bs.length < 24 then [] else
  let namlen := leVal ((bs.drop 16).take 4)
  if bs.length < 24 + namlen then [] else
  ⟨leVal (bs.take 8), leVal ((bs.drop 8).take 8), namlen, leVal ((bs.drop 20).take 1),
    (bs.drop 24).take namlen⟩ :: decode (bs.drop (24 + namlen))
termination_by bs.length
decreasing_by simp; omega

theorem decode_short (bs : Bytes) (h : bs.length < 24) : decode bs = [] := by
  rw [decode]; simp [h]

theorem header_fields (next ino nl ft : Nat) (X : Bytes) :
    (header next ino nl ft ++ X).take 8 = leBytes 8 next ∧
    ((header next ino nl ft ++ X).drop 8).take 8 = leBytes 8 ino ∧
    ((header next ino nl ft ++ X).drop 16).take 4 = leBytes 4 nl ∧
    ((header next ino nl ft ++ X).drop 20).take 1 = leBytes 1 ft ∧
    (header next ino nl ft ++ X).drop 24 = X := by
  have l8a := leBytes_length 8 next
  have l8b := leBytes_length 8 ino
  have l4 := leBytes_length 4 nl
  have l1 := leBytes_length 1 ft
  unfold header
  refine ⟨?_, ?_, ?_, ?_, ?_⟩
  · simp only [List.append_assoc]
    rw [List.take_append_of_le_length (by omega), List.take_of_length_le (by omega)]
  · simp only [List.append_assoc]
    rw [List.drop_append_of_le_length (by omega), List.drop_of_length_le (by omega), List.nil_append,
      List.take_append_of_le_length (by omega), List.take_of_length_le (by omega)]
  · have : leBytes 8 next ++ leBytes 8 ino ++ leBytes 4 nl ++ leBytes 1 ft ++ [0, 0, 0] ++ X
        = (leBytes 8 next ++ leBytes 8 ino) ++ (leBytes 4 nl ++ (leBytes 1 ft ++ [0, 0, 0] ++ X)) := by simp
    rw [this, List.drop_append_of_le_length (by simp; omega), List.drop_of_length_le (by simp; omega), List.nil_append,
      List.take_append_of_le_length (by omega), List.take_of_length_le (by omega)]
  · have : leBytes 8 next ++ leBytes 8 ino ++ leBytes 4 nl ++ leBytes 1 ft ++ [0, 0, 0] ++ X
        = (leBytes 8 next ++ leBytes 8 ino ++ leBytes 4 nl) ++ (leBytes 1 ft ++ ([0, 0, 0] ++ X)) := by simp
    rw [this, List.drop_append_of_le_length (by simp; omega), List.drop_of_length_le (by simp; omega), List.nil_append,
      List.take_append_of_le_length (by omega), List.take_of_length_le (by omega)]
  · rw [List.drop_append_of_le_length (by simp; omega), List.drop_of_length_le (by simp; omega), List.nil_append]


theorem decode_complete (next ino ft : Nat) (name tail : Bytes)
    (hn : next < 256 ^ 8) (hi : ino < 256 ^ 8) (hl : name.length < 256 ^ 4) (hf : ft < 256 ^ 1) :
    decode (header next ino name.length ft ++ (name ++ tail)) =
      ⟨next, ino, name.length, ft, name⟩ :: decode tail := by
  obtain ⟨f1, f2, f3, f4, f5⟩ := header_fields next ino name.length ft (name ++ tail)
  rw [decode]
  have hlen : (header next ino name.length ft ++ (name ++ tail)).length = 24 + name.length + tail.length := by
    simp [header_length]; omega
  simp only [f1, f2, f3, f4, f5, hlen, leVal_leBytes _ _ hn, leVal_leBytes _ _ hi, leVal_leBytes _ _ hl,
    leVal_leBytes _ _ hf]
  have h1 : ¬ 24 + name.length + tail.length < 24 := by omega
  have h2 : ¬ 24 + name.length + tail.length < 24 + name.length := by omega
  simp only [h1, h2, if_false]
  have h3 : (header next ino name.length ft ++ (name ++ tail)).drop (24 + name.length) = tail := by
    rw [← List.drop_drop, f5, List.drop_left]
  rw [h3]
  simp

theorem decode_truncated (next ino nl ft : Nat) (part : Bytes) (hl : nl < 256 ^ 4) (hp : part.length < nl) :
    decode (header next ino nl ft ++ part) = [] := by
  obtain ⟨_, _, f3, _, _⟩ := header_fields next ino nl ft part
  rw [decode]
  have hlen : (header next ino nl ft ++ part).length = 24 + part.length := by simp [header_length]
  simp only [f3, hlen, leVal_leBytes _ _ hl]
  have h2 : 24 + part.length < 24 + nl := by omega
  simp [h2]


theorem writeHeader_seg (A H B : Bytes) (p next ino nl ft : Nat) (hp : p = A.length) (hH : H.length = 24)
    (h32 : (A ++ H ++ B).length ≤ 4294967296) :
    writeHeader (A ++ H ++ B) p next ino nl ft = .val (A ++ header next ino nl ft ++ B) := by
  subst hp
  have hlen : A.length + 24 ≤ 4294967296 := by simp at h32; omega
  unfold writeHeader
  simp only [Gen.WasiPath.direntSize, Gen.WasiPath.direntNextOff, Gen.WasiPath.direntInoOff,
    Gen.WasiPath.direntNamlenOff, Gen.WasiPath.direntTypeOff, i64Store, i32Store, i32Store8]
  rw [storeBytes_seg A H B _ _ rfl (by simp [hH])]
  simp only [Out.bind_val]
  rw [u32_of_lt _ (by omega), u32_of_lt _ (by omega), u32_of_lt _ (by omega), u32_of_lt _ (by omega)]
  -- the zeroed header as five segments
  have hz : (List.replicate 24 (0 : UInt8)) =
      List.replicate 8 0 ++ (List.replicate 8 0 ++ (List.replicate 4 0 ++ (List.replicate 1 0 ++ [0, 0, 0]))) := by decide
  rw [hz]
  -- next
  have e1 : A ++ (List.replicate 8 (0 : UInt8) ++ (List.replicate 8 0 ++ (List.replicate 4 0 ++ (List.replicate 1 0 ++ [0, 0, 0])))) ++ B
      = A ++ List.replicate 8 0 ++ ((List.replicate 8 0 ++ (List.replicate 4 0 ++ (List.replicate 1 0 ++ [0, 0, 0]))) ++ B) := by
    simp
  rw [e1, storeBytes_seg A _ _ (leBytes 8 next) _ (by simp) (by simp [leBytes_length])]
  simp only [Out.bind_val]
  -- inode
  have e2 : A ++ leBytes 8 next ++ ((List.replicate 8 (0 : UInt8) ++ (List.replicate 4 0 ++ (List.replicate 1 0 ++ [0, 0, 0]))) ++ B)
      = (A ++ leBytes 8 next) ++ List.replicate 8 0 ++ ((List.replicate 4 0 ++ (List.replicate 1 0 ++ [0, 0, 0])) ++ B) := by
    simp
  rw [e2, storeBytes_seg (A ++ leBytes 8 next) _ _ (leBytes 8 ino) _ (by simp [leBytes_length]) (by simp [leBytes_length])]
  simp only [Out.bind_val]
  have e3 : (A ++ leBytes 8 next) ++ leBytes 8 ino ++ ((List.replicate 4 (0 : UInt8) ++ (List.replicate 1 0 ++ [0, 0, 0])) ++ B)
      = (A ++ leBytes 8 next ++ leBytes 8 ino) ++ List.replicate 4 0 ++ ((List.replicate 1 0 ++ [0, 0, 0]) ++ B) := by
    simp
  rw [e3, storeBytes_seg (A ++ leBytes 8 next ++ leBytes 8 ino) _ _ (leBytes 4 nl) _ (by simp [leBytes_length]) (by simp [leBytes_length])]
  simp only [Out.bind_val]
  have e4 : (A ++ leBytes 8 next ++ leBytes 8 ino) ++ leBytes 4 nl ++ ((List.replicate 1 (0 : UInt8) ++ [0, 0, 0]) ++ B)
      = (A ++ leBytes 8 next ++ leBytes 8 ino ++ leBytes 4 nl) ++ List.replicate 1 0 ++ ([0, 0, 0] ++ B) := by
    simp
  rw [e4, storeBytes_seg (A ++ leBytes 8 next ++ leBytes 8 ino ++ leBytes 4 nl) _ _ (leBytes 1 ft) _ (by simp [leBytes_length]) (by simp [leBytes_length])]
  simp [header]


/-- the WASI file type the loop stores for an entry -/
def ftOf (e : Entry) : Nat :=
  if fileTypeFromDT e.dtype = Gen.WasiPath.fileTypeUnknown then e.lstat.getD 0 else fileTypeFromDT e.dtype

/-- the entry's type is delivered by `d_type`, or the `lstat` fallback fits its buffer and succeeds -/
def TypeOK (pm : Nat) (path : Bytes) (e : Entry) : Prop :=
  fileTypeFromDT e.dtype = Gen.WasiPath.fileTypeUnknown →
    (path.length + 1 + e.name.length < pm ∧ e.lstat ≠ none)

/-- What the loop appends to the buffer, abstractly: (bytes written behind `used`, final
    bufferUsed, final stream index). -/
def emit (d : Dir) (bufLen : Nat) : List Entry → Nat → Nat → Bytes × Nat × Nat
  | [], i, used => ([], used, i)
  | e :: rest, i, used =>
    if ¬ used < bufLen then ([], used, i)
    else if bufLen - used < 24 then ([], bufLen, i + 1)
    else
      let adj := min e.name.length (bufLen - used - 24)
      let r := emit d bufLen rest (i + 1) (used + 24 + adj)
      (header (d.loc (i + 1)).toNat e.ino e.name.length (ftOf e) ++ e.name.take adj ++ r.1, r.2.1, r.2.2)

theorem emit_bounds (d : Dir) (bufLen : Nat) : ∀ (rest : List Entry) (i used : Nat), used ≤ bufLen →
    used + (emit d bufLen rest i used).1.length ≤ (emit d bufLen rest i used).2.1 ∧
    (emit d bufLen rest i used).2.1 ≤ bufLen ∧
    (emit d bufLen rest i used).2.1 - (used + (emit d bufLen rest i used).1.length) < 24 := by
  intro rest
  induction rest with
  | nil => intro i used h; simp [emit]; omega
  | cons e rest ih =>
    intro i used h
    unfold emit
    by_cases h1 : used < bufLen
    · by_cases h2 : bufLen - used < 24
      · simp [h1, h2]; omega
      · simp only [h1, h2, not_true_eq_false, if_false]
        have hadj : min e.name.length (bufLen - used - 24) ≤ bufLen - used - 24 := Nat.min_le_right _ _
        have := ih (i + 1) (used + 24 + min e.name.length (bufLen - used - 24)) (by omega)
        simp only [List.length_append, header_length, List.length_take]
        have hm : min (min e.name.length (bufLen - used - 24)) e.name.length = min e.name.length (bufLen - used - 24) := by
          omega
        rw [hm]
        omega
    · simp [h1]; omega

/-- **refinement of the loop**: on a memory `A ++ R ++ B` where `R` is the not yet used part of the
    guest buffer, the loop returns normally, replaces a prefix of `R` by `emit`'s bytes and
    touches nothing else. -/
theorem rdLoop_seg (pm : Nat) (d : Dir) (path : Bytes) (bufPtr bufLen : Nat) (hbl : bufLen < 4294967296) :
    ∀ (rest : List Entry) (i used : Nat) (A R B : Bytes),
    A.length = bufPtr + used → R.length = bufLen - used → used ≤ bufLen →
    (A ++ R ++ B).length < 4294967296 →
    (∀ e ∈ rest, TypeOK pm path e) → (∀ j, i < j → j ≤ i + rest.length → 0 ≤ d.loc j) →
    rdLoop pm d path bufPtr bufLen rest i used (A ++ R ++ B) =
      .val (.fall (emit d bufLen rest i used).2.2 (emit d bufLen rest i used).2.1
        (A ++ (emit d bufLen rest i used).1 ++ R.drop (emit d bufLen rest i used).1.length ++ B)) := by
  intro rest
  induction rest with
  | nil =>
    intro i used A R B _ _ _ _ _ _
    unfold rdLoop
    simp [emit, Gen.WasiPath.loopContinues]
  | cons e rest ih =>
    intro i used A R B hA hR hu h32 hty hloc
    unfold rdLoop
    simp only [Gen.WasiPath.loopContinues, decide_eq_true_eq]
    by_cases h1 : used < bufLen
    · have hl : 0 ≤ d.loc (i + 1) := hloc (i + 1) (by omega) (by simp)
      have hnl : ¬ d.loc (i + 1) < 0 := by omega
      have hrem : u32 (bufLen - used) = bufLen - used := u32_of_lt _ (by omega)
      have htot : bufPtr + bufLen < 4294967296 := by
        simp only [List.length_append] at h32; omega
      have hrp : u32 (bufPtr + used) = bufPtr + used := u32_of_lt _ (by omega)
      have hTy := hty e (List.mem_cons_self)
      simp only [h1, not_true_eq_false, if_false, hnl, hrem, hrp]
      -- the two lstat-fallback tests pass
      have c1 : ¬ (fileTypeFromDT e.dtype = Gen.WasiPath.fileTypeUnknown ∧ ¬ path.length + 1 + e.name.length < pm) := by
        intro ⟨a, b⟩; exact b (hTy a).1
      have c2 : ¬ (fileTypeFromDT e.dtype = Gen.WasiPath.fileTypeUnknown ∧ e.lstat = none) := by
        intro ⟨a, b⟩; exact (hTy a).2 b
      simp only [c1, c2, if_false, Gen.WasiPath.headerDoesNotFit, Gen.WasiPath.direntSize, decide_eq_true_eq]
      by_cases h2 : bufLen - used < 24
      · simp [h2, emit, h1]
      · simp only [h2, if_false]
        -- split R into the header part, the name part and the rest
        have hR24 : 24 ≤ R.length := by omega
        let adj := min e.name.length (bufLen - used - 24)
        have hadj : adj ≤ bufLen - used - 24 := Nat.min_le_right _ _
        have hRsplit : R = R.take 24 ++ ((R.drop 24).take adj ++ R.drop (24 + adj)) := by
          rw [← List.drop_drop, List.take_append_drop, List.take_append_drop]
        have hmem : A ++ R ++ B = A ++ R.take 24 ++ (((R.drop 24).take adj ++ R.drop (24 + adj)) ++ B) := by
          conv => lhs; rw [hRsplit]
          simp
        rw [hmem, writeHeader_seg A (R.take 24) _ (bufPtr + used) _ _ _ _ hA.symm (by simp <;> omega)
          (by rw [← hmem]; exact Nat.le_of_lt h32)]
        simp only [Out.bind_val]
        have hu24 : u32 (used + 24) = used + 24 := u32_of_lt _ (by omega)
        have hrem2 : u32 (bufLen - (used + 24)) = bufLen - used - 24 := by
          rw [u32_of_lt _ (by omega)]; omega
        have hrp2 : u32 (bufPtr + (used + 24)) = bufPtr + used + 24 := by
          rw [u32_of_lt _ (by omega)]; omega
        have hadjeq : Gen.WasiPath.adjustedNameLength e.name.length (bufLen - used - 24) = adj := by
          unfold Gen.WasiPath.adjustedNameLength
          show _ = min e.name.length (bufLen - used - 24)
          split <;> omega
        simp only [hu24, hrem2, hrp2, hadjeq]
        let hd := header (d.loc (i + 1)).toNat e.ino e.name.length (ftOf e)
        have hft : (if fileTypeFromDT e.dtype = Gen.WasiPath.fileTypeUnknown then e.lstat.getD 0 else fileTypeFromDT e.dtype) = ftOf e := rfl
        rw [hft]
        have hmem2 : A ++ hd ++ (((R.drop 24).take adj ++ R.drop (24 + adj)) ++ B)
            = (A ++ hd) ++ (R.drop 24).take adj ++ (R.drop (24 + adj) ++ B) := by simp
        show (storeBytes (A ++ hd ++ (((R.drop 24).take adj ++ R.drop (24 + adj)) ++ B)) _ _ >>= _) = _
        rw [hmem2, storeBytes_seg (A ++ hd) _ _ (e.name.take adj) _ (by simp [hd, header_length]; omega)
          (by simp; omega)]
        simp only [Out.bind_val]
        have hu3 : u32 (used + 24 + adj) = used + 24 + adj := u32_of_lt _ (by omega)
        rw [hu3]
        have hmem3 : (A ++ hd) ++ e.name.take adj ++ (R.drop (24 + adj) ++ B)
            = (A ++ hd ++ e.name.take adj) ++ R.drop (24 + adj) ++ B := by simp
        rw [hmem3, ih (i + 1) (used + 24 + adj) (A ++ hd ++ e.name.take adj) (R.drop (24 + adj)) B
          (by simp [hd, header_length]; omega) (by simp; omega) (by omega)
          (by
            have hadj2 : adj ≤ e.name.length := Nat.min_le_left _ _
            simp only [List.length_append, List.length_take, List.length_drop, hd, header_length] at h32 ⊢
            omega)
          (fun e' he' => hty e' (List.mem_cons_of_mem _ he'))
          (fun j hj1 hj2 => hloc j (by omega) (by simp at *; omega))]
        -- both sides describe the same emit
        have hem : emit d bufLen (e :: rest) i used =
            (hd ++ e.name.take adj ++ (emit d bufLen rest (i + 1) (used + 24 + adj)).1,
             (emit d bufLen rest (i + 1) (used + 24 + adj)).2.1,
             (emit d bufLen rest (i + 1) (used + 24 + adj)).2.2) := by
          conv => lhs; unfold emit
          simp [h1, h2, hd, adj]
        rw [hem]
        simp only [List.length_append, List.append_assoc, List.drop_drop]
        congr 4
        simp [hd, header_length]
        omega
    · simp [h1, emit]



/-- the record a client must see for entry `e` at stream index `i` -/
def recOf (d : Dir) (i : Nat) (e : Entry) : Rec :=
  ⟨(d.loc (i + 1)).toNat, e.ino, e.name.length, ftOf e, e.name⟩

def recsFrom (d : Dir) : Nat → List Entry → List Rec
  | _, [] => []
  | i, e :: l => recOf d i e :: recsFrom d (i + 1) l

/-- field values fit their dirent fields -/
structure EntryOK (e : Entry) : Prop where
  ino : e.ino < 256 ^ 8
  name : e.name.length < 256 ^ 4
  ft : ftOf e < 256 ^ 1

/-- number of entries one call delivers completely, starting with `used` bytes in the buffer -/
def emitCount (bufLen : Nat) : List Entry → Nat → Nat
  | [], _ => 0
  | e :: rest, used =>
    if ¬ used < bufLen then 0
    else if bufLen - used < 24 then 0
    else if e.name.length ≤ bufLen - used - 24 then 1 + emitCount bufLen rest (used + 24 + e.name.length)
    else 0

theorem emit_full (d : Dir) (bufLen : Nat) (rest : List Entry) (i used : Nat) (h : ¬ used < bufLen) :
    emit d bufLen rest i used = ([], used, i) := by
  cases rest <;> simp [emit, h]

theorem emitCount_le (bufLen : Nat) : ∀ (rest : List Entry) (used : Nat), emitCount bufLen rest used ≤ rest.length := by
  intro rest
  induction rest with
  | nil => intro _; simp [emitCount]
  | cons e rest ih =>
    intro used
    unfold emitCount
    split
    · omega
    · split
      · omega
      · split
        · have := ih (used + 24 + e.name.length); simp; omega
        · omega

/-- decoding what one call wrote (`emit`'s bytes followed by the `bufferUsed − written` stale bytes the
    client also looks at) yields exactly the completely delivered entries, in stream order -/
theorem decode_emit (d : Dir) (bufLen : Nat) : ∀ (rest : List Entry) (i used : Nat) (G : Bytes),
    (∀ e ∈ rest, EntryOK e) → (∀ j, i < j → j ≤ i + rest.length → 0 ≤ d.loc j ∧ d.loc j < 256 ^ 8) →
    used ≤ bufLen →
    G.length = (emit d bufLen rest i used).2.1 - (used + (emit d bufLen rest i used).1.length) →
    decode ((emit d bufLen rest i used).1 ++ G) = recsFrom d i (rest.take (emitCount bufLen rest used)) := by
  intro rest
  induction rest with
  | nil =>
    intro i used G _ _ _ hG
    simp [emit] at hG
    simp [emit, emitCount, recsFrom, hG, decode_short]
  | cons e rest ih =>
    intro i used G hok hloc hu hG
    by_cases h1 : used < bufLen
    · by_cases h2 : bufLen - used < 24
      · have he : emit d bufLen (e :: rest) i used = ([], bufLen, i + 1) := by simp [emit, h1, h2]
        rw [he] at hG ⊢
        simp at hG
        simp only [List.nil_append, emitCount, h1, h2, not_true_eq_false, if_false, if_true, List.take_zero, recsFrom]
        exact decode_short G (by omega)
      · have hOK := hok e (List.mem_cons_self)
        have hl := hloc (i + 1) (by omega) (by simp)
        have hnext : (d.loc (i + 1)).toNat < 256 ^ 8 := by
          have := hl.2; omega
        by_cases h3 : e.name.length ≤ bufLen - used - 24
        · have hadj : min e.name.length (bufLen - used - 24) = e.name.length := Nat.min_eq_left h3
          have he : emit d bufLen (e :: rest) i used =
              (header (d.loc (i + 1)).toNat e.ino e.name.length (ftOf e) ++ e.name ++ (emit d bufLen rest (i + 1) (used + 24 + e.name.length)).1,
               (emit d bufLen rest (i + 1) (used + 24 + e.name.length)).2.1,
               (emit d bufLen rest (i + 1) (used + 24 + e.name.length)).2.2) := by
            conv => lhs; unfold emit
            simp [h1, h2, hadj]
          rw [he] at hG ⊢
          simp only [List.length_append, header_length] at hG
          have hcnt : emitCount bufLen (e :: rest) used = 1 + emitCount bufLen rest (used + 24 + e.name.length) := by
            conv => lhs; unfold emitCount
            simp [h1, h2, h3]
          rw [hcnt, Nat.add_comm 1, List.take_succ_cons, recsFrom]
          have hassoc : header (d.loc (i + 1)).toNat e.ino e.name.length (ftOf e) ++ e.name ++
              (emit d bufLen rest (i + 1) (used + 24 + e.name.length)).1 ++ G =
              header (d.loc (i + 1)).toNat e.ino e.name.length (ftOf e) ++ (e.name ++
              ((emit d bufLen rest (i + 1) (used + 24 + e.name.length)).1 ++ G)) := by simp
          rw [hassoc, decode_complete _ _ _ _ _ hnext hOK.ino hOK.name hOK.ft]
          rw [ih (i + 1) (used + 24 + e.name.length) G (fun e' he' => hok e' (List.mem_cons_of_mem _ he'))
            (fun j hj1 hj2 => hloc j (by omega) (by simp at *; omega)) (by omega) (by omega)]
          rfl
        · have hadj : min e.name.length (bufLen - used - 24) = bufLen - used - 24 := Nat.min_eq_right (by omega)
          have hfull : emit d bufLen rest (i + 1) (used + 24 + (bufLen - used - 24)) = ([], used + 24 + (bufLen - used - 24), i + 1) :=
            emit_full d bufLen rest (i + 1) _ (by omega)
          have he : emit d bufLen (e :: rest) i used =
              (header (d.loc (i + 1)).toNat e.ino e.name.length (ftOf e) ++ e.name.take (bufLen - used - 24),
               used + 24 + (bufLen - used - 24), i + 1) := by
            conv => lhs; unfold emit
            simp [h1, h2, hadj, hfull]
          rw [he] at hG ⊢
          simp only [List.length_append, header_length, List.length_take] at hG
          have hG0 : G = [] := List.eq_nil_of_length_eq_zero (by omega)
          have hcnt : emitCount bufLen (e :: rest) used = 0 := by
            conv => lhs; unfold emitCount
            simp [h1, h2, h3]
          rw [hcnt, hG0, List.append_nil, List.take_zero, recsFrom]
          exact decode_truncated _ _ _ _ _ hOK.name (by simp; omega)
    · rw [emit_full d bufLen _ i used h1] at hG ⊢
      simp at hG
      have hcnt : emitCount bufLen (e :: rest) used = 0 := by simp [emitCount, h1]
      simp [hcnt, recsFrom, hG, decode_short]

/-- a call that does not fill the buffer has delivered everything that was left -/
theorem emit_not_full (d : Dir) (bufLen : Nat) : ∀ (rest : List Entry) (i used : Nat), used ≤ bufLen →
    (emit d bufLen rest i used).2.1 < bufLen → emitCount bufLen rest used = rest.length := by
  intro rest
  induction rest with
  | nil => intro _ _ _ _; simp [emitCount]
  | cons e rest ih =>
    intro i used hu hlt
    by_cases h1 : used < bufLen
    · by_cases h2 : bufLen - used < 24
      · simp [emit, h1, h2] at hlt
      · by_cases h3 : e.name.length ≤ bufLen - used - 24
        · have hadj : min e.name.length (bufLen - used - 24) = e.name.length := Nat.min_eq_left h3
          have : (emit d bufLen (e :: rest) i used).2.1 = (emit d bufLen rest (i + 1) (used + 24 + e.name.length)).2.1 := by
            conv => lhs; unfold emit
            simp [h1, h2, hadj]
          rw [this] at hlt
          have := ih (i + 1) (used + 24 + e.name.length) (by omega) hlt
          conv => lhs; unfold emitCount
          simp [h1, h2, h3, this]; omega
        · have hadj : min e.name.length (bufLen - used - 24) = bufLen - used - 24 := Nat.min_eq_right (by omega)
          have hfull := emit_full d bufLen rest (i + 1) (used + 24 + (bufLen - used - 24)) (by omega)
          have : (emit d bufLen (e :: rest) i used).2.1 = used + 24 + (bufLen - used - 24) := by
            conv => lhs; unfold emit
            simp [h1, h2, hadj, hfull]
          omega
    · rw [emit_full d bufLen _ i used h1] at hlt
      simp at hlt; omega

/-- a buffer that can hold the next entry delivers at least that entry -/
theorem emitCount_pos (bufLen : Nat) (e : Entry) (rest : List Entry) (h : 24 + e.name.length ≤ bufLen) :
    1 ≤ emitCount bufLen (e :: rest) 0 := by
  unfold emitCount
  have h1 : 0 < bufLen := by omega
  have h2 : ¬ bufLen < 24 := by omega
  have h3 : e.name.length ≤ bufLen - 24 := by omega
  simp [h1, h2, h3]


end W2c2Verif.WasiReaddir
